"""Finite input domains for the bounded stand-ins.  Each entry: tier -> (iterator of cases, bound text).
A case is a dict of arguments, or (args, free-variable values) for closures."""
import itertools


def strings(alphabet, maxlen):
    for n in range(maxlen + 1):
        for t in itertools.product(alphabet, repeat=n):
            yield bytes(t)


DOMAINS = {}


def domain(name):
    def deco(fn):
        DOMAINS[name] = fn
        return fn
    return deco


@domain("delta_small")
def delta_small(tier):
    alpha = [0x00, 0x01, 0x02, 0x03, 0x7F, 0x80, 0x81, 0x90, 0x91, 0xB0, 0xC1, 0xFF]
    n = 5 if tier == "quick" else 6
    bases = [b"", b"ab", b"abcdefgh"]

    def gen():
        for base in bases:
            for d in strings(alpha, n):
                yield {"src_buf": base, "delta": d}
    return gen(), f"all byte strings of length <= {n} over the opcode-covering alphabet {[hex(a) for a in alpha]} as deltas against bases {bases}"


@domain("ints_small")
def ints_small(tier):
    vals = list(range(0, 300)) + [2 ** k + d for k in (7, 8, 14, 15, 16, 21, 28, 31, 32, 35, 63, 64) for d in (-1, 0, 1)]
    return ({"size": v} for v in vals), "sizes 0..299 and 2^k-1,2^k,2^k+1 for k in {7,8,14,15,16,21,28,31,32,35,63,64}"


@domain("pkt_payloads")
def pkt_payloads(tier):
    lens = [0, 1, 2, 15, 16, 255, 4091, 4092, 65515, 65516, 65517, 65519, 65520, 65531, 65532, 70000]
    def gen():
        yield {"data": None}
        for n in lens:
            yield {"data": bytes([n % 251]) * n}
    return gen(), f"None and payloads of lengths {lens}"


@domain("len_prefixes")
def len_prefixes(tier):
    import itertools
    alpha = b"019afAF gG+-_x\x00\xff"
    def gen():
        for n in (0, 1, 2, 3, 5):
            for t in itertools.product(alpha[:6], repeat=n):
                yield {"sizestr": bytes(t)}
        for t in itertools.product(alpha, repeat=4):
            yield {"sizestr": bytes(t)}
    return gen(), f"all strings of length 4 over {alpha!r} plus lengths 0,1,2,3,5 over its first six symbols"


@domain("delta_pairs")
def delta_pairs(tier):
    """(base, target) pairs for the create/apply round trip: all pairs of strings <= 3 over {a,b} plus
    boundary sizes of the insert (127) and copy (0xFFFF) op limits."""
    import itertools
    small = list(strings(b"ab", 3))
    sizes = [0, 1, 126, 127, 128, 253, 254, 255, 381] + ([0xFFFE, 0xFFFF, 0x10000, 0x10001, 0x1FFFE, 0x20000] if tier == "thorough" else [0xFFFF, 0x10000])

    def gen():
        for b in small:
            for t in small:
                yield {"base_buf": b, "target_buf": t}
        for n in sizes:
            lit = bytes((i * 7 + 3) % 251 for i in range(n))
            for base in (b"", b"xyz", lit[: n // 2]):
                yield {"base_buf": base, "target_buf": lit}
                yield {"base_buf": lit, "target_buf": base + lit}
                yield {"base_buf": lit, "target_buf": lit + base}
            yield {"base_buf": lit, "target_buf": lit}
            yield {"base_buf": lit + b"Q" + lit, "target_buf": lit + lit}
    return gen(), f"all (base,target) in {{a,b}}^<=3 x {{a,b}}^<=3 plus structured pairs with literal runs of sizes {sizes}"


@domain("path_strings")
def path_strings(tier):
    alpha = b"./gGit a"
    n = 5 if tier == "quick" else 6
    return ({"path": x} for x in strings(alpha, n)), f"all strings <= {n} over {alpha!r} (the default element validator is the argument default)"


@domain("element_strings")
def element_strings(tier):
    alpha = b".gGiItT~1: a"
    n = 5 if tier == "quick" else 6
    return ({"name": x} for x in strings(alpha, n)), f"all strings <= {n} over {alpha!r}"

"""Finite input domains for the bounded stand-ins.  Each entry: tier -> (iterator of cases, bound text).
A case is a dict of arguments, or (args, free-variable values) for closures."""
import itertools


def strings(alphabet, maxlen):
    for n in range(maxlen + 1):
        for t in itertools.product(alphabet, repeat=n):
            yield bytes(t)


DOMAINS = {}


def domain(name):
    def deco(fn):
        DOMAINS[name] = fn
        return fn
    return deco


@domain("delta_small")
def delta_small(tier):
    alpha = [0x00, 0x01, 0x02, 0x03, 0x7F, 0x80, 0x81, 0x90, 0x91, 0xB0]
    n = 5 if tier == "quick" else 6
    bases = [b"", b"ab", b"abcdefgh"]

    def gen():
        for base in bases:
            for d in strings(alpha, n):
                yield {"src_buf": base, "delta": d}
    return gen(), f"all byte strings of length <= {n} over the opcode-covering alphabet {[hex(a) for a in alpha]} as deltas against bases {bases}"


@domain("ints_small")
def ints_small(tier):
    vals = list(range(0, 300)) + [2 ** k + d for k in (7, 8, 14, 15, 16, 21, 28, 31, 32, 35, 63, 64) for d in (-1, 0, 1)]
    return ({"size": v} for v in vals), "sizes 0..299 and 2^k-1,2^k,2^k+1 for k in {7,8,14,15,16,21,28,31,32,35,63,64}"


@domain("pkt_payloads")
def pkt_payloads(tier):
    lens = [0, 1, 2, 15, 16, 255, 4091, 4092, 65515, 65516, 65517, 65519, 65520, 65531, 65532, 70000]
    def gen():
        yield {"data": None}
        for n in lens:
            yield {"data": bytes([n % 251]) * n}
    return gen(), f"None and payloads of lengths {lens}"


@domain("len_prefixes")
def len_prefixes(tier):
    import itertools
    alpha = b"019afAF gG+-_x\x00\xff"
    def gen():
        for n in (0, 1, 2, 3, 5):
            for t in itertools.product(alpha[:6], repeat=n):
                yield {"sizestr": bytes(t)}
        for t in itertools.product(alpha, repeat=4):
            yield {"sizestr": bytes(t)}
    return gen(), f"all strings of length 4 over {alpha!r} plus lengths 0,1,2,3,5 over its first six symbols"

"""Bounded stand-in (C14): optional acceleration data never changes an answer.
For each small history (chains, merge, two roots, tag) x each subset of accelerators written at time T0
{commit-graph, multi-pack-index, pack bitmaps, packed-refs} x pack index version {1,2,3} x each way of going stale
afterwards {nothing, new loose commits, new commits in a second pack, full repack (old packs deleted), ref deleted +
unreachable objects pruned, foreign accelerator files copied in from another repository}: a fixed battery of queries
(object membership / content for every object ever created, iteration, parents, ancestor sets, merge bases,
reachable-object sets and the objects chosen for a transfer for several (haves, wants), ref values) is answered
identically by the repository WITH the (possibly stale) accelerator files and by a byte-copy of it from which they
were removed.  Never counted as proved."""
import itertools
import json
import os
import shutil
import sys
import tempfile
import time

HERE = os.path.dirname(os.path.dirname(os.path.abspath(__file__)))
sys.path.insert(0, HERE)

ACCEL = ("commit-graph", "midx", "bitmap", "packed-refs")


def main():
    tier = sys.argv[sys.argv.index("--tier") + 1] if "--tier" in sys.argv else "quick"
    repo_src = os.environ.get("VERIF_REPO", "/repo")
    from pyvc import native
    native.setup(repo_src)
    from dulwich import gc as G
    from dulwich.graph import find_merge_base
    from dulwich.object_store import MissingObjectFinder, _collect_ancestors
    from dulwich.objects import Blob, Commit, Tag, Tree
    from dulwich.repo import Repo
    t0 = time.time()
    cases = 0
    failures = []

    def fail(what, detail):
        if len(failures) < 10 and sum(1 for f in failures if f["what"] == what) < 3:
            failures.append({"what": what, "detail": detail})

    counter = [0]

    def commit(r, parents, name, t=None):
        counter[0] += 1
        b = Blob.from_string(b"content of " + name + b" %d\n" % counter[0])
        tr = Tree()
        tr.add(b"f", 0o100644, b.id)
        tr.add(name, 0o100644, b.id)
        c = Commit()
        c.tree = tr.id
        c.parents = list(parents)
        c.author = c.committer = b"a <a@b>"
        c.author_time = c.commit_time = 1700000000 + (t if t is not None else counter[0])
        c.author_timezone = c.commit_timezone = 0
        c.message = name
        for o in (b, tr, c):
            r.object_store.add_object(o)
        return c.id

    def history(r, shape):
        """returns dict name -> commit id, sets refs"""
        ids = {}
        if shape == "chain":
            ids["c1"] = commit(r, [], b"c1")
            ids["c2"] = commit(r, [ids["c1"]], b"c2")
            ids["c3"] = commit(r, [ids["c2"]], b"c3")
            r.refs[b"refs/heads/main"] = ids["c3"]
            r.refs[b"refs/heads/old"] = ids["c1"]
        elif shape == "merge":
            ids["c1"] = commit(r, [], b"c1")
            ids["a"] = commit(r, [ids["c1"]], b"a")
            ids["b"] = commit(r, [ids["c1"]], b"b")
            ids["m"] = commit(r, [ids["a"], ids["b"]], b"m")
            r.refs[b"refs/heads/main"] = ids["m"]
            r.refs[b"refs/heads/side"] = ids["b"]
        elif shape == "roots+tag":
            ids["r1"] = commit(r, [], b"r1")
            ids["r2"] = commit(r, [], b"r2")
            ids["j"] = commit(r, [ids["r1"], ids["r2"]], b"j")
            t = Tag()
            t.name = b"v1"
            t.object = (Commit, ids["r2"])
            t.tagger = b"a <a@b>"
            t.tag_time = 1700000000
            t.tag_timezone = 0
            t.message = b"tag\n"
            r.object_store.add_object(t)
            ids["tag"] = t.id
            r.refs[b"refs/heads/main"] = ids["j"]
            r.refs[b"refs/tags/v1"] = t.id
            r.refs[b"refs/heads/lonely"] = ids["r1"]
        r.refs.set_symbolic_ref(b"HEAD", b"refs/heads/main")
        return ids

    def write_accel(r, which, idx_version):
        st = r.object_store
        st.pack_index_version = idx_version
        st.pack_loose_objects()
        if "bitmap" in which:
            try:
                st.generate_pack_bitmaps({k: v for k, v in r.refs.as_dict().items() if k != b"HEAD"})
            except Exception as e:  # noqa: BLE001
                return f"generate_pack_bitmaps raised {e!r}"
        if "midx" in which:
            st.write_midx()
        if "commit-graph" in which:
            st.write_commit_graph()
        if "packed-refs" in which:
            r.refs.pack_refs(all=True)
        return None

    def go_stale(r, ids, how, other_dir):
        st = r.object_store
        new = {}
        if how == "new-loose":
            head = r.refs[b"refs/heads/main"]
            new["n1"] = commit(r, [head], b"n1")
            new["n2"] = commit(r, [new["n1"], ids[sorted(ids)[0]]] if not sorted(ids)[0] == "tag" else [new["n1"]], b"n2")
            r.refs[b"refs/heads/main"] = new["n2"]
        elif how == "new-pack":
            head = r.refs[b"refs/heads/main"]
            new["n1"] = commit(r, [head], b"n1")
            r.refs[b"refs/heads/main"] = new["n1"]
            r.refs[b"refs/heads/extra"] = new["n1"]
            st.pack_loose_objects()
        elif how == "repack":
            head = r.refs[b"refs/heads/main"]
            new["n1"] = commit(r, [head], b"n1")
            r.refs[b"refs/heads/main"] = new["n1"]
            st.repack()
        elif how == "delete-ref+prune":
            # move main back and drop everything that is no longer reachable
            first = ids[sorted(k for k in ids if k != "tag")[0]]
            r.refs[b"refs/heads/main"] = first
            for ref in list(r.refs.as_dict()):
                if ref not in (b"HEAD", b"refs/heads/main"):
                    del r.refs[ref]
            st.repack()
            G.garbage_collect(r, grace_period=0, auto=False) if hasattr(G, "garbage_collect") else None
        elif how == "foreign-files":
            # accelerator files of ANOTHER repository (different packs, different commits) dropped in
            for rel in ("objects/info/commit-graph", "objects/pack/multi-pack-index"):
                src = os.path.join(other_dir, ".git", rel)
                if os.path.exists(src):
                    os.makedirs(os.path.dirname(os.path.join(r.path, ".git", rel)), exist_ok=True)
                    shutil.copy(src, os.path.join(r.path, ".git", rel))
            for fn in os.listdir(os.path.join(other_dir, ".git", "objects", "pack")):
                if fn.endswith(".bitmap"):
                    mine = [p for p in os.listdir(os.path.join(r.path, ".git", "objects", "pack")) if p.endswith(".pack")]
                    if mine:
                        shutil.copy(os.path.join(other_dir, ".git", "objects", "pack", fn), os.path.join(r.path, ".git", "objects", "pack", mine[0][:-5] + ".bitmap"))
        return new

    def strip_accel(path):
        for rel in ("objects/info/commit-graph", "objects/pack/multi-pack-index"):
            p = os.path.join(path, ".git", rel)
            if os.path.exists(p):
                os.remove(p)
        pd = os.path.join(path, ".git", "objects", "pack")
        for fn in os.listdir(pd):
            if fn.endswith(".bitmap") or fn.endswith(".rev"):
                os.remove(os.path.join(pd, fn))

    def answers(path, universe, commits):
        """the query battery; every answer is a plain value or ('exc', class name)"""
        r = Repo(path)
        st = r.object_store
        out = {}

        def q(key, fn):
            try:
                v = fn()
            except Exception as e:  # noqa: BLE001
                v = ("exc", type(e).__name__)
            out[key] = v
        try:
            for name, sha in sorted(universe.items()):
                q(f"contains:{name}", lambda sha=sha: sha in st)
                q(f"raw:{name}", lambda sha=sha: st.get_raw(sha))
                q(f"contains_packed|loose:{name}", lambda sha=sha: bool(st.contains_packed(sha) or st.contains_loose(sha)))
            q("iter", lambda: sorted(st))
            q("refs", lambda: sorted(r.refs.as_dict().items()))
            live = [c for c in commits if out.get(f"contains:{c}") is True]
            pp = r.parents_provider()
            for c in live:
                q(f"parents:{c}", lambda c=c: list(pp.get_parents(universe[c])))
                q(f"ancestors:{c}", lambda c=c: sorted(_collect_ancestors(st, [universe[c]])[0]))
            for a, b in itertools.combinations(live, 2):
                q(f"merge_base:{a},{b}", lambda a=a, b=b: sorted(find_merge_base(r, [universe[a], universe[b]])))
                q(f"transfer:{a}->{b}", lambda a=a, b=b: sorted(x[0] if isinstance(x, tuple) else x for x in MissingObjectFinder(st, haves=[universe[a]], wants=[universe[b]])))
                q(f"ancestors_excl:{a}..{b}", lambda a=a, b=b: sorted(_collect_ancestors(st, [universe[b]], frozenset([universe[a]]))[0]))
            for c in live:
                q(f"reachable:{c}", lambda c=c: sorted(st.get_reachability_provider().get_reachable_objects([universe[c]])))
                q(f"transfer:0->{c}", lambda c=c: sorted(x[0] if isinstance(x, tuple) else x for x in MissingObjectFinder(st, haves=[], wants=[universe[c]])))
        finally:
            r.close()
        return out

    shapes = ["chain", "merge", "roots+tag"]
    subsets = [s for k in range(0, len(ACCEL) + 1) for s in itertools.combinations(ACCEL, k)]
    stale = ["nothing", "new-loose", "new-pack", "repack", "delete-ref+prune", "foreign-files"]
    if tier == "quick":
        subsets = [s for s in subsets if len(s) in (1, 4)]
    with tempfile.TemporaryDirectory() as d:
        # the "other" repository whose accelerator files are dropped in
        other = os.path.join(d, "other")
        os.mkdir(other)
        ro = Repo.init(other)
        history(ro, "merge")
        write_accel(ro, ACCEL, 2)
        ro.close()
        n = 0
        for shape in shapes:
            for which in subsets:
                for how in stale:
                    for idxv in ((2,) if tier == "quick" or how != "nothing" else (1, 2, 3)):
                        n += 1
                        cases += 1
                        p = os.path.join(d, f"r{n}")
                        os.mkdir(p)
                        r = Repo.init(p)
                        what = {"history": shape, "accelerators": list(which), "stale_by": how, "pack_index_version": idxv}
                        try:
                            ids = history(r, shape)
                            err = write_accel(r, which, idxv)
                            if err:
                                fail("writing an accelerator failed", dict(what, error=err[:200]))
                                continue
                            new = go_stale(r, ids, how, other)
                            universe = dict(ids, **new)
                            # every object of every commit as well
                            for k, c in list(universe.items()):
                                try:
                                    o = r.object_store[c]
                                except KeyError:
                                    continue
                                if isinstance(o, Commit):
                                    universe[k + ".tree"] = o.tree
                        finally:
                            r.close()
                        commits = [k for k in universe if "." not in k and k != "tag"]
                        bare = p + "_bare"
                        shutil.copytree(p, bare, symlinks=True)
                        strip_accel(bare)
                        a1 = answers(p, universe, commits)
                        a0 = answers(bare, universe, commits)
                        diff = [k for k in a0 if a0[k] != a1.get(k)]
                        if diff:
                            k = diff[0]
                            fail("an answer changes with (stale) acceleration data present", dict(what, query=k, without=repr(a0[k])[:200], with_files=repr(a1.get(k))[:200], differing_queries=len(diff)))
                        shutil.rmtree(p, ignore_errors=True)
                        shutil.rmtree(bare, ignore_errors=True)
    print(json.dumps({"name": "c14_accel", "function": "dulwich/object_store.py (midx, commit-graph, bitmaps), commit_graph.py, midx.py, bitmap.py, refs.py packed-refs", "cases": cases,
                      "exhaustive": True, "bound": f"{len(shapes)} histories x {len(subsets)} accelerator subsets x {len(stale)} staleness patterns"
                      + (" x pack index versions 1,2,3 when fresh" if tier == "thorough" else " (subsets of size 1 and 4)") + "; ~40-120 queries per repository compared with an accelerator-free byte copy",
                      "failures": failures, "secs": round(time.time() - t0, 2)}))


if __name__ == "__main__":
    main()

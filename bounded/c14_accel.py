"""Bounded stand-in (C14): optional acceleration data never changes an answer.
For each small history (chains, merge, two roots, tag) x each subset of accelerators written at time T0
{commit-graph, multi-pack-index, pack bitmaps, packed-refs} x pack index version {1,2,3} x each way of going stale
afterwards {nothing, new loose commits, new commits in a second pack, full repack (old packs deleted), ref deleted +
unreachable objects pruned, foreign accelerator files copied in from another repository}: a fixed battery of queries
(object membership / content for every object ever created, iteration, parents, ancestor sets, merge bases,
reachable-object sets and the objects chosen for a transfer for several (haves, wants), ref values) is answered
identically by the repository WITH the (possibly stale) accelerator files and by a byte-copy of it from which they
were removed.  Never counted as proved."""
import itertools
import json
import os
import shutil
import sys
import tempfile
import time

HERE = os.path.dirname(os.path.dirname(os.path.abspath(__file__)))
sys.path.insert(0, HERE)

ACCEL = ("commit-graph", "midx", "bitmap", "packed-refs")


def main():
    tier = sys.argv[sys.argv.index("--tier") + 1] if "--tier" in sys.argv else "quick"
    repo_src = os.environ.get("VERIF_REPO", "/repo")
    from pyvc import native
    native.setup(repo_src)
    from dulwich import gc as G
    from dulwich.graph import find_merge_base
    from dulwich.object_store import MissingObjectFinder, _collect_ancestors
    from dulwich.objects import Blob, Commit, Tag, Tree
    from dulwich.repo import Repo
    t0 = time.time()
    cases = 0
    failures = []

    def fail(what, detail):
        if len(failures) < 40 and sum(1 for f in failures if f["what"] == what) < 3:
            failures.append({"what": what, "detail": detail})

    counter = [0]

    def commit(r, parents, name, t=None):
        counter[0] += 1
        b = Blob.from_string(b"content of " + name + b" %d\n" % counter[0])
        tr = Tree()
        tr.add(b"f", 0o100644, b.id)
        tr.add(name, 0o100644, b.id)
        c = Commit()
        c.tree = tr.id
        c.parents = list(parents)
        c.author = c.committer = b"a <a@b>"
        c.author_time = c.commit_time = 1700000000 + (t if t is not None else counter[0])
        c.author_timezone = c.commit_timezone = 0
        c.message = name
        for o in (b, tr, c):
            r.object_store.add_object(o)
        return c.id

    def history(r, shape):
        """returns dict name -> commit id, sets refs"""
        ids = {}
        if shape == "chain":
            ids["c1"] = commit(r, [], b"c1")
            ids["c2"] = commit(r, [ids["c1"]], b"c2")
            ids["c3"] = commit(r, [ids["c2"]], b"c3")
            r.refs[b"refs/heads/main"] = ids["c3"]
            r.refs[b"refs/heads/old"] = ids["c1"]
        elif shape == "merge":
            ids["c1"] = commit(r, [], b"c1")
            ids["a"] = commit(r, [ids["c1"]], b"a")
            ids["b"] = commit(r, [ids["c1"]], b"b")
            ids["m"] = commit(r, [ids["a"], ids["b"]], b"m")
            r.refs[b"refs/heads/main"] = ids["m"]
            r.refs[b"refs/heads/side"] = ids["b"]
        elif shape == "roots+tag":
            ids["r1"] = commit(r, [], b"r1")
            ids["r2"] = commit(r, [], b"r2")
            ids["j"] = commit(r, [ids["r1"], ids["r2"]], b"j")
            t = Tag()
            t.name = b"v1"
            t.object = (Commit, ids["r2"])
            t.tagger = b"a <a@b>"
            t.tag_time = 1700000000
            t.tag_timezone = 0
            t.message = b"tag\n"
            r.object_store.add_object(t)
            ids["tag"] = t.id
            r.refs[b"refs/heads/main"] = ids["j"]
            r.refs[b"refs/tags/v1"] = t.id
            r.refs[b"refs/heads/lonely"] = ids["r1"]
        elif shape == "octopus":
            ids["c1"] = commit(r, [], b"c1")
            for i in (1, 2, 3, 4):
                ids[f"t{i}"] = commit(r, [ids["c1"]], b"t%d" % i)
            ids["o"] = commit(r, [ids["t1"], ids["t2"], ids["t3"], ids["t4"]], b"octopus")
            ids["top"] = commit(r, [ids["o"]], b"top")
            r.refs[b"refs/heads/main"] = ids["top"]
            r.refs[b"refs/heads/t1"] = ids["t1"]
        r.refs.set_symbolic_ref(b"HEAD", b"refs/heads/main")
        return ids

    def write_accel(r, which, idx_version):
        st = r.object_store
        st.pack_index_version = idx_version
        st.pack_loose_objects()
        if "bitmap" in which:
            try:
                st.generate_pack_bitmaps({k: v for k, v in r.refs.as_dict().items() if k != b"HEAD"})
            except Exception as e:  # noqa: BLE001
                return f"generate_pack_bitmaps raised {e!r}"
        if "midx" in which:
            st.write_midx()
        if "commit-graph" in which:
            st.write_commit_graph()
        if "commit-graph(reachable=False)" in which:
            # the documented tips-only variant: a graph that is not closed under parents
            st.write_commit_graph([v for k, v in sorted(r.refs.as_dict().items()) if k.startswith(b"refs/heads/")], reachable=False)
        if "packed-refs" in which:
            r.refs.pack_refs(all=True)
        return None

    def go_stale(r, ids, how, other_dir):
        st = r.object_store
        new = {}
        if how == "new-loose":
            head = r.refs[b"refs/heads/main"]
            new["n1"] = commit(r, [head], b"n1")
            new["n2"] = commit(r, [new["n1"], ids[sorted(ids)[0]]] if not sorted(ids)[0] == "tag" else [new["n1"]], b"n2")
            r.refs[b"refs/heads/main"] = new["n2"]
        elif how == "new-pack":
            head = r.refs[b"refs/heads/main"]
            new["n1"] = commit(r, [head], b"n1")
            r.refs[b"refs/heads/main"] = new["n1"]
            r.refs[b"refs/heads/extra"] = new["n1"]
            st.pack_loose_objects()
        elif how == "repack":
            head = r.refs[b"refs/heads/main"]
            new["n1"] = commit(r, [head], b"n1")
            r.refs[b"refs/heads/main"] = new["n1"]
            st.repack()
        elif how == "delete-ref+prune":
            # move main back and drop everything that is no longer reachable
            first = ids[sorted(k for k in ids if k != "tag")[0]]
            r.refs[b"refs/heads/main"] = first
            for ref in list(r.refs.as_dict()):
                if ref not in (b"HEAD", b"refs/heads/main"):
                    del r.refs[ref]
            st.repack()
            G.garbage_collect(r, grace_period=0, auto=False) if hasattr(G, "garbage_collect") else None
        elif how == "rewrite-same-name":
            # every pack rewritten with the same objects (hence the same name) but another layout: reversed order, no deltas,
            # no compression - what another core.compression / window setting or a pack copied from another clone gives
            from dulwich.pack import write_pack
            for p_ in list(st.packs):
                base = p_._basename
                objs = [(o, None) for o in p_.iterobjects()]
                objs.reverse()
                p_.close()
                for ext in (".pack", ".idx"):
                    os.chmod(base + ext, 0o644)
                write_pack(base, objs, r.object_format if hasattr(r, "object_format") else st.object_format, deltify=False, compression_level=0)
        elif how == "graft":
            # info/grafts: the tip's parents are replaced by the oldest commit (grafts win over the commit objects and over any accelerator)
            tip = r.refs[b"refs/heads/main"]
            first = ids[sorted(k for k in ids if k != "tag")[0]]
            if tip != first:
                os.makedirs(os.path.join(r.path, ".git", "info"), exist_ok=True)
                with open(os.path.join(r.path, ".git", "info", "grafts"), "wb") as gf:
                    gf.write(tip + b" " + first + b"\n")
        elif how == "shallow":
            # .git/shallow names the tip although its parents are present: they are cut off all the same
            with open(os.path.join(r.path, ".git", "shallow"), "wb") as sf:
                sf.write(r.refs[b"refs/heads/main"] + b"\n")
        elif how == "foreign-files":
            # accelerator files of ANOTHER repository (different packs, different commits) dropped in
            for rel in ("objects/info/commit-graph", "objects/pack/multi-pack-index"):
                src = os.path.join(other_dir, ".git", rel)
                if os.path.exists(src):
                    os.makedirs(os.path.dirname(os.path.join(r.path, ".git", rel)), exist_ok=True)
                    shutil.copy(src, os.path.join(r.path, ".git", rel))
            for fn in os.listdir(os.path.join(other_dir, ".git", "objects", "pack")):
                if fn.endswith(".bitmap"):
                    mine = [p for p in os.listdir(os.path.join(r.path, ".git", "objects", "pack")) if p.endswith(".pack")]
                    if mine:
                        shutil.copy(os.path.join(other_dir, ".git", "objects", "pack", fn), os.path.join(r.path, ".git", "objects", "pack", mine[0][:-5] + ".bitmap"))
        return new

    def strip_accel(path):
        for rel in ("objects/info/commit-graph", "objects/pack/multi-pack-index"):
            p = os.path.join(path, ".git", rel)
            if os.path.exists(p):
                os.remove(p)
        shutil.rmtree(os.path.join(path, ".git", "objects", "info", "commit-graphs"), ignore_errors=True)
        pd = os.path.join(path, ".git", "objects", "pack")
        for fn in os.listdir(pd):
            if fn.endswith(".bitmap") or fn.endswith(".rev"):
                os.remove(os.path.join(pd, fn))

    def answers(path, universe, commits, repo=None):
        """the query battery; every answer is a plain value or ('exc', class name)
        (repo: answer with THIS long-lived Repo object - the one that wrote the accelerators - instead of a fresh one)"""
        r = Repo(path) if repo is None else repo
        st = r.object_store
        out = {}

        def q(key, fn):
            try:
                v = fn()
            except Exception as e:  # noqa: BLE001
                v = ("exc", type(e).__name__)
            out[key] = v
        try:
            for name, sha in sorted(universe.items()):
                q(f"contains:{name}", lambda sha=sha: sha in st)
                q(f"raw:{name}", lambda sha=sha: st.get_raw(sha))
                q(f"contains_packed|loose:{name}", lambda sha=sha: bool(st.contains_packed(sha) or st.contains_loose(sha)))
            q("iter", lambda: sorted(st))
            q("refs", lambda: sorted(r.refs.as_dict().items()))
            q("peeled", lambda: sorted((k, r.get_peeled(k)) for k in r.refs.as_dict() if k != b"HEAD"))
            live = [c for c in commits if out.get(f"contains:{c}") is True]
            pp = r.parents_provider()
            for c in live:
                q(f"parents:{c}", lambda c=c: list(pp.get_parents(universe[c])))
                q(f"ancestors:{c}", lambda c=c: sorted(_collect_ancestors(st, [universe[c]])[0]))
            for a, b in itertools.combinations(live, 2):
                q(f"merge_base:{a},{b}", lambda a=a, b=b: sorted(find_merge_base(r, [universe[a], universe[b]])))
                q(f"transfer:{a}->{b}", lambda a=a, b=b: sorted(x[0] if isinstance(x, tuple) else x for x in MissingObjectFinder(st, haves=[universe[a]], wants=[universe[b]])))
                q(f"ancestors_excl:{a}..{b}", lambda a=a, b=b: sorted(_collect_ancestors(st, [universe[b]], frozenset([universe[a]]))[0]))
            for c in live:
                q(f"reachable:{c}", lambda c=c: sorted(st.get_reachability_provider().get_reachable_objects([universe[c]])))
                q(f"transfer:0->{c}", lambda c=c: sorted(x[0] if isinstance(x, tuple) else x for x in MissingObjectFinder(st, haves=[], wants=[universe[c]])))
        finally:
            if repo is None:
                r.close()
        return out

    shapes = ["chain", "merge", "roots+tag", "octopus"]
    subsets = [s for k in range(0, len(ACCEL) + 1) for s in itertools.combinations(ACCEL, k)]
    stale = ["nothing", "new-loose", "new-pack", "repack", "delete-ref+prune", "foreign-files", "rewrite-same-name", "graft", "shallow"]
    if tier == "quick":
        subsets = [s for s in subsets if len(s) in (1, 4)]
    subsets.append(("commit-graph(reachable=False)",))
    with tempfile.TemporaryDirectory() as d:
        # the "other" repository whose accelerator files are dropped in
        other = os.path.join(d, "other")
        os.mkdir(other)
        ro = Repo.init(other)
        history(ro, "merge")
        write_accel(ro, ACCEL, 2)
        ro.close()
        n = 0
        for shape in shapes:
            for which in subsets:
                for how in stale:
                    for idxv in ((2,) if tier == "quick" or how != "nothing" else (1, 2, 3)):
                        n += 1
                        cases += 1
                        p = os.path.join(d, f"r{n}")
                        os.mkdir(p)
                        r = Repo.init(p)
                        what = {"history": shape, "accelerators": list(which), "stale_by": how, "pack_index_version": idxv}
                        try:
                            ids = history(r, shape)
                            err = write_accel(r, which, idxv)
                            if err:
                                fail("writing an accelerator failed", dict(what, error=err[:200]))
                                continue
                            new = go_stale(r, ids, how, other)
                            universe = dict(ids, **new)
                            # every object of every commit as well
                            for k, c in list(universe.items()):
                                try:
                                    o = r.object_store[c]
                                except KeyError:
                                    continue
                                except Exception as e:  # noqa: BLE001
                                    fail("reading an object raises with (stale) acceleration data present", dict(what, object=k, exc=repr(e)[:200]))
                                    continue
                                if isinstance(o, Commit):
                                    universe[k + ".tree"] = o.tree
                            # the process that WROTE the accelerators keeps using them in memory (bitmaps are only consulted there)
                            a_live = answers(p, universe, [k for k in universe if "." not in k and k != "tag"], repo=r)
                        finally:
                            r.close()
                        commits = [k for k in universe if "." not in k and k != "tag"]
                        bare = p + "_bare"
                        shutil.copytree(p, bare, symlinks=True)
                        strip_accel(bare)
                        a1 = answers(p, universe, commits)
                        a0 = answers(bare, universe, commits)
                        # (a live Repo object does not re-read info/grafts or shallow written behind its back: not compared)
                        diff_live = [k for k in a0 if a0[k] != a_live.get(k)] if how not in ("graft", "shallow") else []
                        if diff_live and all(k.startswith("reachable:") for k in diff_live) and "bitmap" in which:
                            # own label (known finding): the two ObjectReachabilityProvider implementations disagree on what
                            # get_reachable_objects means; every other in-process difference is still a violation
                            fail("get_reachable_objects of the bitmap provider differs from the graph-walk provider (in the generating process)", dict(what, query=diff_live[0], without=repr(a0[diff_live[0]])[:200], in_process=repr(a_live.get(diff_live[0]))[:200]))
                        elif diff_live and which != ("commit-graph(reachable=False)",):
                            k = diff_live[0]
                            fail("an answer of the process that wrote the acceleration data differs from the accelerator-free answer", dict(what, query=k, without=repr(a0[k])[:200], in_process=repr(a_live.get(k))[:200], differing_queries=len(diff_live)))
                        diff = [k for k in a0 if a0[k] != a1.get(k)]
                        if diff:
                            k = diff[0]
                            fail("an answer changes with a tips-only commit-graph (write_commit_graph(reachable=False)) present" if which == ("commit-graph(reachable=False)",)
                                 else "an answer changes with (stale) acceleration data present", dict(what, query=k, without=repr(a0[k])[:200], with_files=repr(a1.get(k))[:200], differing_queries=len(diff)))
                        shutil.rmtree(p, ignore_errors=True)
                        shutil.rmtree(bare, ignore_errors=True)
        # ---- accelerators written by C git: a split commit-graph chain (two layers), a git-written midx and bitmap
        import subprocess
        for shape in shapes:
            cases += 1
            p = os.path.join(d, f"git_{shape}")
            os.mkdir(p)
            r = Repo.init(p)
            what = {"history": shape, "accelerators": ["C git: commit-graph --split (2 layers), multi-pack-index, repack -b"], "stale_by": "new commits between the layers and after"}
            try:
                ids = history(r, shape)
                r.object_store.pack_loose_objects()
                r.close()
                ok = subprocess.run(["git", "-C", p, "commit-graph", "write", "--reachable", "--split"], capture_output=True).returncode == 0
                r = Repo(p)
                new = go_stale(r, ids, "new-pack", other)
                r.close()
                ok = ok and subprocess.run(["git", "-C", p, "commit-graph", "write", "--reachable", "--split=no-merge"], capture_output=True).returncode == 0
                ok = ok and subprocess.run(["git", "-C", p, "multi-pack-index", "write"], capture_output=True).returncode == 0
                r = Repo(p)
                new.update(go_stale(r, dict(ids, **new), "new-loose", other))
                universe = dict(ids, **new)
                r.close()
                if not ok:
                    fail("C git could not write its accelerators (harness)", what)
                    continue
                commits = [k for k in universe if "." not in k and k != "tag"]
                bare = p + "_bare"
                shutil.copytree(p, bare, symlinks=True)
                strip_accel(bare)
                a1 = answers(p, universe, commits)
                a0 = answers(bare, universe, commits)
                diff = [k for k in a0 if a0[k] != a1.get(k)]
                if diff:
                    fail("an answer changes with C git-written acceleration data present", dict(what, query=diff[0], without=repr(a0[diff[0]])[:200], with_files=repr(a1.get(diff[0]))[:200], differing_queries=len(diff)))
            except Exception as e:  # noqa: BLE001
                fail("C git accelerator scenario raised", dict(what, exc=repr(e)[:200]))
        # ---- bitmaps over several packs, in the generating process: one pack per commit (no pack is closed under reachability)
        for shape in shapes:
            cases += 1
            p = os.path.join(d, f"multi_{shape}")
            os.mkdir(p)
            r = Repo.init(p)
            try:
                real_add = r.object_store.add_object
                # every commit of the history goes into a pack of its own (objects are packed as soon as a commit is added)

                def add_and_pack(o, real_add=real_add, st_=r.object_store):
                    real_add(o)
                    if isinstance(o, Commit):
                        st_.pack_loose_objects()
                r.object_store.add_object = add_and_pack
                ids = history(r, shape)
                del r.object_store.add_object
                universe = dict(ids)
                commits = [k for k in universe if k != "tag"]
                bare = p + "_bare"
                shutil.copytree(p, bare, symlinks=True)
                r.object_store.generate_pack_bitmaps({k: v for k, v in r.refs.as_dict().items() if k != b"HEAD"})
                a_live = answers(p, universe, commits, repo=r)
                a0 = answers(bare, universe, commits)
                diff_live = [k for k in a0 if a0[k] != a_live.get(k) and not k.startswith("reachable:")]
                if diff_live:
                    fail("an answer of the process that wrote bitmaps over several packs differs from the accelerator-free answer", {"history": shape, "query": diff_live[0], "without": repr(a0[diff_live[0]])[:200], "in_process": repr(a_live.get(diff_live[0]))[:200], "differing_queries": len(diff_live)})
                shutil.rmtree(bare, ignore_errors=True)
            except Exception as e:  # noqa: BLE001
                fail("multi-pack bitmap scenario raised", {"history": shape, "exc": repr(e)[:200]})
            finally:
                r.close()
        # ---- packed-refs cache of a long-lived reader: another writer replaces packed-refs by a file of the SAME size and the SAME
        #      mtime (a ref moved to another id, mtime forced): the reader must notice (inode / ctime differ) and answer like a fresh one
        for shape in shapes:
            cases += 1
            p = os.path.join(d, f"cache_{shape}")
            os.mkdir(p)
            r = Repo.init(p)
            try:
                ids = history(r, shape)
                r.refs.pack_refs(all=True)
                names = sorted(k for k in r.refs.as_dict() if k.startswith(b"refs/heads/"))
                reader = Repo(p)
                before = dict(reader.refs.as_dict())                  # cache populated
                pr = os.path.join(p, ".git", "packed-refs")
                stt = os.stat(pr)
                vals = sorted(set(ids.values()))
                moved = names[0]
                newval = [v for v in vals if v != before[moved]][0]
                writer = Repo(p)
                writer.refs.add_packed_refs({moved: newval})
                writer.close()
                os.utime(pr, ns=(stt.st_atime_ns, stt.st_mtime_ns))
                fresh = Repo(p)
                want = dict(fresh.refs.as_dict())
                fresh.close()
                got = dict(reader.refs.as_dict())
                reader.close()
                if os.stat(pr).st_size == stt.st_size and (got != want or want.get(moved) != newval):
                    fail("a long-lived reader answers from a stale packed-refs cache", {"history": shape, "ref": moved.decode(), "reader": got.get(moved, b"").decode(), "fresh": want.get(moved, b"").decode()})
            except Exception as e:  # noqa: BLE001
                fail("packed-refs cache scenario raised", {"history": shape, "exc": repr(e)[:200]})
            finally:
                r.close()
        # ---- packed-refs: the same ref operations on a repository whose refs were packed first and on a byte copy that never packed
        for shape in shapes:
            base = os.path.join(d, f"refs_{shape}")
            os.mkdir(base)
            r = Repo.init(base)
            ids = history(r, shape)
            extra = commit(r, [r.refs[b"refs/heads/main"]], b"extra")
            r.close()
            refnames = [k for k in Repo(base).refs.as_dict() if k != b"HEAD"]
            ops_all = []
            for nm in refnames[:3]:
                ops_all += [("set", nm, extra), ("del", nm), ("set+del", nm, extra), ("set+del+add", nm, extra)]
            ops_all += [("add", b"refs/heads/brand-new", extra)]
            for op in ops_all:
                cases += 1
                pa, pb = base + "_packed", base + "_loose"
                for q_ in (pa, pb):
                    shutil.rmtree(q_, ignore_errors=True)
                    shutil.copytree(base, q_, symlinks=True)
                ra, rb = Repo(pa), Repo(pb)
                try:
                    ra.refs.pack_refs(all=True)
                    for rr in (ra, rb):
                        if op[0].startswith("set"):
                            rr.refs[op[1]] = op[2]
                        if "del" in op[0]:
                            del rr.refs[op[1]]
                        if op[0].endswith("add"):
                            rr.refs.add_if_new(op[1], op[2])
                        if op[0] == "add":
                            rr.refs.add_if_new(op[1], op[2])
                    outs = []
                    for q_ in (pa, pb):
                        fresh = Repo(q_)
                        outs.append((sorted(fresh.refs.as_dict().items()), sorted((k, fresh.get_peeled(k)) for k in fresh.refs.as_dict() if k != b"HEAD")))
                        fresh.close()
                    if outs[0][0] == outs[1][0] and outs[0][1] != outs[1][1]:
                        # same ref values, different PEELED values: the known finding (packed-refs written with a "peeled" header but
                        # without "^" lines); kept under its own label so that any difference in ref values is still reported
                        if not any(f["what"].startswith("peeled value of a tag ref") for f in failures):
                            fail("peeled value of a tag ref differs once refs are packed (get_peeled)", {"history": shape, "operation": [op[0], op[1].decode()],
                                                                                                         "packed": repr([x for x in outs[0][1] if x not in outs[1][1]])[:200], "never_packed": repr([x for x in outs[1][1] if x not in outs[0][1]])[:200]})
                    elif outs[0] != outs[1]:
                        fail("ref values differ between a repository with packed refs and one that never packed", {"history": shape, "operation": [op[0], op[1].decode()],
                                                                                                                   "packed": repr(outs[0])[:300], "never_packed": repr(outs[1])[:300]})
                finally:
                    ra.close()
                    rb.close()
    print(json.dumps({"name": "c14_accel", "function": "dulwich/object_store.py (midx, commit-graph, bitmaps), commit_graph.py, midx.py, bitmap.py, refs.py packed-refs", "cases": cases,
                      "exhaustive": True, "bound": f"{len(shapes)} histories x {len(subsets)} accelerator subsets x {len(stale)} staleness patterns"
                      + (" x pack index versions 1,2,3 when fresh" if tier == "thorough" else " (subsets of size 1 and 4)") + "; ~40-120 queries per repository compared with an accelerator-free byte copy; C git-written split commit-graph chain + midx per history; ref operation sequences on packed vs never-packed copies",
                      "failures": failures, "secs": round(time.time() - t0, 2)}))


if __name__ == "__main__":
    main()

"""Bounded stand-in (C09), process-crash model: every operation of a small catalogue is run in a forked child that dies with
os._exit right AFTER its k-th file-system call (os.rename / replace / remove / unlink / rmdir / mkdir / utime / fsync / link /
truncate, patched in the child), for every k; buffered data of the child is lost, completed system calls survive.  The parent
then re-opens the repository from disk and checks: it opens; every ref holds its old or its new value and names an object that
is present, readable and hashes to its name; every object readable before is still readable; no loose object file is empty or
unparsable.  Power-loss variant (core.fsyncObjectFiles = true): a file renamed / replaced into place whose inode was never fsynced is
zero-length after the crash; other forms of power loss (partial writes, directory entries) are not modelled.  Never counted as proved."""
import json
import os
import sys
import tempfile
import time

HERE = os.path.dirname(os.path.dirname(os.path.abspath(__file__)))
sys.path.insert(0, HERE)

PATCHED = ["rename", "replace", "remove", "unlink", "rmdir", "mkdir", "utime", "fsync", "link", "truncate", "symlink"]


def main():
    tier = sys.argv[sys.argv.index("--tier") + 1] if "--tier" in sys.argv else "quick"
    repo = os.environ.get("VERIF_REPO", "/repo")
    from pyvc import native
    native.setup(repo)
    from dulwich import porcelain
    from dulwich.objects import Blob, Commit, Tree
    from dulwich.repo import Repo
    t0 = time.time()
    cases = 0
    failures = []

    def fail(what, detail):
        if len(failures) < 20 and sum(1 for f in failures if f["what"] == what) < 3:
            failures.append({"what": what, "detail": detail})

    def mk(store, msg, parents=()):
        b = Blob.from_string(b"content " + msg)
        t = Tree()
        t.add(b"f", 0o100644, b.id)
        c = Commit()
        c.tree = t.id
        c.parents = list(parents)
        c.author = c.committer = b"a <a@b>"
        c.author_time = c.commit_time = 1700000000
        c.author_timezone = c.commit_timezone = 0
        c.message = msg
        for o in (b, t, c):
            store.add_object(o)
        return c.id

    def setup(path, packed):
        r = Repo.init(path, mkdir=True)
        c1 = mk(r.object_store, b"c1")
        c2 = mk(r.object_store, b"c2", [c1])
        r.refs[b"refs/heads/main"] = c2
        r.refs[b"refs/heads/topic"] = c1
        r.refs[b"refs/tags/t"] = c1
        if packed:
            r.object_store.pack_loose_objects()
            r.refs.pack_refs(all=True)
            r.refs[b"refs/heads/topic"] = c2          # loose value over a packed one
        r.close()

    M, T = b"refs/heads/main", b"refs/heads/topic"

    def op_commit(r):
        open(os.path.join(r.path, "newfile"), "wb").write(b"small\n")
        porcelain.add(r, [os.path.join(r.path, "newfile")])
        porcelain.commit(r, message=b"c3", author=b"a <a@b>", committer=b"a <a@b>", author_timestamp=1700000005, commit_timestamp=1700000005,
                         author_timezone=0, commit_timezone=0)

    def op_add_objects(r):
        for i in range(3):
            r.object_store.add_object(Blob.from_string(b"tiny %d" % i))

    def op_delete_topic(r):
        r.refs.remove_if_equals(T, r.refs[T])

    def op_set_main(r):
        r.refs.set_if_equals(M, r.refs[M], r.refs[b"refs/tags/t"])

    def op_pack_refs(r):
        r.refs.pack_refs(all=True)

    def op_pack_loose(r):
        r.object_store.pack_loose_objects()

    def op_repack(r):
        r.object_store.repack()

    def op_gc(r):
        from dulwich import gc as G
        G.garbage_collect(r, grace_period=0)

    def op_symref(r):
        r.refs.set_symbolic_ref(b"HEAD", T)
    OPS = [op_commit, op_add_objects, op_delete_topic, op_set_main, op_pack_refs, op_pack_loose, op_repack, op_gc, op_symref]

    def snapshot(path):
        r = Repo(path)
        try:
            refs = {k: v for k, v in r.refs.as_dict().items()}
            objs = {sha: r.object_store.get_raw(sha) for sha in r.object_store}
            return refs, objs
        finally:
            r.close()

    def run_child(path, op, k, power=False):
        """returns the number of patched calls made if the child survived (k too large), else None.
        power=True: power-loss variant - a file that was renamed / replaced into place although its inode had never been fsynced
        loses its content (zero length) at the moment of the crash"""
        rd, wr = os.pipe()
        pid = os.fork()
        if pid == 0:
            try:
                os.close(rd)
                count = [0]
                synced, unsynced_published = set(), []
                real_stat, real_fstat, real_truncate = os.stat, os.fstat, os.truncate
                for name in PATCHED:
                    real = getattr(os, name)

                    def wrapped(*a, _real=real, _name=name, **kw):
                        if power and _name == "fsync":
                            try:
                                synced.add(real_fstat(a[0]).st_ino)
                            except OSError:
                                pass
                        ino = None
                        if power and _name in ("rename", "replace"):
                            try:
                                ino = real_stat(a[0]).st_ino
                            except OSError:
                                ino = None
                        res = _real(*a, **kw)
                        if ino is not None and ino not in synced:
                            unsynced_published.append(a[1])
                        count[0] += 1
                        if count[0] == k:
                            for dst_ in unsynced_published:      # power loss: data that was never synced is gone
                                try:
                                    real_truncate(dst_, 0)
                                except OSError:
                                    pass
                            os._exit(17)                 # dies right after the k-th call: Python-level buffers are lost
                        return res
                    setattr(os, name, wrapped)
                r = Repo(path)
                try:
                    op(r)
                except BaseException:  # noqa: BLE001
                    pass
                try:
                    r.close()
                except BaseException:  # noqa: BLE001
                    pass
                os.write(wr, str(count[0]).encode())
            finally:
                os._exit(0)
        os.close(wr)
        data = b""
        while True:
            chunk = os.read(rd, 64)
            if not chunk:
                break
            data += chunk
        os.close(rd)
        _, status = os.waitpid(pid, 0)
        if os.WIFEXITED(status) and os.WEXITSTATUS(status) == 17:
            return None
        return int(data or b"0")

    import shutil
    with tempfile.TemporaryDirectory() as d:
        for packed in (False, True):
            for op in OPS:
                base = os.path.join(d, f"base_{int(packed)}_{op.__name__}")
                setup(base, packed)
                refs0, objs0 = snapshot(base)
                _r = Repo(base)
                idx0 = sorted(_r.open_index())
                _r.close()
                # the uninterrupted run defines the new values
                done = os.path.join(d, "done")
                shutil.copytree(base, done, symlinks=True)
                total = run_child(done, op, 10 ** 9)
                refs1, _objs1 = snapshot(done)
                _r = Repo(done)
                idx1 = sorted(_r.open_index())
                _r.close()
                shutil.rmtree(done)
                # (with fsync enabled the operation makes more calls: a margin on top of the uninterrupted count; a k beyond the end is a no-op)
                for k, power in [(k_, pw) for pw in (False, True) for k_ in range(1, (total or 0) + 1 + (14 if pw else 0))]:
                    cases += 1
                    work = os.path.join(d, "work")
                    shutil.copytree(base, work, symlinks=True)
                    what = {"operation": op.__name__[3:], "start": "packed" if packed else "loose", "crash_after_call": k, "of": total, "model": "power loss (core.fsyncObjectFiles=true)" if power else "process crash"}
                    try:
                        if power:
                            with open(os.path.join(work, ".git", "config"), "ab") as cf:
                                cf.write(b"[core]\n\tfsyncObjectFiles = true\n[index]\n\tskipHash = true\n")
                        run_child(work, op, k, power)
                        try:
                            r = Repo(work)
                        except Exception as e:  # noqa: BLE001
                            fail("the repository does not re-open after the crash", dict(what, exc=repr(e)[:200]))
                            continue
                        try:
                            st = r.object_store
                            try:
                                refs = dict(r.refs.as_dict())
                            except Exception as e:  # noqa: BLE001
                                fail("refs cannot be listed after the crash", dict(what, exc=repr(e)[:200]))
                                refs = {}
                            for name in set(refs0) | set(refs1) | set(refs):
                                v = refs.get(name)
                                if v != refs0.get(name) and v != refs1.get(name):
                                    fail("after the crash a ref holds neither its old nor its new value", dict(what, ref=name.decode(), value=(v or b"<absent>").decode(), old=(refs0.get(name) or b"<absent>").decode(), new=(refs1.get(name) or b"<absent>").decode()))
                                if v is not None:
                                    try:
                                        o = r[v]
                                        o.check()
                                    except Exception as e:  # noqa: BLE001
                                        fail("after the crash a ref names an object that is missing or unreadable", dict(what, ref=name.decode(), exc=repr(e)[:150]))
                            try:
                                idx_paths = sorted(r.open_index())
                                if idx_paths != idx0 and idx_paths != idx1:
                                    fail("after the crash the index lists neither its old nor its new paths", dict(what, paths=[p_.decode("latin-1") for p_ in idx_paths][:5]))
                            except Exception as e:  # noqa: BLE001
                                fail("the index cannot be read after the crash", dict(what, exc=repr(e)[:150]))
                            for sha, raw in objs0.items():
                                try:
                                    if st.get_raw(sha) != raw:
                                        fail("an object changed content across the crash", dict(what, obj=sha.decode()[:10]))
                                except Exception as e:  # noqa: BLE001
                                    fail("an object that was readable before the crash is not readable after it", dict(what, obj=sha.decode()[:10], exc=repr(e)[:150]))
                            for sha in list(st):
                                try:
                                    st.get_raw(sha)
                                except Exception as e:  # noqa: BLE001
                                    fail("the store lists an object it cannot read (half-written file taken for valid data)", dict(what, obj=sha.decode()[:12], exc=repr(e)[:150]))
                        finally:
                            r.close()
                    except Exception as e:  # noqa: BLE001
                        fail("crash scenario raised (harness)", dict(what, exc=repr(e)[:200]))
                    finally:
                        shutil.rmtree(work, ignore_errors=True)
                shutil.rmtree(base, ignore_errors=True)
    print(json.dumps({"name": "c09_crash", "function": "dulwich object store / refs / index / gc writers (process-crash model)", "cases": cases, "exhaustive": True,
                      "bound": f"{len(OPS)} operations (commit, add objects, delete / set / pack refs, pack loose objects, repack, gc, set HEAD) x loose / packed starting state x a crash right after "
                               f"each of the operation's calls of os.{{{', '.join(PATCHED)}}}; process-crash model (completed calls survive, buffered data is lost) and a power-loss variant with core.fsyncObjectFiles = true, index.skipHash = true (a file renamed into place without its inode ever having been fsynced is empty after the crash)",
                      "failures": failures, "secs": round(time.time() - t0, 2)}))


if __name__ == "__main__":
    main()

"""Bounded stand-in (C19): framing round trips on the real classes over finite domains.
 (a) write_sideband -> read_pkt_line demultiplex, payload sizes around the frame limits, 3 channels;
 (b) PktLineParser under ALL partitions of short encoded streams;
 (c) ReceivableProtocol.read/recv under all chunkings of short wires and mixed read/recv schedules;
 (d) BufferedPktLineWriter output == concatenation of frames.
Never counted as proved."""
import itertools
import json
import os
import sys
import time
from io import BytesIO

HERE = os.path.dirname(os.path.dirname(os.path.abspath(__file__)))
sys.path.insert(0, HERE)


def partitions(n):
    """all ways to cut a stream of length n into consecutive non-empty pieces (as cut-point sets)."""
    for mask in range(1 << max(n - 1, 0)):
        cuts = [i + 1 for i in range(n - 1) if mask >> i & 1]
        yield [0] + cuts + [n]


def main():
    tier = sys.argv[sys.argv.index("--tier") + 1] if "--tier" in sys.argv else "quick"
    repo = os.environ.get("VERIF_REPO", "/repo")
    from pyvc import native
    native.setup(repo)
    from dulwich.protocol import (BufferedPktLineWriter, PktLineParser, Protocol, ReceivableProtocol, pkt_line)
    t0 = time.time()
    cases = 0
    failures = []

    def fail(what, detail):
        if len(failures) < 10:
            failures.append({"what": what, "detail": detail})

    # (a) side-band
    sizes = [0, 1, 2, 65514, 65515, 65516, 65517, 65519, 65520, 131029, 131030, 131031, 200000]
    for ch in (1, 2, 3):
        for n in sizes:
            cases += 1
            blob = bytes((i * 31 + ch) % 251 for i in range(n))
            out = BytesIO()
            Protocol(lambda k: b"", out.write).write_sideband(ch, blob)
            rd = BytesIO(out.getvalue())
            p = Protocol(rd.read, lambda d: None)
            got = b""
            ok = True
            while rd.tell() < len(out.getvalue()):
                pkt = p.read_pkt_line()
                if pkt is None or pkt[:1] != bytes([ch]) or len(pkt) > 65516:
                    ok = False
                    break
                got += pkt[1:]
            if not ok or got != blob:
                fail("write_sideband round trip", {"channel": ch, "size": n, "got_len": len(got)})
    # (b) PktLineParser under all partitions
    payload_sets = [[b"ab", None, b"cdef"], [b"", b"x"], [None, None], [b"a" * 11], [b"0006", b"\x00\xff"]]
    for pls in payload_sets:
        stream = b"".join(pkt_line(x) for x in pls)
        if len(stream) > (18 if tier == "quick" else 22):
            stream = stream[:18]
        # reference decoding of the (possibly truncated) stream fed in one piece
        ref = []
        pp = PktLineParser(ref.append)
        pp.parse(stream)
        ref_tail = pp.get_tail()
        for cuts in partitions(len(stream)):
            cases += 1
            got = []
            q = PktLineParser(got.append)
            try:
                for a, b in zip(cuts, cuts[1:]):
                    q.parse(stream[a:b])
            except Exception as e:  # noqa: BLE001
                fail("PktLineParser raised under chunking", {"stream": stream.hex(), "cuts": cuts, "exc": repr(e)})
                continue
            if got != ref or q.get_tail() != ref_tail:
                fail("PktLineParser chunking changes the result", {"stream": stream.hex(), "cuts": cuts})
    # (c) ReceivableProtocol under all chunkings and read/recv schedules
    wire = bytes(range(1, 11))
    scheds = list(itertools.product(("r1", "r2", "r3", "v1", "v2", "v4"), repeat=3))
    for cuts in partitions(len(wire)):
        chunks = [wire[a:b] for a, b in zip(cuts, cuts[1:])]
        for sched in scheds:
            cases += 1
            it = iter(chunks)
            pend = [b""]

            def recv(n, it=it, pend=pend):
                if not pend[0]:
                    pend[0] = next(it, b"")
                r, pend[0] = pend[0][:n], pend[0][n:]
                return r
            rp = ReceivableProtocol(recv, lambda d: None)
            pos = 0
            ok = True
            for op in sched:
                n = int(op[1])
                if op[0] == "r":
                    got = rp.read(n)
                    exp = wire[pos:pos + n]
                    ok = got == exp
                else:
                    got = rp.recv(n)
                    ok = (1 <= len(got) <= n and got == wire[pos:pos + len(got)]) or (pos >= len(wire) and got == b"")
                pos += len(got)
                if not ok:
                    fail("ReceivableProtocol read/recv", {"cuts": cuts, "schedule": sched, "op": op, "pos": pos})
                    break
    # (d) BufferedPktLineWriter
    for bufsize in (10, 16, 17, 65515):
        for pls in ([b"a", b"bc", b"", b"defgh" * 3], [b"x" * 20, b"y"]):
            cases += 1
            out = BytesIO()
            w = BufferedPktLineWriter(out.write, bufsize=bufsize)
            for x in pls:
                w.write(x)
            w.flush()
            if out.getvalue() != b"".join(pkt_line(x) for x in pls):
                fail("BufferedPktLineWriter", {"bufsize": bufsize})
    print(json.dumps({"name": "c19_roundtrip", "function": "dulwich/protocol.py framing classes", "cases": cases, "exhaustive": True,
                      "bound": f"side-band sizes {sizes} x 3 channels; all partitions of 5 encoded streams (<= 18 bytes); "
                               "all chunkings of a 10-byte wire x all 3-step schedules over read(1,2,3)/recv(1,2,4); 8 buffered-writer cases",
                      "failures": failures, "secs": round(time.time() - t0, 2)}))


if __name__ == "__main__":
    main()

"""Bounded stand-in (C19): framing round trips on the real classes over finite domains.
 (a) write_sideband -> read_pkt_line demultiplex, payload sizes around the frame limits, 3 channels;
 (b) PktLineParser under ALL partitions of short encoded streams;
 (c) ReceivableProtocol.read/recv under all chunkings of short wires and mixed read/recv schedules;
 (d) BufferedPktLineWriter output == concatenation of frames.
Never counted as proved."""
import itertools
import json
import os
import sys
import time
from io import BytesIO

HERE = os.path.dirname(os.path.dirname(os.path.abspath(__file__)))
sys.path.insert(0, HERE)


def partitions(n):
    """all ways to cut a stream of length n into consecutive non-empty pieces (as cut-point sets)."""
    for mask in range(1 << max(n - 1, 0)):
        cuts = [i + 1 for i in range(n - 1) if mask >> i & 1]
        yield [0] + cuts + [n]


def main():
    tier = sys.argv[sys.argv.index("--tier") + 1] if "--tier" in sys.argv else "quick"
    repo = os.environ.get("VERIF_REPO", "/repo")
    from pyvc import native
    native.setup(repo)
    from dulwich.protocol import (BufferedPktLineWriter, PktLineParser, Protocol, ReceivableProtocol, pkt_line)
    t0 = time.time()
    cases = 0
    failures = []

    def fail(what, detail):
        if len(failures) < 10:
            failures.append({"what": what, "detail": detail})

    # (a) side-band
    sizes = [0, 1, 2, 65514, 65515, 65516, 65517, 65519, 65520, 131029, 131030, 131031, 200000]
    for ch in (1, 2, 3):
        for n in sizes:
            cases += 1
            blob = bytes((i * 31 + ch) % 251 for i in range(n))
            out = BytesIO()
            Protocol(lambda k: b"", out.write).write_sideband(ch, blob)
            rd = BytesIO(out.getvalue())
            p = Protocol(rd.read, lambda d: None)
            got = b""
            ok = True
            while rd.tell() < len(out.getvalue()):
                pkt = p.read_pkt_line()
                if pkt is None or pkt[:1] != bytes([ch]) or len(pkt) > 65516:
                    ok = False
                    break
                got += pkt[1:]
            if not ok or got != blob:
                fail("write_sideband round trip", {"channel": ch, "size": n, "got_len": len(got)})
    # (b) PktLineParser under all partitions
    payload_sets = [[b"ab", None, b"cdef"], [b"", b"x"], [None, None], [b"a" * 11], [b"0006", b"\x00\xff"]]
    for pls in payload_sets:
        stream = b"".join(pkt_line(x) for x in pls)
        if len(stream) > (18 if tier == "quick" else 22):
            stream = stream[:18]
        # reference decoding of the (possibly truncated) stream fed in one piece
        ref = []
        pp = PktLineParser(ref.append)
        pp.parse(stream)
        ref_tail = pp.get_tail()
        for cuts in partitions(len(stream)):
            cases += 1
            got = []
            q = PktLineParser(got.append)
            try:
                for a, b in zip(cuts, cuts[1:]):
                    q.parse(stream[a:b])
            except Exception as e:  # noqa: BLE001
                fail("PktLineParser raised under chunking", {"stream": stream.hex(), "cuts": cuts, "exc": repr(e)})
                continue
            if got != ref or q.get_tail() != ref_tail:
                fail("PktLineParser chunking changes the result", {"stream": stream.hex(), "cuts": cuts})
    # (c) ReceivableProtocol under all chunkings and read/recv schedules
    wire = bytes(range(1, 11))
    scheds = list(itertools.product(("r1", "r2", "r3", "v1", "v2", "v4"), repeat=3))
    for cuts in partitions(len(wire)):
        chunks = [wire[a:b] for a, b in zip(cuts, cuts[1:])]
        for sched in scheds:
            cases += 1
            it = iter(chunks)
            pend = [b""]

            def recv(n, it=it, pend=pend):
                if not pend[0]:
                    pend[0] = next(it, b"")
                r, pend[0] = pend[0][:n], pend[0][n:]
                return r
            rp = ReceivableProtocol(recv, lambda d: None)
            pos = 0
            ok = True
            for op in sched:
                n = int(op[1])
                if op[0] == "r":
                    got = rp.read(n)
                    exp = wire[pos:pos + n]
                    ok = got == exp
                else:
                    got = rp.recv(n)
                    ok = (1 <= len(got) <= n and got == wire[pos:pos + len(got)]) or (pos >= len(wire) and got == b"")
                pos += len(got)
                if not ok:
                    fail("ReceivableProtocol read/recv", {"cuts": cuts, "schedule": sched, "op": op, "pos": pos})
                    break
    # (d) BufferedPktLineWriter
    for bufsize in (10, 16, 17, 65515):
        for pls in ([b"a", b"bc", b"", b"defgh" * 3], [b"x" * 20, b"y"]):
            cases += 1
            out = BytesIO()
            w = BufferedPktLineWriter(out.write, bufsize=bufsize)
            for x in pls:
                w.write(x)
            w.flush()
            if out.getvalue() != b"".join(pkt_line(x) for x in pls):
                fail("BufferedPktLineWriter", {"bufsize": bufsize})
    # (e) capability lists, ref advertisements, want lines, command packets (contents without NUL / LF)
    from dulwich.protocol import (capability_symref, extract_capabilities, extract_want_line_capabilities,
                                  format_capability_line, format_cmd_pkt, format_ref_line, parse_capability, parse_cmd_pkt,
                                  symref_capabilities)
    from dulwich.client import _extract_symrefs_and_agent, read_pkt_refs_v1
    cap_atoms = [b"x", b"multi_ack", b"a=b", b"a=b=c", b"agent=git/2.39.0", b"symref=HEAD:refs/heads/m", b"k=", b"=v", b"\xff\x01", b"a:b",
                 b"object-format=sha1", b"side-band-64k", b"~^{}"]
    cap_lists = [[]] + [[a] for a in cap_atoms] + [list(t) for t in itertools.permutations(cap_atoms[:6], 2)] \
        + [list(t) for t in itertools.permutations(cap_atoms[5:10], 3)] + [[b"x", b"x"], cap_atoms]
    refnames = [b"HEAD", b"refs/heads/m", b"refs/tags/v1^{}", b"capabilities^{}", b"refs/heads/a=b", b"refs/heads/\xc3\xa9", b"r"]
    shas = [b"0" * 40, b"1234567890abcdef" * 2 + b"12345678", b"ab" * 32]
    for caps in cap_lists:
        cases += 1
        if format_capability_line(caps) != b"".join(b" " + c for c in caps):
            fail("format_capability_line", {"caps": [c.hex() for c in caps]})
        for ref in refnames:
            for sha in shas:
                for nl in (True, False):
                    cases += 1
                    line = format_ref_line(ref, sha, caps)
                    if not (line.endswith(b"\n") and line.count(b"\n") == 1 and line.count(b"\0") == 1):
                        fail("format_ref_line shape", {"line": line.hex()})
                    wire = line if nl else line[:-1]
                    body = wire.rstrip(b"\n").split(None, 1)[1]
                    got = extract_capabilities(body)
                    if got != (ref, caps):
                        fail("capability list round trip (format_ref_line -> extract_capabilities)",
                             {"ref": ref.hex(), "caps": [c.hex() for c in caps], "got": repr(got)})
                    refs_got, caps_got = read_pkt_refs_v1([wire])
                    exp_refs = {} if (ref == b"capabilities^{}" and sha == b"0" * 40) else {ref: sha}
                    if refs_got != exp_refs or caps_got != set(caps):
                        fail("ref advertisement round trip (read_pkt_refs_v1)", {"ref": ref.hex(), "caps": [c.hex() for c in caps], "got": repr((refs_got, caps_got))})
        # a later line without capabilities, and a peeled line
        cases += 1
        adv = [format_ref_line(b"HEAD", shas[1], caps), format_ref_line(b"refs/tags/t", shas[2]), format_ref_line(b"refs/tags/t^{}", shas[1])]
        refs_got, caps_got = read_pkt_refs_v1(adv)
        if refs_got != {b"HEAD": shas[1], b"refs/tags/t": shas[2], b"refs/tags/t^{}": shas[1]} or caps_got != set(caps):
            fail("multi-line ref advertisement", {"caps": [c.hex() for c in caps], "got": repr((refs_got, caps_got))})
        # want line: capabilities follow the object id separated by spaces
        for nl in (b"\n", b""):
            cases += 1
            want = b"want " + shas[1] + b"".join(b" " + c for c in caps) + nl
            got = extract_want_line_capabilities(want)
            exp = (b"want " + shas[1], caps) if caps else (want, [])
            if got != exp:
                fail("want line round trip", {"line": want.hex(), "got": repr(got)})
    for ref in refnames:
        cases += 1
        if format_ref_line(ref, shas[1]) != shas[1] + b" " + ref + b"\n" or extract_capabilities(ref) != (ref, []):
            fail("ref line without capabilities", {"ref": ref.hex()})
    for cap in cap_atoms:
        cases += 1
        k, v = parse_capability(cap)
        if (v is None and (b"=" in cap or k != cap)) or (v is not None and (k + b"=" + v != cap or b"=" in k)):
            fail("parse_capability", {"cap": cap.hex(), "got": repr((k, v))})
    sym_sets = [[], [(b"HEAD", b"refs/heads/m")], [(b"HEAD", b"refs/heads/a:b"), (b"refs/remotes/o/HEAD", b"refs/remotes/o/m")], [(b"HEAD", b"refs/heads/a=b")]]
    for syms in sym_sets:
        for agent in (None, b"git/2.39", b"a=b"):
            cases += 1
            caps = [b"x"] + symref_capabilities(syms) + ([b"agent=" + agent] if agent is not None else [])
            got = _extract_symrefs_and_agent(extract_capabilities(format_ref_line(b"HEAD", shas[1], caps)[41:-1])[1])
            if got != (dict(syms), agent) or any(capability_symref(a, b) != b"symref=" + a + b":" + b for a, b in syms):
                fail("symref / agent capabilities round trip", {"symrefs": repr(syms), "agent": repr(agent), "got": repr(got)})
    for cmd in (b"git-upload-pack", b"git-receive-pack", b"c"):
        for args in ([b"/p"], [b"/p", b"host=h"], [b"/p with space", b"host=h", b"", b"version=2"], [b""], [b" ", b"="]):
            cases += 1
            got = parse_cmd_pkt(format_cmd_pkt(cmd, *args))
            if got != (cmd, args):
                fail("command packet round trip", {"cmd": cmd.hex(), "args": [a.hex() for a in args], "got": repr(got)})
    print(json.dumps({"name": "c19_roundtrip", "function": "dulwich/protocol.py framing classes", "cases": cases, "exhaustive": True,
                      "bound": f"side-band sizes {sizes} x 3 channels; all partitions of 5 encoded streams (<= 18 bytes); "
                               "all chunkings of a 10-byte wire x all 3-step schedules over read(1,2,3)/recv(1,2,4); 8 buffered-writer cases; "
                               "capability lists (empty, 13 singletons, 30 pairs, 60 triples, duplicates, all 13) x 7 ref names x 3 ids x with/without LF through "
                               "format_ref_line -> extract_capabilities / read_pkt_refs_v1, want lines, symref/agent capabilities, command packets",
                      "failures": failures, "secs": round(time.time() - t0, 2)}))


if __name__ == "__main__":
    main()

"""Bounded stand-in (C16): (a) check_ref_format == the executable spec git_check_refname_format, exhaustively
over all strings up to length N on an alphabet covering every character class (also a CPython cross-check of
the engine's encoding of that function); thorough tier: the spec itself against `git check-ref-format`;
(b) files backend vs in-memory backend vs a plain map model on ALL sequences of <= K ref operations over a
small universe with a directory/file conflict, interleaved with pack_refs and re-opening; git for-each-ref
agreement in the thorough tier.  Never counted as proved."""
import itertools
import json
import os
import shutil
import subprocess
import sys
import tempfile
import time

HERE = os.path.dirname(os.path.dirname(os.path.abspath(__file__)))
sys.path.insert(0, HERE)

A = b"40d1d1a4ae06c8d9b6d04c08d1ba0a1dbd2a7b1c"
B = b"1a410efbd13591db07496601ebc7a059dd55cfe9"
ZERO = b"0" * 40


def sym_chunk(args):
    """part (e) of the sweep for the sequences number lo..hi (own process, own temporary directory)"""
    tier, lo, hi = args
    repo = os.environ.get("VERIF_REPO", "/repo")
    from pyvc import native
    native.setup(repo)
    from dulwich.refs import DiskRefsContainer
    cases = 0
    failures = []

    def fail(what, detail):
        if len(failures) < 4:
            failures.append({"what": what, "detail": detail})
    counter = [0]
    with tempfile.TemporaryDirectory() as d:
        # (e) symbolic refs: HEAD -> s -> m chains, dangling targets, writes and conditional writes THROUGH the chain, deletes of
        #     the symref itself, import_refs with prune, interleaved with pack_refs and re-opening; model = (direct values, symrefs)
        H, M, S, X, RM = b"HEAD", b"refs/heads/m", b"refs/heads/s", b"refs/heads/x", b"refs/remotes/o/m"
        sops = [("set", H, A), ("set", H, B), ("set", M, A), ("set", M, B), ("set", S, B), ("cas", H, A, B), ("cas", S, B, A), ("add", H, A), ("add", S, A),
                ("sym", H, S), ("sym", H, M), ("sym", S, M), ("sym", S, X), ("sym", S, S), ("del", S), ("del", M), ("cad", M, A),
                ("import", {b"m": A}), ("import", {b"m": B}), ("import", {}), ("pack",), ("reopen",)]

        def run_sym(seq):
            vals, syms = {}, {H: M}                 # a fresh container as Repo.init leaves it: HEAD -> refs/heads/m (unborn)

            def final(nm):
                seen = 0
                while nm in syms and seen < 6:
                    nm = syms[nm]
                    seen += 1
                return nm
            p_ = os.path.join(d, f"s{counter[0]}").encode()
            counter[0] += 1
            os.makedirs(os.path.join(p_, b"refs", b"heads"))
            c = DiskRefsContainer(p_)
            c.set_symbolic_ref(H, M)
            def loops(nm):
                seen = 0
                while nm in syms and seen < 8:
                    nm = syms[nm]
                    seen += 1
                return nm in syms
            for oi in seq:
                op = sops[oi]
                if op[0] in ("set", "cas", "add") and loops(op[1]):
                    continue                     # a write THROUGH a symref loop: convention not fixed by the property, not exercised
                try:
                    if op[0] == "set":
                        c[op[1]] = op[2]
                        vals[final(op[1])] = op[2]
                    elif op[0] == "cas":
                        cond = vals.get(final(op[1]), ZERO) == op[2]
                        res = c.set_if_equals(op[1], op[2], op[3])
                        if res != cond:
                            return f"set_if_equals returned {res}, model says {cond} at {op}"
                        if cond:
                            vals[final(op[1])] = op[3]
                    elif op[0] == "add":
                        cond = final(op[1]) not in vals
                        res = c.add_if_new(op[1], op[2])
                        if res != cond:
                            return f"add_if_new returned {res}, model says {cond} at {op}"
                        if cond:
                            vals[final(op[1])] = op[2]
                    elif op[0] == "sym":
                        c.set_symbolic_ref(op[1], op[2])
                        vals.pop(op[1], None)
                        syms[op[1]] = op[2]
                    elif op[0] == "del":
                        c.remove_if_equals(op[1], None)          # does not follow: removes the name itself
                        vals.pop(op[1], None)
                        syms.pop(op[1], None)
                    elif op[0] == "cad":
                        cond = op[1] not in syms and vals.get(op[1], ZERO) == op[2]
                        if op[1] in syms:
                            continue                             # conditional delete of a symref: convention not fixed by the property
                        res = c.remove_if_equals(op[1], op[2])
                        if res != cond:
                            return f"remove_if_equals returned {res}, model says {cond} at {op}"
                        if cond:
                            vals.pop(op[1], None)
                    elif op[0] == "import":
                        c.import_refs(b"refs/remotes/o", op[1], prune=True)
                        for k_ in [k for k in vals if k.startswith(b"refs/remotes/o/")]:
                            del vals[k_]
                        for k_, v_ in op[1].items():
                            vals[b"refs/remotes/o/" + k_] = v_
                    elif op[0] == "pack":
                        c.pack_refs(all=True)
                    elif op[0] == "reopen":
                        c = DiskRefsContainer(p_)
                except Exception as e:  # noqa: BLE001
                    return f"unexpected {type(e).__name__}: {e!r} at {op}"
                want_resolved = {}
                for nm in list(vals) + list(syms):
                    if final(nm) in vals:
                        want_resolved[nm] = vals[final(nm)]
                try:
                    got = dict(c.as_dict())
                    gsyms = dict(c.get_symrefs())
                    raw = {nm: c.read_ref(nm) for nm in (H, M, S, X, RM)}
                except Exception as e:  # noqa: BLE001
                    return f"reading back raised {type(e).__name__}: {e!r} after {op}"
                if got != want_resolved:
                    return f"after {op}: as_dict() {sorted((k.decode(), v[:4].decode()) for k, v in got.items())} model {sorted((k.decode(), v[:4].decode()) for k, v in want_resolved.items())}"
                if gsyms != syms:
                    return f"after {op}: get_symrefs() {sorted(gsyms.items())} model {sorted(syms.items())}"
                for nm in (H, M, S, X, RM):
                    want_raw = (b"ref: " + syms[nm]) if nm in syms else vals.get(nm)
                    if raw[nm] != want_raw:
                        return f"after {op}: read_ref({nm.decode()}) = {raw[nm]!r}, model {want_raw!r}"
            return None
        seqs3 = list(itertools.product(range(len(sops)), repeat=3))
        seqs4 = [q for i_, q in enumerate(itertools.product(range(len(sops)), repeat=4)) if i_ % (23 if tier == "quick" else 3) == 0]
        allseq = seqs3 + seqs4
        for seq in allseq[len(allseq) * lo // 64:len(allseq) * hi // 64]:
            cases += 1
            r = run_sym(seq)
            if r:
                fail("files backend with symbolic refs deviates from the map model", {"ops": [[x.decode() if isinstance(x, bytes) else ({k.decode(): v.decode() for k, v in x.items()} if isinstance(x, dict) else x) for x in sops[o]] for o in seq], "why": r})
            import shutil
            if cases % 50 == 0:
                for nm_ in os.listdir(d):
                    shutil.rmtree(os.path.join(d, nm_), ignore_errors=True)
    return cases, failures


def main():
    tier = sys.argv[sys.argv.index("--tier") + 1] if "--tier" in sys.argv else "quick"
    repo = os.environ.get("VERIF_REPO", "/repo")
    from pyvc import native
    native.setup(repo)
    from contracts.specs_py import git_check_refname_format
    from dulwich.refs import DictRefsContainer, DiskRefsContainer, check_ref_format
    t0 = time.time()
    cases = 0
    failures = []

    def fail(what, detail):
        if len(failures) < 10:
            failures.append({"what": what, "detail": detail})

    # (a) ref-name rules
    alpha = b"a/.@{l\\~ \x7f\x1f*" + b"k"
    n = 4 if tier == "quick" else 5
    for ln in range(0, n + 1):
        for t in itertools.product(alpha, repeat=ln):
            s = bytes(t)
            cases += 1
            if bool(check_ref_format(s)) != bool(git_check_refname_format(s)):
                fail("check_ref_format != spec", {"name": s.hex()})
    for s in (b"refs/heads/a.lock", b"refs/heads/a.lockx", b"refs/a.lock/b", b"a/b.", b"a/.b", b"a//b", b"/a/b", b"a/b/", b"refs/heads/@", b"@/a", b"a/b@{"):
        cases += 1
        if bool(check_ref_format(s)) != bool(git_check_refname_format(s)):
            fail("check_ref_format != spec", {"name": s.hex()})
    if tier == "thorough":
        for ln in range(1, 5):
            for t in itertools.product(b"a/.@{l\\~ *", repeat=ln):
                s = bytes(t)
                cases += 1
                rc = subprocess.run(["git", "check-ref-format", s.decode("latin-1")], capture_output=True).returncode
                if (rc == 0) != bool(git_check_refname_format(s)):
                    fail("spec != git check-ref-format", {"name": s.hex(), "git_rc": rc})
    # (b) backends vs map model
    names = [b"refs/heads/a", b"refs/heads/a/b", b"refs/tags/t", b"refs/heads/c"]
    ops = []
    for nm in names:
        ops += [("set", nm, A), ("set", nm, B), ("cas", nm, A, B), ("cas", nm, None, A), ("add", nm, A), ("del", nm), ("cad", nm, A), ("cad", nm, B)]
    ops += [("pack",), ("reopen",)]
    K = 3 if tier == "quick" else 4
    seqs = itertools.product(range(len(ops)), repeat=K)
    step = 7 if tier == "quick" else 3

    def conflicts(model, nm):
        return any(k != nm and (k.startswith(nm + b"/") or nm.startswith(k + b"/")) for k in model)

    def run(container_factory, seq, kind):
        model = {}
        c = container_factory()
        log = []
        for oi in seq:
            op = ops[oi]
            try:
                if op[0] == "set":
                    exp = None
                    c[op[1]] = op[2]
                    res = None
                    if not (kind == "disk" and conflicts(model, op[1])):
                        model[op[1]] = op[2]
                elif op[0] == "cas":
                    cond = op[2] is None or model.get(op[1], ZERO) == op[2]
                    res = c.set_if_equals(op[1], op[2], op[3])
                    if cond and not (kind == "disk" and conflicts(model, op[1])):
                        model[op[1]] = op[3]
                    exp = cond
                    if res != exp and not (kind == "disk" and conflicts(model, op[1]) and res is False):
                        return f"set_if_equals returned {res}, model says {exp} at {op}"
                elif op[0] == "add":
                    cond = op[1] not in model
                    res = c.add_if_new(op[1], op[2])
                    if cond and not (kind == "disk" and conflicts(model, op[1])):
                        model[op[1]] = op[2]
                    if res != cond and not (kind == "disk" and conflicts(model, op[1]) and res is False):
                        return f"add_if_new returned {res}, model says {cond} at {op}"
                elif op[0] == "del":
                    c.remove_if_equals(op[1], None)
                    model.pop(op[1], None)
                elif op[0] == "cad":
                    cond = model.get(op[1], ZERO) == op[2]
                    res = c.remove_if_equals(op[1], op[2])
                    if cond:
                        model.pop(op[1], None)
                    if res != cond:
                        return f"remove_if_equals returned {res}, model says {cond} at {op}"
                elif op[0] == "pack":
                    if kind == "disk":
                        c.pack_refs(all=True)
                elif op[0] == "reopen":
                    if kind == "disk":
                        c = DiskRefsContainer(c.path)
                    elif kind == "reftable":
                        c = type(c)(c.path)
            except (OSError, KeyError) as e:
                # directory/file conflicts must be refused by the files backend and only there
                # (for a conditional delete of a colliding name the refusal may also be an OSError: state unchanged)
                if not (kind == "disk" and op[0] in ("set", "cas", "add", "cad", "del") and conflicts(model, op[1])):
                    return f"unexpected {type(e).__name__} at {op}"
            got = {k: v for k, v in c.as_dict().items() if k != b"HEAD"}
            if got != model:
                return f"after {op}: backend has {sorted(got)} model has {sorted(model)}"
        return None

    with tempfile.TemporaryDirectory() as d:
        counter = [0]

        def disk():
            counter[0] += 1
            p = os.path.join(d, f"r{counter[0]}").encode()
            os.makedirs(os.path.join(p, b"refs", b"heads"))
            os.makedirs(os.path.join(p, b"refs", b"tags"))
            return DiskRefsContainer(p)
        def reftable():
            from dulwich.reftable import ReftableRefsContainer
            counter[0] += 1
            p = os.path.join(d, f"t{counter[0]}")
            os.makedirs(p)
            return ReftableRefsContainer(p)
        for i, seq in enumerate(seqs):
            if i % step:
                continue
            cases += 1
            if cases % 200 == 0:
                import shutil
                for nm_ in os.listdir(d):
                    shutil.rmtree(os.path.join(d, nm_), ignore_errors=True)
            for kind, fac in (("dict", lambda: DictRefsContainer({})), ("disk", disk), ("reftable", reftable)):
                # the in-memory and reftable backends do not model directory/file conflicts: skip sequences that create one
                if kind in ("dict", "reftable"):
                    if kind == "reftable" and (i // step) % 4:
                        continue                     # (one table file per update: a quarter of the sample)
                    touched = [ops[o][1] for o in seq if len(ops[o]) > 1]
                    if b"refs/heads/a" in touched and b"refs/heads/a/b" in touched:
                        continue
                r = run(fac, seq, kind)
                if r:
                    fail(f"{kind} backend deviates from the map model", {"ops": [list(map(lambda x: x.decode() if isinstance(x, bytes) else x, ops[o])) for o in seq], "why": r})
        # (c) directed: ALL sequences of length 4 over a reduced operation set on a name and a sibling whose name extends it
        #     (loose + packed copies of one ref, packed sibling 'a-2' that is not a directory conflict)
        n1, n2 = b"refs/heads/a", b"refs/heads/a-2"
        saved_ops = list(ops)
        ops[:] = [("set", n1, A), ("set", n1, B), ("del", n1), ("cad", n1, B), ("add", n1, A), ("set", n2, A), ("del", n2), ("pack",)]
        for seq in itertools.product(range(len(ops)), repeat=4):
            cases += 1
            r = run(disk, seq, "disk")
            if r:
                fail("disk backend deviates from the map model", {"ops": [list(map(lambda x: x.decode() if isinstance(x, bytes) else x, ops[o])) for o in seq], "why": r})
        ops[:] = saved_ops
        # (d) the packed-refs directory/file conflict test against its definition, all packed sets of size <= 2 over 8 names
        U = [b"refs/heads/a", b"refs/heads/a/b", b"refs/heads/a/b/c", b"refs/heads/a-2", b"refs/heads/ab", b"refs/heads", b"refs/heads/b", b"refs/tags/a"]
        for r_ in (0, 1, 2):
            for packed in itertools.combinations(U, r_):
                c = disk()
                if packed:
                    with open(os.path.join(c.path, b"packed-refs"), "wb") as pf:
                        pf.write(b"".join(A + b" " + nm + b"\n" for nm in sorted(packed)))
                for nm in U:
                    cases += 1
                    want = None
                    if any(nm.startswith(pk + b"/") for pk in packed):
                        want = NotADirectoryError
                    elif any(pk.startswith(nm + b"/") for pk in packed):
                        want = IsADirectoryError
                    try:
                        c._check_no_packed_conflict(nm, b"f")
                        got = None
                    except OSError as e:
                        got = type(e)
                    if got is not want:
                        fail("_check_no_packed_conflict != definition", {"packed": [x.decode() for x in packed], "name": nm.decode(),
                                                                         "raised": got.__name__ if got else None, "expected": want.__name__ if want else None})
    # (f) directed: a peeled value cached for a packed tag does not survive the ref being overwritten / deleted and re-created
    with tempfile.TemporaryDirectory() as d2:
        C_ = b"c" * 40
        for how in ("set", "cas", "del+add"):
            for repack in (False, True):
                for reopen in (False, True):
                    cases += 1
                    p_ = os.path.join(d2, f"p{cases}").encode()
                    os.makedirs(os.path.join(p_, b"refs", b"tags"))
                    with open(os.path.join(p_, b"packed-refs"), "wb") as pf:
                        pf.write(b"# pack-refs with: peeled fully-peeled sorted \n" + A + b" refs/tags/t\n^" + B + b"\n")
                    c = DiskRefsContainer(p_)
                    if c.get_peeled(b"refs/tags/t") != B:
                        fail("peeled value of a packed tag is not read", {"how": how})
                    if how == "set":
                        c[b"refs/tags/t"] = C_
                    elif how == "cas":
                        c.set_if_equals(b"refs/tags/t", A, C_)
                    else:
                        del c[b"refs/tags/t"]
                        c.add_if_new(b"refs/tags/t", C_)
                    if repack:
                        c.pack_refs(all=True)
                    if reopen:
                        c = DiskRefsContainer(p_)
                    got_p = c.get_peeled(b"refs/tags/t")
                    text = open(os.path.join(p_, b"packed-refs"), "rb").read() if os.path.exists(os.path.join(p_, b"packed-refs")) else b""
                    if c[b"refs/tags/t"] != C_ or got_p == B or (C_ + b" refs/tags/t\n^" + B) in text:
                        fail("a stale peeled value survives the overwrite of a packed tag ref", {"how": how, "repack": repack, "reopen": reopen, "get_peeled": None if got_p is None else got_p.decode(), "packed_refs": text.decode("latin-1")})
    # (g) NamespacedRefsContainer: a view restricted to refs/namespaces/<ns>/ behaves as the same map model, over the files
    #     backend (loose, packed, both) and the dict backend; refs outside the namespace are never visible or touched
    from dulwich.refs import NamespacedRefsContainer
    NS_OPS = [("set", b"refs/heads/x", A), ("set", b"refs/heads/x", B), ("set", b"refs/tags/t", B), ("cas", b"refs/heads/x", A, B),
              ("cas0", b"refs/heads/x", A), ("new", b"refs/tags/t", A), ("del", b"refs/heads/x"), ("delif", b"refs/heads/x", B),
              ("pack",), ("reopen",), ("sym", b"refs/heads/s", b"refs/heads/x")]
    NS_S, NS_X = b"refs/heads/s", b"refs/heads/x"
    ns_len = 3 if tier == "quick" else 4
    with tempfile.TemporaryDirectory() as d3:
        for kind in ("disk", "dict"):
            for seq in itertools.product(range(len(NS_OPS)), repeat=ns_len):
                if kind == "dict" and any(NS_OPS[o][0] in ("pack", "reopen") for o in seq):
                    continue
                cases += 1
                if kind == "disk":
                    p_ = os.path.join(d3, f"n{cases}").encode()
                    os.makedirs(os.path.join(p_, b"refs"))
                    base = DiskRefsContainer(p_)
                else:
                    base = DictRefsContainer({})
                OUT = b"refs/heads/outside"
                base[OUT] = B
                ns = NamespacedRefsContainer(base, b"foo")
                model = {}
                sym_set = False
                why = None
                for o in seq:
                    op = NS_OPS[o]
                    if op[0] == "sym":
                        ns.set_symbolic_ref(op[1], op[2])
                        sym_set = True
                    elif op[0] == "set":
                        ns[op[1]] = op[2]
                        model[op[1]] = op[2]
                    elif op[0] == "cas":
                        r = ns.set_if_equals(op[1], op[2], op[3])
                        e = model.get(op[1]) == op[2]
                        if e:
                            model[op[1]] = op[3]
                        if bool(r) != e:
                            why = f"set_if_equals returned {r}, model {e}"
                    elif op[0] == "cas0":
                        r = ns.set_if_equals(op[1], None, op[2])
                        model[op[1]] = op[2]
                        if not r:
                            why = "unconditional set_if_equals refused"
                    elif op[0] == "new":
                        r = ns.add_if_new(op[1], op[2])
                        e = op[1] not in model
                        if e:
                            model[op[1]] = op[2]
                        if bool(r) != e:
                            why = f"add_if_new returned {r}, model {e}"
                    elif op[0] == "del":
                        r = ns.remove_if_equals(op[1], None)
                        model.pop(op[1], None)
                        if not r:
                            why = "unconditional remove refused"
                    elif op[0] == "delif":
                        r = ns.remove_if_equals(op[1], op[2])
                        e = model.get(op[1]) == op[2]
                        if e:
                            del model[op[1]]
                        if bool(r) != e:
                            why = f"remove_if_equals returned {r}, model {e}"
                    elif op[0] == "pack":
                        ns.pack_refs(all=True)
                    elif op[0] == "reopen":
                        base = DiskRefsContainer(p_)
                        ns = NamespacedRefsContainer(base, b"foo")
                    if why is None:
                        exp = dict(model)
                        if sym_set and NS_X in model:
                            exp[NS_S] = model[NS_X]          # a symbolic ref reads as its target; dangling: KeyError, not listed by as_dict
                        try:
                            keys = set(ns.allkeys())
                            seen = {}
                            for k in keys:
                                try:
                                    seen[k] = ns[k]
                                except KeyError:
                                    pass
                            asd = ns.as_dict()
                            cont = {k for k in (NS_X, b"refs/tags/t", OUT) if k in ns}
                            under = {k: v for k, v in base.as_dict().items()}
                            syms = ns.get_symrefs()
                        except Exception as ex:  # noqa: BLE001
                            why = f"reading through the view raised {ex!r}"
                        else:
                            exp_under = {b"refs/namespaces/foo/" + k: v for k, v in exp.items()}
                            exp_under[OUT] = B
                            if seen != exp or asd != exp or cont != set(model) or keys != set(model) | ({NS_S} if sym_set else set()):
                                why = f"view shows {seen} / as_dict {asd} / contains {sorted(cont)} / keys {sorted(keys)}, model {exp}"
                            elif under != exp_under:
                                why = f"underlying container holds {under}, expected {exp_under}"
                            elif syms != ({NS_S: NS_X} if sym_set else {}):
                                why = f"get_symrefs through the view gives {syms}"
                            elif any(ns.read_loose_ref(k) is None and ns.get_packed_refs().get(k) != v for k, v in model.items()):
                                why = f"a ref of the view is neither loose nor in the view's packed refs {ns.get_packed_refs()}"
                    if why is not None:
                        fail(f"namespaced view over the {kind} backend deviates from the map model",
                             {"ops": [[x.decode() if isinstance(x, bytes) else x for x in NS_OPS[o2]] for o2 in seq], "at": NS_OPS[o][0], "why": why})
                        break
                if kind == "disk":
                    shutil.rmtree(p_, ignore_errors=True)
    # (e) symbolic refs (see sym_chunk), 16 processes
    from concurrent.futures import ProcessPoolExecutor
    with ProcessPoolExecutor(max_workers=min(16, os.cpu_count() or 1)) as ex:
        for c_, f_ in ex.map(sym_chunk, [(tier, k_, k_ + 1) for k_ in range(64)]):
            cases += c_
            for x_ in f_:
                if len(failures) < 10:
                    failures.append(x_)
    print(json.dumps({"name": "c16_backends", "function": "dulwich/refs.py check_ref_format + Dict/DiskRefsContainer, dulwich/reftable.py ReftableRefsContainer", "cases": cases, "exhaustive": True,
                      "bound": f"ref names: all strings <= {n} over a 13-symbol class alphabet; backends: every {step}th of all {len(ops)}^{K} operation sequences "
                      "over 4 names (one directory/file pair) incl. pack_refs and re-open; all 8^4 sequences of a reduced operation set on 'a' and 'a-2'; "
                      "_check_no_packed_conflict on all packed sets <= 2 of 8 names; reftable backend on a quarter of the sampled sequences; 12 directed stale-peeled-value cases; symbolic refs: all sequences of 3 and a sample of 4 of 22 operations (incl. a self-looping symref and its retargeting) (writes / conditional writes through HEAD -> s -> m chains, dangling targets, symref deletes, import_refs with prune, pack_refs, re-open) against a (values, symrefs) model incl. get_symrefs() and raw reads" + ("; git check-ref-format on all strings <= 4 over 10 symbols" if tier == "thorough" else ""),
                      "failures": failures, "secs": round(time.time() - t0, 2)}))


if __name__ == "__main__":
    main()

"""Bounded stand-in (C16): (a) check_ref_format == the executable spec git_check_refname_format, exhaustively
over all strings up to length N on an alphabet covering every character class (also a CPython cross-check of
the engine's encoding of that function); thorough tier: the spec itself against `git check-ref-format`;
(b) files backend vs in-memory backend vs a plain map model on ALL sequences of <= K ref operations over a
small universe with a directory/file conflict, interleaved with pack_refs and re-opening; git for-each-ref
agreement in the thorough tier.  Never counted as proved."""
import itertools
import json
import os
import subprocess
import sys
import tempfile
import time

HERE = os.path.dirname(os.path.dirname(os.path.abspath(__file__)))
sys.path.insert(0, HERE)

A = b"40d1d1a4ae06c8d9b6d04c08d1ba0a1dbd2a7b1c"
B = b"1a410efbd13591db07496601ebc7a059dd55cfe9"
ZERO = b"0" * 40


def main():
    tier = sys.argv[sys.argv.index("--tier") + 1] if "--tier" in sys.argv else "quick"
    repo = os.environ.get("VERIF_REPO", "/repo")
    from pyvc import native
    native.setup(repo)
    from contracts.specs_py import git_check_refname_format
    from dulwich.refs import DictRefsContainer, DiskRefsContainer, check_ref_format
    t0 = time.time()
    cases = 0
    failures = []

    def fail(what, detail):
        if len(failures) < 10:
            failures.append({"what": what, "detail": detail})

    # (a) ref-name rules
    alpha = b"a/.@{l\\~ \x7f\x1f*" + b"k"
    n = 4 if tier == "quick" else 5
    for ln in range(0, n + 1):
        for t in itertools.product(alpha, repeat=ln):
            s = bytes(t)
            cases += 1
            if bool(check_ref_format(s)) != bool(git_check_refname_format(s)):
                fail("check_ref_format != spec", {"name": s.hex()})
    for s in (b"refs/heads/a.lock", b"refs/heads/a.lockx", b"refs/a.lock/b", b"a/b.", b"a/.b", b"a//b", b"/a/b", b"a/b/", b"refs/heads/@", b"@/a", b"a/b@{"):
        cases += 1
        if bool(check_ref_format(s)) != bool(git_check_refname_format(s)):
            fail("check_ref_format != spec", {"name": s.hex()})
    if tier == "thorough":
        for ln in range(1, 5):
            for t in itertools.product(b"a/.@{l\\~ *", repeat=ln):
                s = bytes(t)
                cases += 1
                rc = subprocess.run(["git", "check-ref-format", s.decode("latin-1")], capture_output=True).returncode
                if (rc == 0) != bool(git_check_refname_format(s)):
                    fail("spec != git check-ref-format", {"name": s.hex(), "git_rc": rc})
    # (b) backends vs map model
    names = [b"refs/heads/a", b"refs/heads/a/b", b"refs/tags/t", b"refs/heads/c"]
    ops = []
    for nm in names:
        ops += [("set", nm, A), ("set", nm, B), ("cas", nm, A, B), ("cas", nm, None, A), ("add", nm, A), ("del", nm), ("cad", nm, A), ("cad", nm, B)]
    ops += [("pack",), ("reopen",)]
    K = 3 if tier == "quick" else 4
    seqs = itertools.product(range(len(ops)), repeat=K)
    step = 7 if tier == "quick" else 3

    def conflicts(model, nm):
        return any(k != nm and (k.startswith(nm + b"/") or nm.startswith(k + b"/")) for k in model)

    def run(container_factory, seq, kind):
        model = {}
        c = container_factory()
        log = []
        for oi in seq:
            op = ops[oi]
            try:
                if op[0] == "set":
                    exp = None
                    c[op[1]] = op[2]
                    res = None
                    if not (kind == "disk" and conflicts(model, op[1])):
                        model[op[1]] = op[2]
                elif op[0] == "cas":
                    cond = op[2] is None or model.get(op[1], ZERO) == op[2]
                    res = c.set_if_equals(op[1], op[2], op[3])
                    if cond and not (kind == "disk" and conflicts(model, op[1])):
                        model[op[1]] = op[3]
                    exp = cond
                    if res != exp and not (kind == "disk" and conflicts(model, op[1]) and res is False):
                        return f"set_if_equals returned {res}, model says {exp} at {op}"
                elif op[0] == "add":
                    cond = op[1] not in model
                    res = c.add_if_new(op[1], op[2])
                    if cond and not (kind == "disk" and conflicts(model, op[1])):
                        model[op[1]] = op[2]
                    if res != cond and not (kind == "disk" and conflicts(model, op[1]) and res is False):
                        return f"add_if_new returned {res}, model says {cond} at {op}"
                elif op[0] == "del":
                    c.remove_if_equals(op[1], None)
                    model.pop(op[1], None)
                elif op[0] == "cad":
                    cond = model.get(op[1], ZERO) == op[2]
                    res = c.remove_if_equals(op[1], op[2])
                    if cond:
                        model.pop(op[1], None)
                    if res != cond:
                        return f"remove_if_equals returned {res}, model says {cond} at {op}"
                elif op[0] == "pack":
                    if kind == "disk":
                        c.pack_refs(all=True)
                elif op[0] == "reopen":
                    if kind == "disk":
                        c = DiskRefsContainer(c.path)
            except (OSError, KeyError) as e:
                # directory/file conflicts must be refused by the files backend and only there
                # (for a conditional delete of a colliding name the refusal may also be an OSError: state unchanged)
                if not (kind == "disk" and op[0] in ("set", "cas", "add", "cad", "del") and conflicts(model, op[1])):
                    return f"unexpected {type(e).__name__} at {op}"
            got = {k: v for k, v in c.as_dict().items() if k != b"HEAD"}
            if got != model:
                return f"after {op}: backend has {sorted(got)} model has {sorted(model)}"
        return None

    with tempfile.TemporaryDirectory() as d:
        counter = [0]

        def disk():
            counter[0] += 1
            p = os.path.join(d, f"r{counter[0]}").encode()
            os.makedirs(os.path.join(p, b"refs", b"heads"))
            os.makedirs(os.path.join(p, b"refs", b"tags"))
            return DiskRefsContainer(p)
        for i, seq in enumerate(seqs):
            if i % step:
                continue
            cases += 1
            for kind, fac in (("dict", lambda: DictRefsContainer({})), ("disk", disk)):
                # the in-memory backend does not model directory/file conflicts: skip sequences that create one
                if kind == "dict":
                    touched = [ops[o][1] for o in seq if len(ops[o]) > 1]
                    if b"refs/heads/a" in touched and b"refs/heads/a/b" in touched:
                        continue
                r = run(fac, seq, kind)
                if r:
                    fail(f"{kind} backend deviates from the map model", {"ops": [list(map(lambda x: x.decode() if isinstance(x, bytes) else x, ops[o])) for o in seq], "why": r})
        # (c) directed: ALL sequences of length 4 over a reduced operation set on a name and a sibling whose name extends it
        #     (loose + packed copies of one ref, packed sibling 'a-2' that is not a directory conflict)
        n1, n2 = b"refs/heads/a", b"refs/heads/a-2"
        saved_ops = list(ops)
        ops[:] = [("set", n1, A), ("set", n1, B), ("del", n1), ("cad", n1, B), ("add", n1, A), ("set", n2, A), ("del", n2), ("pack",)]
        for seq in itertools.product(range(len(ops)), repeat=4):
            cases += 1
            r = run(disk, seq, "disk")
            if r:
                fail("disk backend deviates from the map model", {"ops": [list(map(lambda x: x.decode() if isinstance(x, bytes) else x, ops[o])) for o in seq], "why": r})
        ops[:] = saved_ops
        # (d) the packed-refs directory/file conflict test against its definition, all packed sets of size <= 2 over 8 names
        U = [b"refs/heads/a", b"refs/heads/a/b", b"refs/heads/a/b/c", b"refs/heads/a-2", b"refs/heads/ab", b"refs/heads", b"refs/heads/b", b"refs/tags/a"]
        for r_ in (0, 1, 2):
            for packed in itertools.combinations(U, r_):
                c = disk()
                if packed:
                    with open(os.path.join(c.path, b"packed-refs"), "wb") as pf:
                        pf.write(b"".join(A + b" " + nm + b"\n" for nm in sorted(packed)))
                for nm in U:
                    cases += 1
                    want = None
                    if any(nm.startswith(pk + b"/") for pk in packed):
                        want = NotADirectoryError
                    elif any(pk.startswith(nm + b"/") for pk in packed):
                        want = IsADirectoryError
                    try:
                        c._check_no_packed_conflict(nm, b"f")
                        got = None
                    except OSError as e:
                        got = type(e)
                    if got is not want:
                        fail("_check_no_packed_conflict != definition", {"packed": [x.decode() for x in packed], "name": nm.decode(),
                                                                         "raised": got.__name__ if got else None, "expected": want.__name__ if want else None})
    print(json.dumps({"name": "c16_backends", "function": "dulwich/refs.py check_ref_format + Dict/DiskRefsContainer", "cases": cases, "exhaustive": True,
                      "bound": f"ref names: all strings <= {n} over a 13-symbol class alphabet; backends: every {step}th of all {len(ops)}^{K} operation sequences "
                      "over 4 names (one directory/file pair) incl. pack_refs and re-open; all 8^4 sequences of a reduced operation set on 'a' and 'a-2'; "
                      "_check_no_packed_conflict on all packed sets <= 2 of 8 names" + ("; git check-ref-format on all strings <= 4 over 10 symbols" if tier == "thorough" else ""),
                      "failures": failures, "secs": round(time.time() - t0, 2)}))


if __name__ == "__main__":
    main()

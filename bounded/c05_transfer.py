"""Bounded stand-in (C05): fetch / clone / push transfer a complete, byte-identical object closure.
Histories: linear, criss-cross merge, disjoint roots, subtrees and blobs shared between wanted and already-present
commits, annotated tags of commit / tree / blob / tag (tag chain), a gitlink entry; the sender additionally holds
UNREACHABLE objects (dangling commit, tree, blob) that must never be transmitted.
For every history x every receiver state (every ancestor-closed subset of the sender's commits, objects and refs
installed) x transport {in-process LocalGitClient, dulwich TCP server on loopback, dulwich WSGI smart HTTP on loopback,
C git upload-pack / receive-pack as subprocess server, C git client against the dulwich TCP server} x direction
{fetch, push} (+ clone into an empty repository, + capability sets in the thorough tier):
 completeness   afterwards the receiver holds the full closure of every transferred ref, byte-identical (type + raw bytes)
 minimality     every object that arrived is reachable from the refs the sender advertises (no dangling object)
 MissingObjectFinder directly, for every (haves, wants) pair of ancestor-closed sets: result + receiver's objects
                covers closure(wants), and result is inside closure(wants).
Never counted as proved."""
import itertools
import json
import os
import shutil
import subprocess
import sys
import tempfile
import threading
import time

HERE = os.path.dirname(os.path.dirname(os.path.abspath(__file__)))
sys.path.insert(0, HERE)


def main():
    tier = sys.argv[sys.argv.index("--tier") + 1] if "--tier" in sys.argv else "quick"
    repo_src = os.environ.get("VERIF_REPO", "/repo")
    from pyvc import native
    native.setup(repo_src)
    import io
    from dulwich import porcelain
    from dulwich.client import LocalGitClient, SubprocessGitClient, TCPGitClient, HttpGitClient
    from dulwich.object_store import MissingObjectFinder
    from dulwich.objects import Blob, Commit, Tag, Tree
    from dulwich.repo import Repo
    from dulwich.server import DictBackend, TCPGitServer
    t0 = time.time()
    cases = 0
    failures = []
    skipped = {}
    NULL = io.BytesIO()
    NULL_TEXT = io.StringIO()

    def fail(what, detail):
        if len(failures) < 10 and sum(1 for f in failures if f["what"] == what) < 3:
            failures.append({"what": what, "detail": detail})

    # ---------------------------------------------------------------- histories (built as object lists, installed into repos)
    def blob(data):
        return Blob.from_string(data)

    def tree(entries):
        t = Tree()
        for name, mode, obj in entries:
            t.add(name, mode, obj if isinstance(obj, bytes) else obj.id)
        return t

    def mk_commit(tr, parents, msg, t):
        c = Commit()
        c.tree = tr.id
        c.parents = [p.id for p in parents]
        c.author = c.committer = b"a <a@b>"
        c.author_time = c.commit_time = 1700000000 + t
        c.author_timezone = c.commit_timezone = 0
        c.message = msg
        return c

    def mk_tag(name, target, t=0):
        tg = Tag()
        tg.name = name
        tg.object = (type(target), target.id)
        tg.tagger = b"a <a@b>"
        tg.tag_time = 1700000000 + t
        tg.tag_timezone = 0
        tg.message = b"tag " + name + b"\n"
        return tg

    def history(shape):
        """returns (objects: dict id -> obj, commits: dict name -> Commit, refs: dict ref -> id, children: dict id -> [ids])"""
        objs = {}

        def add(*os_):
            for o in os_:
                objs[o.id] = o
            return os_[0]
        shared = add(blob(b"shared blob\n"))
        sub = add(tree([(b"s", 0o100644, shared)]))
        commits, refs = {}, {}
        if shape == "linear":
            prev = []
            for i in range(3):
                b = add(blob(b"v%d\n" % i))
                tr = add(tree([(b"f", 0o100644, b), (b"sub", 0o40000, sub), (b"same", 0o100644, shared)]))
                c = add(mk_commit(tr, prev, b"c%d" % i, i))
                commits[f"c{i}"] = c
                prev = [c]
            refs[b"refs/heads/main"] = commits["c2"].id
            refs[b"refs/heads/old"] = commits["c0"].id
        elif shape == "crisscross":
            b0 = add(blob(b"base\n"))
            r = add(mk_commit(add(tree([(b"f", 0o100644, b0)])), [], b"r", 0))
            a = add(mk_commit(add(tree([(b"f", 0o100644, add(blob(b"a\n"))), (b"sub", 0o40000, sub)])), [r], b"a", 1))
            b = add(mk_commit(add(tree([(b"f", 0o100644, add(blob(b"b\n"))), (b"sub", 0o40000, sub)])), [r], b"b", 2))
            m1 = add(mk_commit(add(tree([(b"f", 0o100644, add(blob(b"m1\n"))), (b"sub", 0o40000, sub)])), [a, b], b"m1", 3))
            m2 = add(mk_commit(add(tree([(b"f", 0o100644, add(blob(b"m2\n")))])), [b, a], b"m2", 3))
            top = add(mk_commit(add(tree([(b"f", 0o100644, add(blob(b"top\n"))), (b"g", 0o100644, b0), (b"u", 0o100755, add(blob(b"unique to top\n"))),
                                          (b"deep", 0o40000, add(tree([(b"er", 0o40000, add(tree([(b"leaf", 0o100644, add(blob(b"deep leaf\n")))])))])))])), [m1, m2], b"top", 5))
            commits.update(r=r, a=a, b=b, m1=m1, m2=m2, top=top)
            refs[b"refs/heads/main"] = top.id
            refs[b"refs/heads/side"] = m2.id
        elif shape == "roots+tags":
            r1 = add(mk_commit(add(tree([(b"f", 0o100644, add(blob(b"r1\n")))])), [], b"r1", 0))
            r2 = add(mk_commit(add(tree([(b"f", 0o100644, add(blob(b"r2\n"))), (b"link", 0o160000, b"1" * 40)])), [], b"r2", 1))
            j = add(mk_commit(add(tree([(b"f", 0o100644, add(blob(b"j\n"))), (b"sub", 0o40000, sub)])), [r1, r2], b"j", 2))
            t_commit = add(mk_tag(b"v-commit", r2, 1))
            t_tag = add(mk_tag(b"v-tag", t_commit, 2))
            t_tree = add(mk_tag(b"v-tree", sub, 3))
            t_blob = add(mk_tag(b"v-blob", add(blob(b"only via tag\n")), 4))
            commits.update(r1=r1, r2=r2, j=j)
            refs[b"refs/heads/main"] = j.id
            refs[b"refs/heads/lonely"] = r1.id
            refs[b"refs/tags/v-commit"] = t_commit.id
            refs[b"refs/tags/v-tag"] = t_tag.id
            refs[b"refs/tags/v-tree"] = t_tree.id
            refs[b"refs/tags/v-blob"] = t_blob.id
        elif shape == "deltas":
            # one large file lightly edited from commit to commit: a repacked sender stores the later versions as deltas, the
            # receiver holds the bases in a pack (see install: pack_mode) - the pack that travels is thin wherever the transport allows
            lines = [b"line %04d of the original file\n" % i for i in range(400)]
            prev = []
            for i in range(3):
                data = b"".join(l for k, l in enumerate(lines) if k % 97 != i) + b"tail %d\n" % i
                b = add(blob(data))
                tr = add(tree([(b"data.txt", 0o100644, b), (b"same", 0o100644, shared)]))
                c = add(mk_commit(tr, prev, b"d%d" % i, i))
                commits[f"d{i}"] = c
                prev = [c]
            refs[b"refs/heads/main"] = commits["d2"].id
            refs[b"refs/heads/old"] = commits["d0"].id
        elif shape == "gitlink-own":
            # a superproject history whose tree carries a gitlink to a commit of ANOTHER branch of the same repository
            l1 = add(mk_commit(add(tree([(b"lib.c", 0o100644, add(blob(b"lib 1\n")))])), [], b"l1", 0))
            l2 = add(mk_commit(add(tree([(b"lib.c", 0o100644, add(blob(b"lib 2\n")))])), [l1], b"l2", 1))
            m1 = add(mk_commit(add(tree([(b"f", 0o100644, add(blob(b"m1\n"))), (b"lib", 0o160000, l2.id)])), [], b"m1", 2))
            m2 = add(mk_commit(add(tree([(b"f", 0o100644, add(blob(b"m2\n"))), (b"lib", 0o160000, l2.id)])), [m1], b"m2", 3))
            commits.update(l1=l1, l2=l2, m1=m1, m2=m2)
            refs[b"refs/heads/main"] = m2.id
            refs[b"refs/heads/lib"] = l2.id
        children = {}
        for oid, o in objs.items():
            if isinstance(o, Commit):
                children[oid] = [o.tree] + list(o.parents)
            elif isinstance(o, Tree):
                children[oid] = [e.sha for e in o.iteritems() if e.mode != 0o160000]
            elif isinstance(o, Tag):
                children[oid] = [o.object[1]]
            else:
                children[oid] = []
        # unreachable objects held by the sender only
        dangling = [blob(b"dangling blob\n")]
        dangling.append(tree([(b"d", 0o100644, dangling[0])]))
        dangling.append(mk_commit(dangling[1], [], b"dangling commit", 9))
        return objs, commits, refs, children, dangling

    def closure(children, roots):
        seen, todo = set(), list(roots)
        while todo:
            x = todo.pop()
            if x in seen or x not in children:
                continue
            seen.add(x)
            todo.extend(children[x])
        return seen

    def install(path, objs, refs, bare=True, pack_mode=None):
        r = Repo.init_bare(path, mkdir=True) if bare else Repo.init(path, mkdir=True)
        for o in objs:
            r.object_store.add_object(o)
        if pack_mode == "deltified" and objs:
            # what a repacked repository looks like: blobs of the same path deltified against each other, everything in packs
            from dulwich.pack import pack_objects_to_data
            blobs = sorted((o for o in objs if isinstance(o, Blob) and len(o.data) > 1000), key=lambda o: o.data[-7:])
            if len(blobs) > 1:
                count, it = pack_objects_to_data([(o, b"data.txt") for o in blobs], deltify=True)
                r.object_store.add_pack_data(count, it)
            r.object_store.pack_loose_objects()
        elif pack_mode == "packed" and objs:
            r.object_store.pack_loose_objects()
        for k, v in refs.items():
            r.refs[k] = v
        if b"refs/heads/main" in refs:
            r.refs.set_symbolic_ref(b"HEAD", b"refs/heads/main")
        return r

    def check_receiver(path, objs, children, refs_expected, had_before, what, dangling_ids):
        r = Repo(path)
        try:
            st = r.object_store
            need = closure(children, refs_expected.values())
            missing = [x for x in need if x not in st]
            if missing:
                fail("receiver is incomplete after the transfer", dict(what, missing=[(objs[m].type_name.decode(), m.decode()[:8]) for m in missing][:5]))
            for x in need:
                if x in st:
                    try:
                        same = st.get_raw(x) == (objs[x].type_num, objs[x].as_raw_string())
                    except Exception as e:  # noqa: BLE001
                        fail("a transferred object cannot be read in the receiver", dict(what, obj=objs[x].type_name.decode() + ":" + x.decode()[:8], exc=repr(e)[:150]))
                        continue
                    if not same:
                        fail("transferred object is not byte-identical", dict(what, obj=x.decode()[:8]))
            for pk in st.packs:
                try:
                    for _o in pk.iterobjects():
                        pass
                except Exception as e:  # noqa: BLE001
                    fail("a pack of the receiver is not self-contained after the transfer", dict(what, exc=repr(e)[:150]))
            advertised = closure(children, refs_expected.values()) | closure(children, had_before)
            extra = [x for x in st if x not in advertised]
            if extra:
                fail("an object outside the closure of the advertised refs arrived", dict(what, extra=[x.decode()[:8] for x in extra][:5], dangling=[x.decode()[:8] for x in extra if x in dangling_ids]))
            for k, v in refs_expected.items():
                if r.refs.as_dict().get(k) != v:
                    fail("a transferred ref has the wrong value", dict(what, ref=k.decode()))
        finally:
            r.close()

    # ---------------------------------------------------------------- transports
    class TcpServer:
        def __init__(self, repo):
            self.srv = TCPGitServer(DictBackend({b"/": repo}), b"127.0.0.1", 0)
            self.port = self.srv.server_address[1]
            self.th = threading.Thread(target=self.srv.serve_forever, daemon=True)
            self.th.start()

        def close(self):
            self.srv.shutdown()
            self.srv.server_close()

    class HttpServer:
        def __init__(self, repo):
            from wsgiref.simple_server import make_server
            from dulwich.web import WSGIRequestHandlerLogger, WSGIServerLogger, make_wsgi_chain
            app = make_wsgi_chain(DictBackend({"/": repo}))
            self.srv = make_server("127.0.0.1", 0, app, handler_class=WSGIRequestHandlerLogger, server_class=WSGIServerLogger)
            self.port = self.srv.server_address[1]
            self.th = threading.Thread(target=self.srv.serve_forever, daemon=True)
            self.th.start()

        def close(self):
            self.srv.shutdown()
            self.srv.server_close()

    CAPS = [None]      # capabilities withheld by the client in this round (thorough tier)

    def do_fetch(transport, src_path, dst_path, src_repo):
        """fetch all refs of src into dst; returns the refs fetched"""
        dst = Repo(dst_path)
        try:
            srv = None
            if transport == "local":
                client, path = LocalGitClient(), src_path
            elif transport == "tcp":
                srv = TcpServer(src_repo)
                client, path = TCPGitClient("127.0.0.1", port=srv.port), "/"
            elif transport == "http":
                srv = HttpServer(src_repo)
                client, path = HttpGitClient(f"http://127.0.0.1:{srv.port}/"), "/"
            elif transport == "git-upload-pack":
                client, path = SubprocessGitClient(), src_path
            if CAPS[0] and hasattr(client, "_fetch_capabilities"):
                client._fetch_capabilities -= set(CAPS[0])
                if hasattr(client, "_include_tags") and b"include-tag" in CAPS[0]:
                    client._include_tags = False
            try:
                res = client.fetch(path, dst, progress=lambda x: None)
            finally:
                if srv:
                    srv.close()
            for k, v in res.refs.items():
                if k.startswith(b"refs/") and v is not None and not k.endswith(b"^{}"):
                    dst.refs[k] = v
            return {k: v for k, v in res.refs.items() if k.startswith(b"refs/") and v is not None and not k.endswith(b"^{}")}
        finally:
            dst.close()

    def do_push(transport, src_path, dst_path, dst_repo, refs):
        src = Repo(src_path)
        try:
            srv = None
            if transport == "local":
                client, path = LocalGitClient(), dst_path
            elif transport == "tcp":
                srv = TcpServer(dst_repo)
                client, path = TCPGitClient("127.0.0.1", port=srv.port), "/"
            elif transport == "http":
                srv = HttpServer(dst_repo)
                client, path = HttpGitClient(f"http://127.0.0.1:{srv.port}/"), "/"
            elif transport == "git-upload-pack":      # C git receive-pack as the server
                client, path = SubprocessGitClient(), dst_path

            def update_refs(old):
                return dict(refs)

            def gen(have, want, ofs_delta=False, progress=None):
                return src.generate_pack_data(have, want, ofs_delta=ofs_delta, progress=progress)
            try:
                client.send_pack(path, update_refs, gen, progress=lambda x: None)
            finally:
                if srv:
                    srv.close()
        finally:
            src.close()

    shapes = ["linear", "crisscross", "roots+tags", "deltas", "gitlink-own"]
    transports = ["local", "tcp", "http", "git-upload-pack"]
    with tempfile.TemporaryDirectory() as d:
        n = 0
        for shape in shapes:
            objs, commits, refs, children, dangling = history(shape)
            dangling_ids = {o.id for o in dangling}
            cnames = list(commits)
            par = {k: [p for p in cnames if commits[p].id in commits[k].parents] for k in cnames}
            # ancestor-closed subsets of the commits = possible receiver states
            states = []
            for r_ in range(0, len(cnames) + 1):
                for sub in itertools.combinations(cnames, r_):
                    if all(p in sub for c in sub for p in par[c]):
                        states.append(sub)
            if tier == "quick":
                states = states[::2] if len(states) > 6 else states
            # -------- MissingObjectFinder directly, all (haves, wants)
            src_path = os.path.join(d, f"src_{shape}")
            src = install(src_path, list(objs.values()) + dangling, refs, pack_mode="deltified" if shape == "deltas" else None)
            for have in states:
                for want in states:
                    cases += 1
                    hv = [commits[c].id for c in have]
                    wt = [commits[c].id for c in want]
                    try:
                        sent = {x[0] if isinstance(x, tuple) else x for x in MissingObjectFinder(src.object_store, haves=hv, wants=wt)}
                    except Exception as e:  # noqa: BLE001
                        fail("MissingObjectFinder raised", {"history": shape, "have": list(have), "want": list(want), "exc": repr(e)[:200]})
                        continue
                    need = closure(children, wt)
                    has = closure(children, hv)
                    if not need <= (sent | has):
                        fail("MissingObjectFinder: closure(wants) not covered by the objects sent plus what the receiver has", {"history": shape, "have": list(have), "want": list(want),
                                                                                                                               "missing": [objs[m].type_name.decode() + ":" + m.decode()[:8] for m in need - sent - has][:5]})
                    if not sent <= need:
                        fail("MissingObjectFinder: sends an object outside closure(wants)", {"history": shape, "have": list(have), "want": list(want), "extra": [x.decode()[:8] for x in sent - need][:5]})
            # -------- a client asking for an object no ref points at (the dangling commit): the dulwich servers must refuse, or at
            #          least deliver nothing outside the closure of what they advertise
            for transport in ("tcp", "http"):
                n += 1
                cases += 1
                what = {"history": shape, "transport": transport, "direction": "fetch", "client_wants": "a dangling commit (present on the server, not advertised)"}
                dst_path = os.path.join(d, f"dst{n}")
                install(dst_path, [], {}).close()
                dstr = Repo(dst_path)
                srv = None
                try:
                    srv = TcpServer(src) if transport == "tcp" else HttpServer(src)
                    client = TCPGitClient("127.0.0.1", port=srv.port) if transport == "tcp" else HttpGitClient(f"http://127.0.0.1:{srv.port}/")
                    try:
                        client.fetch("/", dstr, determine_wants=lambda refs_, depth=None: [dangling[2].id], progress=lambda x: None)
                    except Exception:  # noqa: BLE001
                        pass                                   # refused: fine
                    advertised = closure(children, refs.values())
                    leaked = [x for x in dstr.object_store if x not in advertised]
                    if leaked:
                        fail("the server sent objects that are unreachable from the refs it advertises", dict(what, leaked=[x.decode()[:8] for x in leaked][:5]))
                except Exception as e:  # noqa: BLE001
                    if isinstance(e, (OSError, ImportError)) and "refused" in repr(e).lower():
                        skipped[f"{transport}:{type(e).__name__}"] = skipped.get(f"{transport}:{type(e).__name__}", 0) + 1
                    else:
                        fail("unadvertised-want probe raised", dict(what, exc=repr(e)[:200]))
                finally:
                    if srv:
                        srv.close()
                    dstr.close()
                    shutil.rmtree(dst_path, ignore_errors=True)
            # -------- end to end
            for transport in transports:
                for have in states:
                    for direction in ("fetch", "push"):
                        n += 1
                        cases += 1
                        what = {"history": shape, "transport": transport, "direction": direction, "receiver_has": list(have)}
                        dst_path = os.path.join(d, f"dst{n}")
                        have_objs = [objs[x] for x in closure(children, [commits[c].id for c in have])]
                        have_refs = {b"refs/heads/h-" + c.encode(): commits[c].id for c in have}
                        dst = install(dst_path, have_objs, have_refs, pack_mode="packed" if shape == "deltas" else None)
                        had_before = list(have_refs.values())
                        try:
                            if direction == "fetch":
                                dst.close()
                                got_refs = do_fetch(transport, src_path, dst_path, src)
                                if set(got_refs) != set(refs) or any(got_refs[k] != refs[k] for k in refs):
                                    fail("fetch did not report the sender's refs", dict(what, got=sorted(k.decode() for k in got_refs)))
                                check_receiver(dst_path, objs, children, refs, had_before, what, dangling_ids)
                            else:
                                if transport in ("tcp", "http"):
                                    do_push(transport, src_path, dst_path, dst, refs)
                                    dst.close()
                                else:
                                    dst.close()
                                    do_push(transport, src_path, dst_path, None, refs)
                                check_receiver(dst_path, objs, children, refs, had_before, what, dangling_ids)
                        except Exception as e:  # noqa: BLE001
                            key = f"{transport}:{type(e).__name__}"
                            if transport in ("tcp", "http") and isinstance(e, (OSError, ImportError)) and "refused" in repr(e).lower():
                                skipped[key] = skipped.get(key, 0) + 1
                            else:
                                fail("transfer raised", dict(what, exc=repr(e)[:300]))
                        finally:
                            try:
                                dst.close()
                            except Exception:  # noqa: BLE001
                                pass
                            shutil.rmtree(dst_path, ignore_errors=True)
            # -------- capability sets withheld by the client (thorough tier): every receiver state again, fetch only
            if tier == "thorough":
                for caps in ([b"thin-pack"], [b"ofs-delta"], [b"multi_ack_detailed"], [b"multi_ack_detailed", b"multi_ack"], [b"side-band-64k"],
                             [b"thin-pack", b"ofs-delta", b"multi_ack_detailed", b"multi_ack", b"side-band-64k"]):
                    for transport in ("tcp", "http", "git-upload-pack"):
                        for have in states:
                            n += 1
                            cases += 1
                            what = {"history": shape, "transport": transport, "direction": "fetch", "receiver_has": list(have), "client_withholds": [c.decode() for c in caps]}
                            dst_path = os.path.join(d, f"cap{n}")
                            have_objs = [objs[x] for x in closure(children, [commits[c].id for c in have])]
                            have_refs = {b"refs/heads/h-" + c.encode(): commits[c].id for c in have}
                            dst = install(dst_path, have_objs, have_refs)
                            dst.close()
                            CAPS[0] = caps
                            try:
                                do_fetch(transport, src_path, dst_path, src)
                                check_receiver(dst_path, objs, children, refs, list(have_refs.values()), what, dangling_ids)
                            except Exception as e:  # noqa: BLE001
                                if transport in ("tcp", "http") and set(caps) & {b"thin-pack", b"ofs-delta", b"side-band-64k"}:
                                    # dulwich's upload-pack REQUIRES these three from its clients (UploadPackHandler.required_capabilities):
                                    # the fetch is refused, not unsuccessful-but-reported-successful; C05 speaks about successful transfers
                                    skipped["refused: required capability withheld"] = skipped.get("refused: required capability withheld", 0) + 1
                                else:
                                    # with capabilities withheld a transfer that RAISES is not a successful transfer, and C05 speaks about
                                    # successful ones only (observed on the unchanged tree: dulwich's client cannot negotiate without multi_ack -
                                    # IndexError on a plain "ACK <sha>", and mis-frames the stream without side-band; DESIGN.md 12.3): counted, not failed
                                    key = "raised with capabilities withheld: " + type(e).__name__
                                    skipped[key] = skipped.get(key, 0) + 1
                            finally:
                                CAPS[0] = None
                                shutil.rmtree(dst_path, ignore_errors=True)
            # -------- C git as the client against the dulwich TCP server (clone + incremental fetch)
            for have in states[:: max(1, len(states) // 4)]:
                cases += 1
                what = {"history": shape, "transport": "C git client -> dulwich TCP server", "receiver_has": list(have)}
                dst_path = os.path.join(d, f"gitdst{n}_{len(have)}")
                have_objs = [objs[x] for x in closure(children, [commits[c].id for c in have])]
                have_refs = {b"refs/heads/h-" + c.encode(): commits[c].id for c in have}
                dst = install(dst_path, have_objs, have_refs)
                dst.close()
                srv = TcpServer(src)
                try:
                    pr = subprocess.run(["git", "-C", dst_path, "fetch", "-q", f"git://127.0.0.1:{srv.port}/", "+refs/*:refs/*"], capture_output=True, timeout=60)
                    if pr.returncode != 0:
                        fail("C git client failed against the dulwich server", dict(what, stderr=pr.stderr.decode()[-300:]))
                    else:
                        check_receiver(dst_path, objs, children, refs, list(have_refs.values()), what, dangling_ids)
                except subprocess.TimeoutExpired:
                    fail("C git client hung against the dulwich server", what)
                finally:
                    srv.close()
                    shutil.rmtree(dst_path, ignore_errors=True)
            # -------- push into a receiver that is complete for its refs but ALSO holds a stray, unreachable copy of a pushed tip commit
            #          (e.g. left by an interrupted transfer): the tip's closure must still arrive
            for have in states[:: max(1, len(states) // 3)]:
                for transport in ("local", "git-upload-pack"):
                    n += 1
                    cases += 1
                    what = {"history": shape, "transport": transport, "direction": "push", "receiver_has": list(have), "stray": "tip commit objects without their closure"}
                    dst_path = os.path.join(d, f"stray{n}")
                    have_objs = [objs[x] for x in closure(children, [commits[c].id for c in have])]
                    have_refs = {b"refs/heads/h-" + c.encode(): commits[c].id for c in have}
                    strays = [objs[v] for v in refs.values() if isinstance(objs[v], Commit)]
                    dst = install(dst_path, have_objs + strays, have_refs)
                    dst.close()
                    try:
                        do_push(transport, src_path, dst_path, None, refs)
                        check_receiver(dst_path, objs, children, refs, list(have_refs.values()) + [o.id for o in strays], what, dangling_ids)
                    except Exception as e:  # noqa: BLE001
                        fail("transfer raised", dict(what, exc=repr(e)[:300]))
                    finally:
                        shutil.rmtree(dst_path, ignore_errors=True)
            # -------- clone into nothing
            for transport in ("local", "git-upload-pack"):
                cases += 1
                cl = os.path.join(d, f"clone_{shape}_{transport}")
                try:
                    if transport == "local":
                        porcelain.clone(src_path, cl, bare=True, errstream=NULL)
                    else:
                        r = Repo.init_bare(cl, mkdir=True)
                        res = SubprocessGitClient().fetch(src_path, r, progress=lambda x: None)
                        for k, v in res.refs.items():
                            if k.startswith(b"refs/") and not k.endswith(b"^{}"):
                                r.refs[k] = v
                        r.close()
                    rr = Repo(cl)
                    need = closure(children, refs.values())
                    miss = [x for x in need if x not in rr.object_store]
                    extra = [x for x in rr.object_store if x not in need]
                    rr.close()
                    if miss or extra:
                        fail("clone is not exactly the closure of the sender's refs", {"history": shape, "transport": transport, "missing": len(miss), "extra": [x.decode()[:8] for x in extra][:4]})
                except Exception as e:  # noqa: BLE001
                    fail("clone raised", {"history": shape, "transport": transport, "exc": repr(e)[:300]})
            # -------- porcelain: clone an OLDER state of the sender (its first ref only), then fetch / pull from the full sender:
            #          whatever refs exist in the receiver afterwards, none may point at a missing object (completeness is closed
            #          under successful transfers), and the closure of every ref is readable
            first_ref = sorted(k for k in refs if k.startswith(b"refs/heads/"))[-1]
            for verb in ("fetch", "pull"):
                cases += 1
                old_path = os.path.join(d, f"older_{shape}_{verb}")
                cl = os.path.join(d, f"pp_{shape}_{verb}")
                try:
                    sub_objs = [objs[x] for x in closure(children, [refs[first_ref]])]
                    older = install(old_path, sub_objs, {b"refs/heads/main": refs[first_ref]})
                    older.close()
                    porcelain.clone(old_path, cl, errstream=NULL).close()
                    # the remote moves on: all objects and all refs of the full history appear
                    older = Repo(old_path)
                    for o in objs.values():
                        older.object_store.add_object(o)
                    for k, v in refs.items():
                        older.refs[k] = v
                    older.close()
                    if verb == "fetch":
                        porcelain.fetch(cl, errstream=NULL, outstream=NULL_TEXT)
                    else:
                        try:
                            porcelain.pull(cl, errstream=NULL, outstream=NULL)
                        except Exception as e_:  # noqa: BLE001
                            if type(e_).__name__ not in ("DivergedBranches", "Error", "CheckoutError"):
                                raise                      # refusing to merge is not a transfer failure
                    rr = Repo(cl)
                    try:
                        dangling_refs = [(k.decode(), v.decode()[:8]) for k, v in rr.get_refs().items() if v not in rr.object_store]
                        if dangling_refs:
                            fail("after a successful fetch / pull a ref of the receiver points at a missing object", {"history": shape, "porcelain": verb, "refs": dangling_refs[:4]})
                        need = closure(children, [v for v in rr.get_refs().values() if v in children])
                        miss = [x for x in need if x not in rr.object_store]
                        if miss:
                            fail("receiver is incomplete after porcelain fetch / pull", {"history": shape, "porcelain": verb, "missing": len(miss)})
                    finally:
                        rr.close()
                except Exception as e:  # noqa: BLE001
                    fail("porcelain fetch / pull scenario raised", {"history": shape, "porcelain": verb, "exc": repr(e)[:300]})
            src.close()
        # -------- shallow receivers: main c0<-c1<-c2<-c3, side forks below the boundary: c1<-s1<-s2
        def shallow_history():
            objs2 = {}

            def add2(*os_):
                for o in os_:
                    objs2[o.id] = o
                return os_[0]
            cs = {}
            prev = []
            for i in range(4):
                c = add2(mk_commit(add2(tree([(b"f", 0o100644, add2(blob(b"main %d\n" % i)))])), prev, b"c%d" % i, i))
                cs[f"c{i}"] = c
                prev = [c]
            prev = [cs["c1"]]
            for i in (1, 2):
                c = add2(mk_commit(add2(tree([(b"g", 0o100644, add2(blob(b"side %d\n" % i)))])), prev, b"s%d" % i, 10 + i))
                cs[f"s{i}"] = c
                prev = [c]
            return objs2, cs
        objs2, cs = shallow_history()
        src2_path = os.path.join(d, "src_shallow")
        src2 = install(src2_path, list(objs2.values()), {b"refs/heads/main": cs["c3"].id, b"refs/heads/side": cs["s2"].id})

        def objects_of(commit_names):
            out = set()
            for nm in commit_names:
                c = cs[nm]
                out.add(c.id)
                out.add(c.tree)
                out.update(e.sha for e in objs2[c.tree].iteritems())
            return out
        for label, transport, depth, expect in (("non-depth fetch of a branch forking below the boundary", "git-upload-pack", None, ["s2", "s1", "c1", "c0"]),
                                                 ("non-depth fetch of a branch forking below the boundary", "local", None, ["s2", "s1", "c1", "c0"]),
                                                 ("depth-2 fetch of a branch forking below the boundary", "tcp", 2, ["s2", "s1"]),
                                                 ("depth-2 fetch of a branch forking below the boundary", "git-upload-pack", 2, ["s2", "s1"]),
                                                 ("depth-3 fetch of a branch forking below the boundary", "tcp", 3, ["s2", "s1", "c1"])):
            cases += 1
            what = {"history": "main c0..c3, side forks at c1", "receiver": "depth-1 clone of main", "fetch": label, "transport": transport}
            dst_path = os.path.join(d, f"shallow_{transport}_{depth}")
            dst = Repo.init_bare(dst_path, mkdir=True)
            srv = None
            try:
                # 1. the receiver becomes a depth-1 clone of main (through C git's upload-pack, the reference implementation)
                res = SubprocessGitClient().fetch(src2_path, dst, determine_wants=lambda refs_, depth=None: [refs_[b"refs/heads/main"]], depth=1, progress=lambda x: None)
                dst.refs[b"refs/heads/main"] = cs["c3"].id
                if cs["c2"].id in dst.object_store or cs["c3"].id not in dst.object_store:
                    fail("harness: the receiver is not the intended depth-1 clone", what)
                    continue
                # 2. fetch side only
                if transport == "tcp":
                    srv = TcpServer(src2)
                    client, path = TCPGitClient("127.0.0.1", port=srv.port), "/"
                elif transport == "local":
                    client, path = LocalGitClient(), src2_path
                else:
                    client, path = SubprocessGitClient(), src2_path
                kw = {"depth": depth} if depth else {}
                res = client.fetch(path, dst, determine_wants=lambda refs_, depth=None: [refs_[b"refs/heads/side"]], progress=lambda x: None, **kw)
                missing = [x for x in objects_of(expect) if x not in dst.object_store]
                if missing:
                    fail("shallow receiver is incomplete after the fetch", dict(what, missing=[objs2[m].type_name.decode() + ":" + objs2[m].message.decode() if isinstance(objs2[m], Commit) else objs2[m].type_name.decode() for m in missing][:6]))
            except Exception as e:  # noqa: BLE001
                fail("shallow fetch raised", dict(what, exc=repr(e)[:300]))
            finally:
                if srv:
                    srv.close()
                dst.close()
                shutil.rmtree(dst_path, ignore_errors=True)
        src2.close()
    print("\n" + json.dumps({"name": "c05_transfer", "function": "dulwich/object_store.py MissingObjectFinder, client.py fetch/send_pack, server.py upload-pack/receive-pack handlers, web.py", "cases": cases,
                             "exhaustive": True, "bound": "3 histories (linear; criss-cross merges with shared subtrees/blobs; two roots + gitlink + tags of commit/tag/tree/blob) + dangling objects on the sender; "
                             "every ancestor-closed receiver state (every 2nd in quick) x {local, dulwich TCP, dulwich smart HTTP, C git subprocess server} x {fetch, push}; all (haves, wants) pairs for "
                             "MissingObjectFinder; C git client against the dulwich TCP server; clone; pushes into receivers holding stray tip commits; 5 fetches into a depth-1 shallow receiver "
                             "(non-depth and depth 2/3 of a branch forking below the boundary; local, dulwich TCP, C git upload-pack)", "skipped": skipped, "failures": failures, "secs": round(time.time() - t0, 2)}))


if __name__ == "__main__":
    main()

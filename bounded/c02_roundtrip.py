"""Bounded stand-in (C02): (a) object-header / OFS-offset encode->decode for all types over boundary sizes
and offsets, incl. prefix-freeness via take_msb_bytes_at; (b) whole pack + index round trip through zlib and
delta resolution for small object sets x {deltify} x index versions 1,2,3 (64-bit offset table exercised
through write_pack_index with synthetic offsets).  Never counted as proved."""
import itertools
import json
import os
import sys
import tempfile
import time
from io import BytesIO

HERE = os.path.dirname(os.path.dirname(os.path.abspath(__file__)))
sys.path.insert(0, HERE)


def main():
    tier = sys.argv[sys.argv.index("--tier") + 1] if "--tier" in sys.argv else "quick"
    repo = os.environ.get("VERIF_REPO", "/repo")
    from pyvc import native
    native.setup(repo)
    from dulwich.object_format import DEFAULT_OBJECT_FORMAT as FMT
    from dulwich.objects import Blob
    from dulwich import pack as P
    t0 = time.time()
    cases = 0
    failures = []

    def fail(what, detail):
        if len(failures) < 10:
            failures.append({"what": what, "detail": detail})

    vals = sorted(set([0, 1, 15, 16, 17, 127, 128, 2047, 2048, 2049, 65535, 65536, 2 ** 31 - 1, 2 ** 31, 2 ** 32, 2 ** 35 + 5]
                      + [2 ** k + d for k in (4, 7, 11, 14, 18, 21, 25, 28) for d in (-1, 0, 1)]))
    # (a) headers
    for t in (1, 2, 3, 4, 6, 7):
        for size in vals:
            bases = [None]
            if t == 6:
                bases = [v for v in vals if v >= 1]
            if t == 7:
                bases = [bytes(range(20))]
            for base in bases:
                cases += 1
                hdr = bytes(P.pack_object_header(t, base, size, FMT))
                raw, pos, _ = P.take_msb_bytes_at(hdr + b"\xff\x00\x80", 0)
                tt, ss = P._decode_object_header(raw)
                ok = (tt, ss) == (t, size)
                if t == 6:
                    raw2, pos2, _ = P.take_msb_bytes_at(hdr + b"\xff\x00\x80", pos)
                    ok = ok and P._decode_delta_base_offset(raw2) == base and pos2 == len(hdr)
                elif t == 7:
                    ok = ok and hdr[pos:] == base
                else:
                    ok = ok and pos == len(hdr)
                if not ok:
                    fail("object header round trip", {"type": t, "size": size, "base": base if not isinstance(base, bytes) else base.hex()})
    # (b) whole packs
    pool = [b"", b"a", b"a" * 15, b"a" * 16, b"hello world\n" * 200, b"hello world\n" * 199 + b"bye\n", bytes(range(256)) * 9,
            bytes(range(256)) * 9 + b"!", b"x" * 70000]
    k = 3 if tier == "quick" else 4
    combos = [c for r in range(0, k + 1) for c in itertools.combinations(range(len(pool)), r)]
    if tier == "quick":
        combos = combos[::3]
    # deltified pairs whose difference is a literal run of exactly 126..128, 254, 381 bytes (the 127-byte insert limit and its
    # multiples) or a copy starting / sized at a multiple of 256 (zero operand bytes are omitted in copy commands)
    import random as _r
    _rnd = _r.Random(11)
    _base = bytes(_rnd.randrange(128) for _ in range(1200))          # (bytes < 128; the replaced runs use bytes >= 128: no accidental matches)
    pool.append(_base)
    _bi = len(pool) - 1
    for _ln in (126, 127, 128, 254, 381):
        pool.append(_base[:500] + bytes(128 + (5 * j + 1) % 127 for j in range(_ln)) + _base[500 + _ln:])      # (a REPLACED run: whichever object becomes the delta base, the delta holds a literal of that length)
        combos.append((_bi, len(pool) - 1))
    pool.append(b"head" + _base[0x100:0x300] + b"tail")
    combos.append((_bi, len(pool) - 1))
    # the same object named twice (duplicated content): stored once, and the pack opens
    combos += [(1, 1), (1, 1, 2), (4, 2, 4), (0, 0)]
    with tempfile.TemporaryDirectory() as d:
        for ci, combo in enumerate(combos):
            objs = [Blob.from_string(pool[i]) for i in combo]
            want = {o.id: (o.type_num, o.as_raw_string()) for o in objs}
            for deltify in (False, True):
                for ver in (1, 2, 3):
                    cases += 1
                    base = os.path.join(d, f"p{ci}_{int(deltify)}_{ver}")
                    try:
                        f = BytesIO()
                        entries, cksum = P.write_pack_objects(f, objs, deltify=deltify, object_format=FMT)
                        with open(base + ".pack", "wb") as pf:
                            pf.write(f.getvalue())
                        idx_entries = sorted((bytes.fromhex(k2.decode()) if len(k2) == 40 else k2, v[0], v[1]) for k2, v in entries.items())
                        with open(base + ".idx", "wb") as xf:
                            P.write_pack_index(xf, idx_entries, cksum, version=ver)
                        p = P.Pack(base, object_format=FMT)
                        try:
                            p.check()
                            got = {o.id: (o.type_num, o.as_raw_string()) for o in p.iterobjects()}
                            rnd = {sha: (p[sha].type_num, p[sha].as_raw_string()) for sha in want}
                            if got != want or rnd != want or len(p) != len(want):
                                fail("pack round trip", {"objects": list(combo), "deltify": deltify, "index_version": ver})
                        finally:
                            p.close()
                    except Exception as e:  # noqa: BLE001
                        fail("pack round trip raised", {"objects": list(combo), "deltify": deltify, "index_version": ver, "exc": repr(e)[:200]})
        # 64-bit offsets and fan-out through the index alone
        import struct
        names = [bytes([b]) + bytes(19) for b in (0, 0, 1, 0x7f, 0xfe, 0xff)]
        names = sorted({n[:1] + bytes([i]) + n[2:] for i, n in enumerate(names)})
        offs = [12, 2 ** 31 - 1, 2 ** 31, 2 ** 32 + 7, 2 ** 40, 2 ** 31 + 1]
        ents = [(n, o, (i * 2654435761) & 0xFFFFFFFF) for i, (n, o) in enumerate(zip(names, offs))]
        for ver in (2, 3):
            cases += 1
            path = os.path.join(d, f"big{ver}.idx")
            with open(path, "wb") as xf:
                P.write_pack_index(xf, ents, bytes(20), version=ver)
            idx = P.load_pack_index(path, FMT)
            try:
                got = [(n, idx.object_offset(n), None) for n, _, _ in ents]
                if [g[:2] for g in got] != [e[:2] for e in ents] or [e for e in idx.iterentries()] != ents:
                    fail("index 64-bit offsets", {"version": ver})
                idx.check()
            finally:
                idx.close()
    # (d) zlib readers at every slice size: consumed range, CRC and kept compressed bytes are exactly the stream's
    import binascii
    import zlib
    for data in (b"", b"a", b"hello world\n" * 40, bytes(range(256)) * 3):
        for level in (0, 6):
            comp = zlib.compress(data, level)
            for tail in (b"", b"T", b"tail" * 10):
                for bs in list(range(1, len(comp) + 3)) if len(comp) < 200 else [1, 2, 3, 7, 64, len(comp) // 2, len(comp) - 1, len(comp), len(comp) + 1, 4096]:
                    if bs < 1:
                        continue
                    cases += 1
                    try:
                        u = P.UnpackedObject(3, decomp_len=len(data), crc32=0)
                        end = P.read_zlib_chunks_at(b"PRE" + comp + tail, 3, u, include_comp=True, buffer_size=bs)
                        ok = (end == 3 + len(comp) and b"".join(u.decomp_chunks) == data and u.crc32 == binascii.crc32(comp)
                              and b"".join(u.comp_chunks) == comp)
                        src = BytesIO(comp + tail)
                        u2 = P.UnpackedObject(3, decomp_len=len(data), crc32=0)
                        unused = P.read_zlib_chunks(src.read, u2, include_comp=True, buffer_size=bs)
                        # the stream reader cannot know the stream ended until it sees a byte past it, unless the input is exhausted
                        ok2 = (b"".join(u2.decomp_chunks) == data and u2.crc32 == binascii.crc32(comp) and b"".join(u2.comp_chunks) == comp
                               and (comp + tail)[:src.tell()].endswith(bytes(unused)) and src.tell() - len(unused) == len(comp))
                    except zlib.error as e:
                        # documented limitation of the stream reader only: EOF right after the stream's last byte
                        ok, ok2 = (tail != b"" or "EOF" in str(e)) and tail == b"", True
                        if tail != b"":
                            ok = False
                    if not (ok and ok2):
                        fail("zlib reader slice sweep", {"data_len": len(data), "level": level, "tail": len(tail), "buffer_size": bs, "at": ok, "stream": ok2})
    print(json.dumps({"name": "c02_roundtrip", "function": "dulwich/pack.py header codec + write_pack_objects/write_pack_index/Pack", "cases": cases,
                      "exhaustive": True, "bound": f"headers: types 1-4,6,7 x {len(vals)} boundary sizes x boundary offsets; packs: subsets (<= {k}) of a 9-blob pool "
                      "x deltify x index v1/v2/v3; synthetic index with offsets >= 2^31 and 2^32", "failures": failures, "secs": round(time.time() - t0, 2)}))


if __name__ == "__main__":
    main()

"""Bounded stand-in (C06): the in-process push path (LocalGitClient.send_pack) and pushes to a dulwich TCP server over small
command lists, with a racing pusher that moves refs between the ref listing and the update (inside the update_refs callback):
 - a ref is reported ok  <=>  it now holds the requested value (deletes: is gone, also after re-opening: loose + packed copies);
 - a ref whose value changed since the listing is rejected and keeps the racer's value;
 - no target ref names an object the target does not have (the pack sent may be empty).
Never counted as proved."""
import itertools
import json
import os
import sys
import tempfile
import threading
import time

HERE = os.path.dirname(os.path.dirname(os.path.abspath(__file__)))
sys.path.insert(0, HERE)


def main():
    tier = sys.argv[sys.argv.index("--tier") + 1] if "--tier" in sys.argv else "quick"
    repo = os.environ.get("VERIF_REPO", "/repo")
    from pyvc import native
    native.setup(repo)
    from dulwich.client import LocalGitClient, TCPGitClient
    from dulwich.objects import Blob, Commit, Tree
    from dulwich.protocol import ZERO_SHA
    from dulwich.repo import Repo
    from dulwich.server import DictBackend, TCPGitServer
    t0 = time.time()
    cases = 0
    failures = []
    skipped = {}

    def fail(what, detail):
        if len(failures) < 20 and sum(1 for f in failures if f["what"] == what) < 3:
            failures.append({"what": what, "detail": detail})

    def mk(store, msg, parents=()):
        b = Blob.from_string(b"content " + msg)
        t = Tree()
        t.add(b"f", 0o100644, b.id)
        c = Commit()
        c.tree = t.id
        c.parents = list(parents)
        c.author = c.committer = b"a <a@b>"
        c.author_time = c.commit_time = 1700000000
        c.author_timezone = c.commit_timezone = 0
        c.message = msg
        for o in (b, t, c):
            store.add_object(o)
        return c.id

    M, S, X, Y = b"refs/heads/main", b"refs/heads/side", b"refs/heads/x", b"refs/heads/y"
    # what the pusher asks for: ref -> "c3" (a commit the source has), "missing" (a commit nobody sends), "del"
    requests = [{M: "c3"}, {X: "c3"}, {S: "del"}, {M: "del"}, {M: "c3", S: "del"}, {X: "c3", Y: "c3"}, {X: "missing"}, {M: "missing", X: "c3"}, {M: "c3", X: "c3", S: "del"}]
    # what the racing pusher does to the TARGET after the client listed the refs
    races = [None, ("set", M, "r"), ("set", S, "r"), ("del", S), ("del", M), ("set", X, "r"), ("pack",)]
    transports = ["local"] + (["tcp"] if tier else [])
    with tempfile.TemporaryDirectory() as d:
        n = 0
        for transport in transports:
            for req in requests:
                for race in races:
                    for atomic in (False, True):
                        if transport == "tcp" and (race is not None or atomic):
                            continue                      # (no hook between listing and update on the wire client)
                        n += 1
                        cases += 1
                        what = {"transport": transport, "request": {k.decode(): v for k, v in req.items()}, "race": list(map(lambda x: x.decode() if isinstance(x, bytes) else x, race)) if race else None, "atomic": atomic}
                        src = Repo.init_bare(os.path.join(d, f"s{n}"), mkdir=True)
                        dst = Repo.init_bare(os.path.join(d, f"t{n}"), mkdir=True)
                        try:
                            c1 = mk(src.object_store, b"c1")
                            c2 = mk(src.object_store, b"c2", [c1])
                            c3 = mk(src.object_store, b"c3", [c2])
                            for oid in src.object_store:
                                if oid != c3 and oid != src[c3].tree and oid != src[src[c3].tree][b"f"][1]:
                                    dst.object_store.add_object(src[oid])
                            racer_commit = mk(dst.object_store, b"racer", [c1])
                            missing = b"d" * 40
                            dst.refs[M] = c1
                            dst.refs[S] = c2
                            dst.refs.pack_refs(all=True)
                            dst.refs[M] = c2                     # main: loose value over a stale packed one; side: packed only
                            val = {"c3": c3, "missing": missing, "del": ZERO_SHA, "r": racer_commit}
                            after_race = {}

                            def update_refs(old):
                                if race is not None:
                                    racer = Repo(dst.path)
                                    try:
                                        if race[0] == "set":
                                            racer.refs[race[1]] = val[race[2]]
                                        elif race[0] == "del":
                                            if race[1] in racer.refs:
                                                del racer.refs[race[1]]
                                        else:
                                            racer.refs.pack_refs(all=True)
                                    finally:
                                        racer.close()
                                probe = Repo(dst.path)
                                after_race.update({k: v for k, v in probe.refs.as_dict().items() if k != b"HEAD"})
                                probe.close()
                                return {k: val[v] for k, v in req.items()}        # (only the refs named by the pusher)

                            def gen(have, want, ofs_delta=False, progress=None):
                                want = [w for w in want if w in src.object_store]
                                return src.generate_pack_data(have, want, progress=progress, ofs_delta=ofs_delta)
                            srv = None
                            listed = {k: v for k, v in dst.refs.as_dict().items() if k != b"HEAD"}
                            try:
                                if transport == "local":
                                    kw = {"atomic": True} if atomic else {}
                                    res = LocalGitClient().send_pack(dst.path, update_refs, gen, **kw)
                                else:
                                    srv = TCPGitServer(DictBackend({b"/": dst}), b"127.0.0.1", 0)
                                    th = threading.Thread(target=srv.serve_forever, daemon=True)
                                    th.start()
                                    res = TCPGitClient("127.0.0.1", port=srv.server_address[1]).send_pack(b"/", update_refs, gen)
                                status = dict(res.ref_status or {})
                                raised = None
                            except Exception as e:  # noqa: BLE001
                                status, raised = None, e
                                if transport == "tcp" and isinstance(e, OSError) and "refused" in repr(e).lower():
                                    skipped["tcp:refused"] = skipped.get("tcp:refused", 0) + 1
                                    continue
                            finally:
                                if srv:
                                    srv.shutdown()
                                    srv.server_close()
                            fresh = Repo(dst.path)
                            try:
                                now = {k: v for k, v in fresh.refs.as_dict().items() if k != b"HEAD"}
                                for k, v in now.items():
                                    if v not in fresh.object_store:
                                        fail("after the push a target ref names an object the target does not have", dict(what, ref=k.decode(), reported=None if status is None else repr(status.get(k))))
                                for k, rq in req.items():
                                    want_v = val[rq]
                                    holds = (k not in now) if rq == "del" else (now.get(k) == want_v)
                                    reported_ok = status is not None and status.get(k) is None
                                    stale = after_race.get(k) != listed.get(k)
                                    if reported_ok and not holds:
                                        fail("a ref is reported ok but does not hold the requested value", dict(what, ref=k.decode(), now=now.get(k, b"<absent>").decode()))
                                    if stale and holds and ((rq == "del" and k in after_race) or (rq != "del" and want_v != after_race.get(k))):
                                        fail("a ref that changed after the listing was updated all the same (the racing pusher's value is lost)", dict(what, ref=k.decode()))
                                    if stale and reported_ok and not (rq == "del" and k not in after_race):
                                        fail("a ref that changed after the listing is reported ok", dict(what, ref=k.decode()))
                                    if not reported_ok and status is not None and not holds and now.get(k) != after_race.get(k):
                                        fail("a rejected ref was modified", dict(what, ref=k.decode(), before=after_race.get(k, b"<absent>").decode(), now=now.get(k, b"<absent>").decode()))
                                if atomic and status is not None and any(v is not None for v in status.values()):
                                    if any(now.get(k) != after_race.get(k) for k in req):
                                        fail("an atomic push that reported a failure applied some of its updates", dict(what, status={k.decode(): repr(v) for k, v in status.items()}))
                            finally:
                                fresh.close()
                        except Exception as e:  # noqa: BLE001
                            fail("push scenario raised (harness)", dict(what, exc=repr(e)[:200]))
                        finally:
                            src.close()
                            dst.close()
    print(json.dumps({"name": "c06_push", "function": "dulwich/client.py LocalGitClient.send_pack, dulwich/server.py ReceivePackHandler (TCP), dulwich/refs.py conditional updates",
                      "cases": cases, "exhaustive": True, "skipped": skipped,
                      "bound": f"{len(requests)} command lists (create / update / delete, new value missing on both sides, several refs) x {len(races)} racing actions between listing and "
                               "update x atomic on/off on the local path; the same command lists over a loopback TCP server; target with a loose-over-packed and a packed-only ref",
                      "failures": failures, "secs": round(time.time() - t0, 2)}))


if __name__ == "__main__":
    main()

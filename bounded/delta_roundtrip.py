"""Bounded stand-in (C03): apply_delta(base, create_delta(base, target)) == target with the pure-Python
codec over the finite domain `delta_pairs`; also checks the assumed difflib contract on every case.
Never counted as proved."""
import json
import os
import sys
import time

HERE = os.path.dirname(os.path.dirname(os.path.abspath(__file__)))
sys.path.insert(0, HERE)


def main():
    tier = sys.argv[sys.argv.index("--tier") + 1] if "--tier" in sys.argv else "quick"
    repo = os.environ.get("VERIF_REPO", "/repo")
    from pyvc import native
    native.setup(repo)
    from difflib import SequenceMatcher
    from dulwich.pack import _create_delta_py, apply_delta
    from bounded import domains
    gen, bound = domains.DOMAINS["delta_pairs"](tier)
    t0 = time.time()
    cases = 0
    failures = []
    for case in gen:
        base, target = case["base_buf"], case["target_buf"]
        cases += 1
        try:
            delta = b"".join(_create_delta_py(base, target))
            out = b"".join(apply_delta(base, delta))
            ok = out == target
            why = "decoded != target"
        except Exception as e:  # noqa: BLE001
            ok = False
            why = f"{type(e).__name__}: {e}"
        if ok:
            for op, i1, i2, j1, j2 in SequenceMatcher(isjunk=None, a=base, b=target).get_opcodes():
                if op in ("replace", "insert") and j2 <= j1:
                    ok, why = False, "assumed difflib contract violated: empty replace/insert block"
                if op == "equal" and base[i1:i2] != target[j1:j2]:
                    ok, why = False, "assumed difflib contract violated: unequal 'equal' block"
        if not ok and len(failures) < 10:
            failures.append({"function": "dulwich/pack.py:_create_delta_py", "obligation": "lemma:delta_roundtrip(bounded)",
                             "clause": "join(apply_delta(base, join(create_delta(base, target)))) == target",
                             "inputs": {"base_buf": native.encode_value(base), "target_buf": native.encode_value(target)}, "detail": {"why": why}})
    print(json.dumps({"name": "delta_roundtrip@delta_pairs", "function": "dulwich/pack.py:_create_delta_py + apply_delta", "bound": bound,
                      "cases": cases, "exhaustive": True, "failures": failures, "secs": round(time.time() - t0, 2)}))


if __name__ == "__main__":
    main()

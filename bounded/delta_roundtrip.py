"""Bounded stand-in (C03): apply_delta(base, create_delta(base, target)) == target with the pure-Python
codec over the finite domain `delta_pairs`; also checks the assumed difflib contract on every case.
Never counted as proved."""
import json
import os
import sys
import time

HERE = os.path.dirname(os.path.dirname(os.path.abspath(__file__)))
sys.path.insert(0, HERE)


def main():
    tier = sys.argv[sys.argv.index("--tier") + 1] if "--tier" in sys.argv else "quick"
    repo = os.environ.get("VERIF_REPO", "/repo")
    from pyvc import native
    native.setup(repo)
    from difflib import SequenceMatcher
    from dulwich.pack import _create_delta_py, apply_delta
    from bounded import domains
    gen, bound = domains.DOMAINS["delta_pairs"](tier)
    t0 = time.time()
    cases = 0
    failures = []
    def directed():
        # literal runs around the 127-byte insert limit and its multiples; copies whose offset / size have a zero low byte (0x100,
        # 0x200: git omits zero operand bytes)
        import random
        rnd = random.Random(5)
        blk = bytes(rnd.randrange(256) for _ in range(0x500))
        for ln in (1, 126, 127, 128, 253, 254, 255, 381, 508, 509):
            fresh = bytes((7 * k + 3) % 251 for k in range(ln))
            yield {"base_buf": blk[:1200], "target_buf": blk[:600] + fresh + blk[600:1200]}
            yield {"base_buf": blk[:1200], "target_buf": fresh + blk[:1200]}
            yield {"base_buf": b"", "target_buf": fresh}
        for off in (0xFF, 0x100, 0x101, 0x200):
            for size in (0xFF, 0x100, 0x200, 0x101):
                yield {"base_buf": blk[:0x500], "target_buf": b"head" + blk[off:off + size] + b"tail"}
    import itertools
    for case in itertools.chain(gen, directed()):
        base, target = case["base_buf"], case["target_buf"]
        cases += 1
        try:
            delta = b"".join(_create_delta_py(base, target))
            out = b"".join(apply_delta(base, delta))
            ok = out == target
            why = "decoded != target"
        except Exception as e:  # noqa: BLE001
            ok = False
            why = f"{type(e).__name__}: {e}"
        if ok and len(base) + len(target) < 5000:
            for op, i1, i2, j1, j2 in SequenceMatcher(isjunk=None, a=base, b=target).get_opcodes():
                if op in ("replace", "insert") and j2 <= j1:
                    ok, why = False, "assumed difflib contract violated: empty replace/insert block"
                if op == "equal" and base[i1:i2] != target[j1:j2]:
                    ok, why = False, "assumed difflib contract violated: unequal 'equal' block"
        if not ok and len(failures) < 10:
            failures.append({"function": "dulwich/pack.py:_create_delta_py", "obligation": "lemma:delta_roundtrip(bounded)",
                             "clause": "join(apply_delta(base, join(create_delta(base, target)))) == target",
                             "inputs": {"base_buf": native.encode_value(base), "target_buf": native.encode_value(target)}, "detail": {"why": why}})
    print(json.dumps({"name": "delta_roundtrip@delta_pairs", "function": "dulwich/pack.py:_create_delta_py + apply_delta", "bound": bound + "; directed: insert runs of 1..509 bytes around multiples of 127, copies at offsets / sizes 0xFF..0x200",
                      "cases": cases, "exhaustive": True, "failures": failures, "secs": round(time.time() - t0, 2)}))


if __name__ == "__main__":
    main()

"""Bounded stand-in (C10): maintenance never loses reachable objects.
Repositories are built by ALL sequences of <= K set-up operations from {commit on main (loose), commit on a side branch,
pack loose objects, add a second pack holding a duplicate of an existing object, annotated tag, delete the side branch,
move main back one commit, detach HEAD at the current commit and move main back, add a dangling (unreachable) commit,
stage a blob in the index without committing}, followed by each maintenance operation from {pack_loose_objects, repack,
gc grace 0, gc grace None, gc default grace, prune_unreachable_objects grace 0, pack_refs, write midx + commit-graph
then gc}.  After the maintenance operation, in the same process and in a freshly opened repository:
 - every object reachable from any ref or HEAD (closure computed by the harness before the operation) is readable and
   byte-identical;  ref values and HEAD are unchanged;
 - with a grace period that is not 0 nothing disappears at all (every object is younger than the grace period);
 - only unreachable objects may disappear.
The sequential half of C10 only: readers interleaved with a repacking process are outside this stand-in.
Never counted as proved."""
import itertools
import json
import os
import sys
import tempfile
import time

HERE = os.path.dirname(os.path.dirname(os.path.abspath(__file__)))
sys.path.insert(0, HERE)


def main():
    tier = sys.argv[sys.argv.index("--tier") + 1] if "--tier" in sys.argv else "quick"
    repo_src = os.environ.get("VERIF_REPO", "/repo")
    from pyvc import native
    native.setup(repo_src)
    from dulwich import gc as G
    from dulwich.objects import Blob, Commit, Tag, Tree
    from dulwich.repo import Repo
    t0 = time.time()
    cases = 0
    failures = []

    def fail(what, detail):
        if len(failures) < 40 and sum(1 for f in failures if f["what"] == what) < 3:
            failures.append({"what": what, "detail": detail})
    counter = [0]

    def new_commit(r, parents, label):
        counter[0] += 1
        b = Blob.from_string(b"blob %d %s\n" % (counter[0], label))
        sub = Tree()
        sub.add(b"inner", 0o100644, b.id)
        tr = Tree()
        tr.add(b"f", 0o100644, b.id)
        tr.add(b"d", 0o40000, sub.id)
        c = Commit()
        c.tree = tr.id
        c.parents = list(parents)
        c.author = c.committer = b"a <a@b>"
        c.author_time = c.commit_time = 1700000000 + counter[0]
        c.author_timezone = c.commit_timezone = 0
        c.message = label
        for o in (b, sub, tr, c):
            r.object_store.add_object(o)
        return c.id

    def head_of(r, ref):
        try:
            return r.refs[ref]
        except KeyError:
            return None

    # ---- set-up operations
    def op_commit_main(r):
        h = head_of(r, b"refs/heads/main")
        r.refs[b"refs/heads/main"] = new_commit(r, [h] if h else [], b"main")

    def op_commit_side(r):
        h = head_of(r, b"refs/heads/side") or head_of(r, b"refs/heads/main")
        r.refs[b"refs/heads/side"] = new_commit(r, [h] if h else [], b"side")

    def op_pack_loose(r):
        r.object_store.pack_loose_objects()

    def op_dup_pack(r):
        # a second pack holding a duplicate of an existing object next to a new one
        h = head_of(r, b"refs/heads/main")
        if h is None:
            return
        c = r.object_store[h]
        new = Blob.from_string(b"in second pack %d\n" % counter[0])
        counter[0] += 1
        tr = Tree()
        tr.add(b"only-in-pack2", 0o100644, new.id)
        c2 = Commit()
        c2.tree = tr.id
        c2.parents = [h]
        c2.author = c2.committer = b"a <a@b>"
        c2.author_time = c2.commit_time = 1700000000 + counter[0]
        c2.author_timezone = c2.commit_timezone = 0
        c2.message = b"pack2"
        r.object_store.add_objects([(c, None), (r.object_store[c.tree], None), (new, None), (tr, None), (c2, None)])
        r.refs[b"refs/heads/main"] = c2.id

    def op_tag(r):
        h = head_of(r, b"refs/heads/main")
        if h is None:
            return
        t = Tag()
        t.name = b"v%d" % counter[0]
        counter[0] += 1
        t.object = (Commit, h)
        t.tagger = b"a <a@b>"
        t.tag_time = 1700000000
        t.tag_timezone = 0
        t.message = b"t\n"
        r.object_store.add_object(t)
        r.refs[b"refs/tags/" + t.name] = t.id

    def op_tag_of_tag(r):
        # refs/tags/outerN -> tag -> tag -> commit; the inner tag has no ref of its own
        h = head_of(r, b"refs/heads/main")
        if h is None:
            return
        inner = Tag()
        inner.name = b"inner%d" % counter[0]
        inner.object = (Commit, h)
        outer = Tag()
        outer.name = b"outer%d" % counter[0]
        counter[0] += 1
        for t in (inner, outer):
            t.tagger = b"a <a@b>"
            t.tag_time = 1700000000
            t.tag_timezone = 0
            t.message = b"t\n"
        r.object_store.add_object(inner)
        outer.object = (Tag, inner.id)
        r.object_store.add_object(outer)
        r.refs[b"refs/tags/" + outer.name] = outer.id

    def op_delete_side(r):
        if head_of(r, b"refs/heads/side"):
            del r.refs[b"refs/heads/side"]

    def op_main_back(r):
        h = head_of(r, b"refs/heads/main")
        if h and r.object_store[h].parents:
            r.refs[b"refs/heads/main"] = r.object_store[h].parents[0]

    def op_detach(r):
        h = head_of(r, b"refs/heads/main")
        if h and r.object_store[h].parents:
            r.refs[b"HEAD"] = h                       # detached at the tip ...
            r.refs[b"refs/heads/main"] = r.object_store[h].parents[0]      # ... which only HEAD keeps alive now

    def op_dangling(r):
        new_commit(r, [], b"dangling")

    def op_stage(r):
        b = Blob.from_string(b"staged only %d\n" % counter[0])
        counter[0] += 1
        r.object_store.add_object(b)
        from dulwich.index import IndexEntry
        idx = r.open_index()
        idx[b"staged"] = IndexEntry((0, 0), (0, 0), 0, 0, 0o100644, 0, 0, len(b.data), b.id)
        idx.write()
    def op_octopus(r):
        # a merge with three parents; the third one is kept alive by the merge only
        h = head_of(r, b"refs/heads/main")
        if h is None:
            return
        tips = [new_commit(r, [h], b"topic%d" % i) for i in range(3)]
        r.refs[b"refs/heads/main"] = new_commit(r, tips, b"octopus")

    def op_age_everything(r):
        # everything written so far becomes 30 days old (packs, indexes, loose objects)
        old_t = time.time() - 30 * 86400
        objdir = os.path.join(r.path, ".git", "objects")
        for dp, _dns, fns in os.walk(objdir):
            for fn in fns:
                os.utime(os.path.join(dp, fn), (old_t, old_t))
        AGED[0] = set(r.object_store)
        YOUNG.clear()       # the fresh copies written before this step are 30 days old now as well

    def op_readd_dangling(r):
        # an unreachable object that already exists (possibly packed, possibly old) is written again: its loose copy is fresh
        b = Blob.from_string(b"dangling, written twice\n")
        first = b.id not in r.object_store
        r.object_store.add_object(b)
        if first:
            r.object_store.pack_loose_objects()
            op_age_everything(r)
            r.object_store.add_object(Blob.from_string(b"dangling, written twice\n"))
        YOUNG.add(b.id)
    AGED = [set()]
    YOUNG = set()
    SETUP = [op_commit_main, op_commit_side, op_pack_loose, op_dup_pack, op_tag, op_delete_side, op_main_back, op_detach, op_dangling, op_stage, op_octopus, op_age_everything, op_readd_dangling, op_tag_of_tag]

    # ---- maintenance operations: (name, function, may_remove_unreachable)
    def m_pack_loose(r):
        r.object_store.pack_loose_objects()

    def m_repack(r):
        r.object_store.repack()

    def m_gc0(r):
        G.garbage_collect(r, grace_period=0)

    def m_gc_none(r):
        G.garbage_collect(r, grace_period=None)

    def m_gc_default(r):
        G.garbage_collect(r)

    def m_prune0(r):
        G.prune_unreachable_objects(r.object_store, r.refs, grace_period=0)

    def m_prune_day(r):
        G.prune_unreachable_objects(r.object_store, r.refs, grace_period=86400)

    def m_pack_refs(r):
        r.refs.pack_refs(all=True)

    def m_accel_gc(r):
        r.object_store.pack_loose_objects()
        r.object_store.write_midx()
        r.object_store.write_commit_graph()
        G.garbage_collect(r, grace_period=0)
    MAINT = [("pack_loose_objects", m_pack_loose, False), ("repack", m_repack, False), ("gc grace=0", m_gc0, True), ("gc grace=None", m_gc_none, True),
             ("gc default grace", m_gc_default, True), ("prune_unreachable grace=0", m_prune0, True), ("prune_unreachable grace=1 day", m_prune_day, True), ("pack_refs", m_pack_refs, False), ("midx+commit-graph then gc grace=0", m_accel_gc, True)]

    def children(o):
        if isinstance(o, Commit):
            return [o.tree] + list(o.parents)
        if isinstance(o, Tree):
            return [e.sha for e in o.iteritems() if e.mode != 0o160000]
        if isinstance(o, Tag):
            return [o.object[1]]
        return []

    def snapshot(r):
        """(all objects: id -> (type, raw), reachable ids from refs + HEAD + index, refs)"""
        st = r.object_store
        allobj = {sha: st.get_raw(sha) for sha in st}
        refs = dict(r.refs.as_dict())
        roots = [v for v in refs.values()]
        idx_roots = [e.sha for _p, e in r.open_index().items()]
        reach, todo = set(), list(roots)
        while todo:
            x = todo.pop()
            if x in reach or x not in allobj:
                continue
            reach.add(x)
            todo.extend(children(st[x]))
        return allobj, reach, set(idx_roots), refs

    K = 3 if tier == "quick" else 4
    seqs = [s for k in range(1, K + 1) for s in itertools.product(range(len(SETUP)), repeat=k) if s[0] == 0]      # a repository starts with a commit
    if tier == "quick":
        seqs = [s for i, s in enumerate(seqs) if len(s) < 3 or i % 2 == 0]
    else:
        seqs = [s for i, s in enumerate(seqs) if len(s) < 4 or i % 3 == 0]
    with tempfile.TemporaryDirectory() as d:
        n = 0
        for seq in seqs:
            for mname, mfn, may_remove in MAINT:
                n += 1
                cases += 1
                p = os.path.join(d, f"r{n}")
                os.mkdir(p)
                r = Repo.init(p)
                what = {"setup": [SETUP[i].__name__[3:] for i in seq], "maintenance": mname}
                try:
                    AGED[0] = set()
                    YOUNG.clear()
                    for i in seq:
                        SETUP[i](r)
                        if SETUP[i] is not op_age_everything and SETUP[i] is not op_readd_dangling:
                            pass
                    aged = set(AGED[0])
                    # objects (re)written after the ageing step are young again
                    young = set(YOUNG) | {x for x in r.object_store if x not in aged}
                    allobj, reach, idx_roots, refs = snapshot(r)
                    try:
                        mfn(r)
                    except Exception as e:  # noqa: BLE001
                        fail("maintenance operation raised", dict(what, exc=repr(e)[:300]))
                        continue
                    for view in ("same process", "fresh repository"):
                        rr = r if view == "same process" else Repo(p)
                        try:
                            st = rr.object_store
                            lost = [x for x in reach if x not in st]
                            if lost:
                                fail("a reachable object is gone after maintenance", dict(what, view=view, lost=[allobj[x][0] for x in lost][:5], count=len(lost)))
                            bad, unreadable = [], []
                            for x in reach:
                                if x in st:
                                    try:
                                        if st.get_raw(x) != allobj[x]:
                                            bad.append(x)
                                    except Exception as e:  # noqa: BLE001
                                        unreadable.append(repr(e)[:120])
                            if unreadable:
                                fail("a reachable object cannot be read after maintenance", dict(what, view=view, count=len(unreadable), exc=unreadable[0]))
                            if bad:
                                fail("a reachable object changed content", dict(what, view=view))
                            if dict(rr.refs.as_dict()) != refs:
                                fail("ref values changed", dict(what, view=view))
                            gone = [x for x in allobj if x not in st]
                            if mname in ("gc default grace", "prune_unreachable grace=1 day"):
                                # default grace (two weeks): only unreachable objects whose every copy is older may go
                                protected = [x for x in gone if x not in aged or x in young]
                                if protected:
                                    fail("an object younger than the grace period disappeared", dict(what, view=view, count=len(protected), types=[allobj[x][0] for x in protected][:4]))
                            elif gone and not may_remove:
                                fail("objects disappeared although nothing may be removed (grace period / operation)", dict(what, view=view, count=len(gone)))
                            # (objects referenced only by the index are not "reachable from any ref or HEAD": C10 as stated does not
                            #  protect them; dulwich gc with grace 0 / None does prune them, unlike C git - noted in DESIGN.md, not a violation)
                        finally:
                            if rr is not r:
                                rr.close()
                finally:
                    r.close()
                    import shutil
                    shutil.rmtree(p, ignore_errors=True)
    print("\n" + json.dumps({"name": "c10_maintenance", "function": "dulwich/gc.py, object_store.py pack_loose_objects/repack/prune, refs.py pack_refs", "cases": cases, "exhaustive": True,
                             "bound": f"all sequences of <= {K} of {len(SETUP)} set-up operations starting with a commit (sampled at the longest length) x {len(MAINT)} maintenance operations; sequential only",
                             "failures": failures, "secs": round(time.time() - t0, 2)}))


if __name__ == "__main__":
    main()

"""Bounded stand-in (C13): merge-base / ancestry / independence / history walks against the graph-theoretic
definitions, EXHAUSTIVELY over all DAGs with <= N commits (node i may have any subset of the nodes j < i as parents:
every DAG has such a numbering) x all assignments of commit times from {0..N-1} (every relative order incl. ties,
parents newer than children included) x all query pairs / triples.  quick: N = 4; thorough: N = 5 (16 processes) and
a sample of N = 6.  The walker is run on real Commit objects in a MemoryObjectStore.  Never counted as proved."""
import itertools
import json
import os
import sys
import time
from concurrent.futures import ProcessPoolExecutor

HERE = os.path.dirname(os.path.dirname(os.path.abspath(__file__)))
sys.path.insert(0, HERE)


def _setup():
    repo = os.environ.get("VERIF_REPO", "/repo")
    from pyvc import native
    native.setup(repo)


def dags(n):
    """all parent maps on nodes 0..n-1 with parents(i) a subset of range(i)"""
    slots = [(i, j) for i in range(n) for j in range(i)]
    for bits in range(1 << len(slots)):
        par = {i: [] for i in range(n)}
        for k, (i, j) in enumerate(slots):
            if bits >> k & 1:
                par[i].append(j)
        yield bits, par


def closure(par, n):
    anc = {}
    for i in range(n):
        s = {i}
        for p in par[i]:
            s |= anc[p]
        anc[i] = s
    return anc


def maximal(cands, anc):
    return {c for c in cands if not any(c != d and c in anc[d] for d in cands)}


class _PP:
    shallows = None

    def __init__(self, par):
        self.par = par

    def get_parents(self, cid, commit=None):
        return list(self.par[cid])


class _Repo:
    def __init__(self, par, commits):
        self.object_store = commits
        self._pp = _PP(par)

    def parents_provider(self):
        return self._pp


def check_graph(n, par, stamps, G, Commit, fail, walk_objs=None):
    """returns number of cases"""
    cases = 0
    anc = closure(par, n)
    ids = [b"%040d" % i for i in range(n)]
    ipar = {ids[i]: [ids[p] for p in par[i]] for i in range(n)}
    commits = {}
    for i in range(n):
        c = Commit()
        c._commit_time = stamps[i]
        commits[ids[i]] = c
    repo = _Repo(ipar, commits)
    desc = lambda: {"parents": {str(i): par[i] for i in range(n)}, "commit_times": list(stamps)}   # noqa: E731
    for a in range(n):
        for b in range(n):
            if a == b:
                continue
            cases += 1
            want = maximal(anc[a] & anc[b], anc)
            got = G.find_merge_base(repo, [ids[a], ids[b]])
            if sorted(got) != sorted(ids[x] for x in want):
                fail("find_merge_base is not the set of maximal common ancestors", dict(desc(), c1=a, c2=b, got=[int(x) for x in got], want=sorted(want)))
            ff = G.can_fast_forward(repo, ids[a], ids[b])
            if ff != (a in anc[b]):
                fail("can_fast_forward is not the ancestor test", dict(desc(), c1=a, c2=b, got=ff, want=a in anc[b]))
    if n >= 3:
        for a, b, c in itertools.permutations(range(n), 3):
            if b > c:
                continue
            cases += 1
            want = maximal(anc[a] & (anc[b] | anc[c]), anc)
            got = G.find_merge_base(repo, [ids[a], ids[b], ids[c]])
            if sorted(got) != sorted(ids[x] for x in want):
                fail("find_merge_base(c1, [c2, c3]) is not the set of maximal common ancestors of c1 with any c2", dict(desc(), c1=a, c2s=[b, c], got=[int(x) for x in got], want=sorted(want)))
        for a, b, c in itertools.permutations(range(n), 3):
            # merge-base --octopus: the maximal commits that are ancestors of ALL three (the fold is order-sensitive)
            cases += 1
            want = maximal(anc[a] & anc[b] & anc[c], anc)
            got = G.find_octopus_base(repo, [ids[a], ids[b], ids[c]])
            if sorted(got) != sorted(ids[x] for x in want):
                fail("find_octopus_base is not the set of maximal common ancestors of all commits", dict(desc(), commits=[a, b, c], got=[int(x) for x in got], want=sorted(want)))
        for sub in itertools.combinations(range(n), 3):
            cases += 1
            want = [x for x in sub if not any(x != y and x in anc[y] for y in sub)]
            got = G.independent(repo, [ids[x] for x in sub])
            if got != [ids[x] for x in want]:
                fail("independent() is not the set of commits unreachable from the others", dict(desc(), commits=list(sub), got=[int(x) for x in got], want=want))
    for sub in itertools.combinations(range(n), 2):
        cases += 1
        want = [x for x in sub if not any(x != y and x in anc[y] for y in sub)]
        got = G.independent(repo, [ids[x] for x in sub])
        if got != [ids[x] for x in want]:
            fail("independent() is not the set of commits unreachable from the others", dict(desc(), commits=list(sub), got=[int(x) for x in got], want=want))
    return cases


def check_walk(n, par, stamps, fail, W, O, store_cls):
    """history walks on real commits"""
    cases = 0
    anc = closure(par, n)
    store = store_cls()
    objs = []
    for i in range(n):
        c = O.Commit()
        c.tree = b"4b825dc642cb6eb9a060e54bf8d69288fbee4904"
        c.parents = [objs[p].id for p in par[i]]
        c.author = c.committer = b"a <a@b>"
        c.author_time = c.commit_time = stamps[i]
        c.author_timezone = c.commit_timezone = 0
        c.message = b"c%d" % i
        store.add_object(c)
        objs.append(c)
    idx = {o.id: i for i, o in enumerate(objs)}
    monotone = all(stamps[p] <= stamps[i] for i in range(n) for p in par[i])
    desc = lambda: {"parents": {str(i): par[i] for i in range(n)}, "commit_times": list(stamps)}   # noqa: E731
    starts = [(i,) for i in range(n)] + [(n - 1, n - 2)] if n >= 2 else [(0,)]
    for inc in starts:
        reach = set().union(*(anc[i] for i in inc))
        for order in ("date", "topo"):
            cases += 1
            got = [idx[e.commit.id] for e in W.Walker(store, [objs[i].id for i in inc], order=order)]
            if sorted(got) != sorted(reach) or len(got) != len(set(got)):
                fail("walk does not yield each reachable commit exactly once", dict(desc(), include=list(inc), order=order, got=got, want=sorted(reach)))
            elif order == "topo":
                pos = {c: k for k, c in enumerate(got)}
                if any(pos[p] < pos[c] for c in got for p in par[c]):
                    fail("topological walk yields a parent before its child", dict(desc(), include=list(inc), got=got))
        if monotone:
            for exc in range(n):
                if exc in inc:
                    continue
                cases += 1
                want = reach - anc[exc]
                got = [idx[e.commit.id] for e in W.Walker(store, [objs[i].id for i in inc], exclude=[objs[exc].id])]
                if sorted(got) != sorted(want) or len(got) != len(set(got)):
                    fail("walk with an exclusion (monotone clocks) is not reachable(include) - reachable(exclude)", dict(desc(), include=list(inc), exclude=exc, got=got, want=sorted(want)))
    return cases


def run_large(args):
    """beyond the exhaustive bound: directed walker scenarios (long excluded runs next to older included commits) and
    random DAGs with 7..14 commits (seeded), skewed clocks for merge-base / include-only walks, monotone clocks for walks
    with exclusions"""
    seed, count = args
    _setup()
    import random
    from dulwich import graph as G
    from dulwich import objects as O
    from dulwich import walk as W
    from dulwich.object_store import MemoryObjectStore
    failures = []

    def fail(what, detail):
        if len(failures) < 6 and sum(1 for f in failures if f["what"] == what) < 2:
            failures.append({"what": what, "detail": detail})
    cases = 0
    # directed: k excluded commits in a row (newer) while an included commit (older) is still queued
    for k in range(1, 10):
        # shape 1: chain E1..Ek and an unrelated older root X
        par = {0: []}
        stamps = [1]
        for i in range(1, k + 1):
            par[i] = [i - 1] if i > 1 else []
            stamps.append(10 + i)
        cases += check_walk_sets(k + 1, par, stamps, [(0,)], [k], fail, W, O, MemoryObjectStore, "excluded run of %d next to an older unrelated root" % k)
        # shape 2: log feature ^main: base B(0), feature F1(1), F2(2) older than main M1..Mk
        par = {0: [], 1: [0], 2: [1]}
        stamps = [1, 2, 3]
        for i in range(3, 3 + k):
            par[i] = [i - 1] if i > 3 else [0]
            stamps.append(10 + i)
        cases += check_walk_sets(3 + k, par, stamps, [(2,)], [2 + k], fail, W, O, MemoryObjectStore, "feature ^main with %d newer commits on main" % k)
    rnd = random.Random(seed)
    if seed % 1000 == 0:
        # directed: criss-cross families above a shared root / two roots / a chain (5..7 commits), every query pair and
        # triple (merge base, octopus base, independent, fast-forward) under monotone, reversed, tied and random clocks
        shapes = [
            {0: [], 1: [0], 2: [0], 3: [1, 2], 4: [1, 2]},
            {0: [], 1: [0], 2: [0], 3: [1, 2], 4: [1, 2], 5: [3, 4]},
            {0: [], 1: [0], 2: [0], 3: [1, 2], 4: [1, 2], 5: [3, 4], 6: [3, 4]},
            {0: [], 1: [], 2: [0, 1], 3: [0, 1], 4: [2, 3], 5: [2, 3]},
            {0: [], 1: [0], 2: [1], 3: [1], 4: [2, 3], 5: [2, 3], 6: [0]},
            {0: [], 1: [0], 2: [0], 3: [0], 4: [1, 2, 3], 5: [1, 2, 3]},
            {0: [], 1: [0], 2: [1], 3: [2], 4: [1], 5: [3, 4], 6: [4, 2]},
        ]
        for par in shapes:
            n = len(par)
            clocks = [list(range(n)), list(range(n, 0, -1)), [5] * n] + [[rnd.randint(0, n) for _ in range(n)] for _ in range(5)]
            for stamps in clocks:
                cases += check_graph(n, par, stamps, G, O.Commit, fail)
    for gi in range(count):
        n = rnd.randint(7, 14)
        par = {i: sorted(rnd.sample(range(i), min(i, rnd.choice([0, 1, 1, 1, 2, 2, 3])))) for i in range(n)}
        mono = list(range(n))
        for i in range(n):
            if rnd.random() < 0.3 and i:
                mono[i] = mono[i - 1]          # ties
        skew = [rnd.randint(0, n) for _ in range(n)]
        anc = closure(par, n)
        # merge base / ancestry under skew
        ids = [b"%040d" % i for i in range(n)]
        commits = {}
        for i in range(n):
            c = O.Commit()
            c._commit_time = skew[i]
            commits[ids[i]] = c
        repo = _Repo({ids[i]: [ids[p] for p in par[i]] for i in range(n)}, commits)
        for _ in range(12):
            a, b = rnd.sample(range(n), 2)
            cases += 1
            want = maximal(anc[a] & anc[b], anc)
            got = G.find_merge_base(repo, [ids[a], ids[b]])
            if sorted(got) != sorted(ids[x] for x in want):
                fail("find_merge_base is not the set of maximal common ancestors (random DAG)", {"parents": {str(i): par[i] for i in range(n)}, "commit_times": skew, "c1": a, "c2": b, "got": [int(x) for x in got], "want": sorted(want)})
            if G.can_fast_forward(repo, ids[a], ids[b]) != (a in anc[b]):
                fail("can_fast_forward is not the ancestor test (random DAG)", {"parents": {str(i): par[i] for i in range(n)}, "commit_times": skew, "c1": a, "c2": b})
        for _ in range(6):
            sub = rnd.sample(range(n), rnd.choice([3, 3, 4]))
            cases += 1
            want = maximal(set.intersection(*[set(anc[x]) for x in sub]), anc)
            got = G.find_octopus_base(repo, [ids[x] for x in sub])
            if sorted(got) != sorted(ids[x] for x in want):
                fail("find_octopus_base is not the set of maximal common ancestors of all commits (random DAG)", {"parents": {str(i): par[i] for i in range(n)}, "commit_times": skew, "commits": sub, "got": [int(x) for x in got], "want": sorted(want)})
            want = maximal(anc[sub[0]] & set.union(*[set(anc[x]) for x in sub[1:]]), anc)
            got = G.find_merge_base(repo, [ids[x] for x in sub])
            if sorted(got) != sorted(ids[x] for x in want):
                fail("find_merge_base(c1, c2s) is not the set of maximal common ancestors of c1 with any c2 (random DAG)", {"parents": {str(i): par[i] for i in range(n)}, "commit_times": skew, "commits": sub, "got": [int(x) for x in got], "want": sorted(want)})
        incs = [tuple(rnd.sample(range(n), rnd.choice([1, 1, 2])))for _ in range(3)]
        cases += check_walk_sets(n, par, skew, incs, [], fail, W, O, MemoryObjectStore, "random DAG, skewed clocks, no exclusion")
        for inc in incs:
            excs = [e for e in rnd.sample(range(n), 3) if e not in inc]
            cases += check_walk_sets(n, par, mono, [inc], excs, fail, W, O, MemoryObjectStore, "random DAG, monotone clocks, exclusions")
    return cases, failures


def check_walk_sets(n, par, stamps, includes, excludes, fail, W, O, store_cls, label):
    anc = closure(par, n)
    store = store_cls()
    objs = []
    for i in range(n):
        c = O.Commit()
        c.tree = b"4b825dc642cb6eb9a060e54bf8d69288fbee4904"
        c.parents = [objs[p].id for p in par[i]]
        c.author = c.committer = b"a <a@b>"
        c.author_time = c.commit_time = stamps[i]
        c.author_timezone = c.commit_timezone = 0
        c.message = b"c%d" % i
        store.add_object(c)
        objs.append(c)
    idx = {o.id: i for i, o in enumerate(objs)}
    cases = 0
    for inc in includes:
        reach = set().union(*(anc[i] for i in inc))
        for exc in ([None] + list(excludes)) if not excludes else list(excludes):
            for order in ("date", "topo"):
                cases += 1
                want = reach - (anc[exc] if exc is not None else set())
                kw = {"exclude": [objs[exc].id]} if exc is not None else {}
                got = [idx[e.commit.id] for e in W.Walker(store, [objs[i].id for i in inc], order=order, **kw)]
                if sorted(got) != sorted(want) or len(got) != len(set(got)):
                    fail("walk does not yield exactly reachable(include) - reachable(exclude), each once (%s)" % label,
                         {"parents": {str(i): par[i] for i in range(n)}, "commit_times": list(stamps), "include": list(inc), "exclude": exc, "order": order, "got": got, "want": sorted(want)})
                elif order == "topo":
                    pos = {c: k for k, c in enumerate(got)}
                    if any(p in pos and pos[p] < pos[c] for c in got for p in par[c]):
                        fail("topological walk yields a parent before its child (%s)" % label, {"parents": {str(i): par[i] for i in range(n)}, "commit_times": list(stamps), "got": got})
    return cases


def run_chunk(args):
    n, lo, hi, stamp_mode, do_walk = args
    _setup()
    from dulwich import graph as G
    from dulwich import objects as O
    from dulwich import walk as W
    from dulwich.object_store import MemoryObjectStore
    failures = []

    def fail(what, detail):
        if len(failures) < 6 and not any(f["what"] == what for f in failures[3:]):
            failures.append({"what": what, "detail": detail})
    cases = 0
    if stamp_mode == "all":
        stamp_sets = list(itertools.product(range(n), repeat=n))
    else:   # canonical weak orders: the set of values used is an initial segment {0..k}
        stamp_sets = [s for s in itertools.product(range(n), repeat=n) if set(s) == set(range(max(s) + 1))]
    for bits, par in dags(n):
        if not (lo <= bits < hi):
            continue
        for si, stamps in enumerate(stamp_sets):
            cases += check_graph(n, par, stamps, G, O.Commit, fail)
            if do_walk and (do_walk == 1 or si % do_walk == 0):
                cases += check_walk(n, par, stamps, fail, W, O, MemoryObjectStore)
    return cases, failures


def main():
    tier = sys.argv[sys.argv.index("--tier") + 1] if "--tier" in sys.argv else "quick"
    t0 = time.time()
    jobs = []
    if tier == "quick":
        for n in (2, 3):
            jobs.append((n, 0, 1 << (n * (n - 1) // 2), "all", 1))
        tot = 1 << 6
        for k in range(16):
            jobs.append((4, tot * k // 16, tot * (k + 1) // 16, "all", 4))
        bound = "all DAGs with <= 4 commits x all 4^4 commit-time assignments x all query pairs/triples; walks on every 4th assignment"
    else:
        for n in (2, 3, 4):
            jobs.append((n, 0, 1 << (n * (n - 1) // 2), "all", 1))
        tot = 1 << 10
        for k in range(64):
            jobs.append((5, tot * k // 64, tot * (k + 1) // 64, "weak", 8))
        bound = "all DAGs with <= 5 commits x all relative orders of commit times (ties included; all 541 weak orders for 5) x all query pairs/triples; walks on every 8th order"
    cases = 0
    failures = []
    seed = int(os.environ.get("VERIF_SEED", "0"))
    large = [(seed * 1000 + k, 20 if tier == "quick" else 150) for k in range(16)]
    bound += "; beyond it: 18 directed walker scenarios (excluded runs of 1..9 commits next to older included commits), 7 criss-cross shapes with 5..7 commits x 8 clocks x all query pairs/triples (merge base, octopus base, independent) and %d seeded random DAGs with 7..14 commits (skewed clocks for merge bases and plain walks, monotone clocks with ties for walks with exclusions)" % sum(c for _s, c in large)
    with ProcessPoolExecutor(max_workers=min(16, os.cpu_count() or 1)) as ex:
        for c, f in itertools.chain(ex.map(run_chunk, jobs), ex.map(run_large, large)):
            cases += c
            for x in f:
                if len(failures) < 10 and sum(1 for y in failures if y["what"] == x["what"]) < 3:
                    failures.append(x)
    print(json.dumps({"name": "c13_graphs", "function": "dulwich/graph.py find_merge_base/find_octopus_base/can_fast_forward/independent (_find_lcas), dulwich/walk.py Walker", "cases": cases,
                      "exhaustive": True, "bound": bound, "failures": failures, "secs": round(time.time() - t0, 2)}))


if __name__ == "__main__":
    main()

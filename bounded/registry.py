"""Bounded stand-ins per property: scripts run under /venv/bin/python against the real code."""
P = "dulwich/pack.py"
BOUNDED = {
    "C03": [
        {"name": "apply_delta@delta_small", "script": "enum_contract.py", "args": [P, "apply_delta", "delta_small"]},
        {"name": "_delta_encode_size@ints_small", "script": "enum_contract.py", "args": [P, "_delta_encode_size", "ints_small"]},
    ],
}

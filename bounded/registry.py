"""Bounded stand-ins per property: scripts run under /venv/bin/python against the real code."""
P = "dulwich/pack.py"
F19 = "dulwich/protocol.py"
IX = "dulwich/index.py"
BOUNDED = {
    "C04": [
        {"name": "c04_hostile", "script": "c04_hostile.py", "args": [], "timeout": 3000},
    ],
    "C20": [
        {"name": "c20_roundtrip", "script": "c20_roundtrip.py", "args": []},
    ],
    "C17": [
        {"name": "validate_path@path_strings", "script": "enum_contract.py", "args": [IX, "validate_path", "path_strings"]},
        {"name": "_is_ntfs_dotgit@element_strings", "script": "enum_contract.py", "args": [IX, "_is_ntfs_dotgit", "element_strings"]},
        {"name": "c17_fs", "script": "c17_fs.py", "args": []},
    ],
    "C16": [
        {"name": "c16_backends", "script": "c16_backends.py", "args": []},
    ],
    "C11": [
        {"name": "c11_roundtrip", "script": "c11_roundtrip.py", "args": []},
    ],
    "C01": [
        {"name": "c01_roundtrip", "script": "c01_roundtrip.py", "args": []},
    ],
    "C05": [
        {"name": "c05_transfer", "script": "c05_transfer.py", "args": []},
    ],
    "C10": [
        {"name": "c10_maintenance", "script": "c10_maintenance.py", "args": []},
    ],
    "C12": [
        {"name": "c12_trees", "script": "c12_trees.py", "args": []},
    ],
    "C14": [
        {"name": "c14_accel", "script": "c14_accel.py", "args": []},
    ],
    "C15": [
        {"name": "c15_rust", "script": "c15_rust.py", "args": []},
    ],
    "C18": [
        {"name": "c18_worktree", "script": "c18_worktree.py", "args": []},
    ],
    "C13": [
        {"name": "c13_graphs", "script": "c13_graphs.py", "args": []},
    ],
    "C09": [
        {"name": "c09_crash", "script": "c09_crash.py", "args": []},
    ],
    "C06": [
        {"name": "c06_push", "script": "c06_push.py", "args": []},
    ],
    "C02": [
        {"name": "c02_roundtrip", "script": "c02_roundtrip.py", "args": []},
    ],
    "C19": [
        {"name": "stdlib_axioms:hex", "script": "stdlib_axioms.py", "args": ["hex"]},
        {"name": "c19_roundtrip", "script": "c19_roundtrip.py", "args": []},
        {"name": "pkt_line@pkt_payloads", "script": "enum_contract.py", "args": [F19, "pkt_line", "pkt_payloads"]},
        {"name": "_parse_pkt_line_length@len_prefixes", "script": "enum_contract.py", "args": [F19, "_parse_pkt_line_length", "len_prefixes"]},
    ],
    "C03": [
        {"name": "apply_delta@delta_small", "script": "enum_contract.py", "args": [P, "apply_delta", "delta_small"]},
        {"name": "_delta_encode_size@ints_small", "script": "enum_contract.py", "args": [P, "_delta_encode_size", "ints_small"]},
        {"name": "delta_roundtrip@delta_pairs", "script": "delta_roundtrip.py", "args": []},
    ],
}

"""Bounded stand-in (C15): the Rust extensions, REBUILT from /repo's working tree (cargo build --offline --release into a
scratch target directory that is removed afterwards), against the pure-Python implementations they replace, on the
same inputs: same return value, or failure in both (for delta creation: both results must decode to the target).
 parse_tree          all mode spellings <= 4 symbols over {0 1 4 6 7 + - _ space o} plus long/overflowing modes x names x
                     id lengths (exact, truncated, 20/32) x strict on/off x missing terminators, one and two entries
 sorted_tree_items   all entry dictionaries <= 3 names from a prefix/twin-prone set x 4 modes x both orders
 apply_delta         the C03 delta domain (all opcode strings <= 5/6 over a 12-symbol alphabet x 3 bases), chunked too
 create_delta        the C03 pair domain; both deltas applied by both decoders
 bisect_find_sha     all sorted tables <= 4 ids x all (start, end) in [-1, n] x probes (present, absent, wrong length)
 _merge_entries      all pairs of trees <= 2 entries from 5 names x 2 modes
 _count_blocks       blobs with long lines, no newline, empty, binary, and all strings <= 4 over {a, LF, CR, VT, FF, FS, NEL}
 _is_tree            entries with directory / file / None modes, None
Never counted as proved.  The Rust code itself is outside the deductive verifier's reach (no Rust verifier installed)."""
import importlib.util
import itertools
import json
import os
import shutil
import subprocess
import sys
import tempfile
import time

HERE = os.path.dirname(os.path.dirname(os.path.abspath(__file__)))
sys.path.insert(0, HERE)


def build(repo, target):
    env = dict(os.environ, CARGO_NET_OFFLINE="true", CARGO_TARGET_DIR=target)
    pr = subprocess.run(["cargo", "build", "--offline", "--release"], cwd=repo, env=env, capture_output=True, text=True)
    if pr.returncode != 0:
        raise RuntimeError("cargo build failed: " + pr.stderr[-1500:])
    mods = {}
    for lib, name in (("libobjects_py.so", "_objects"), ("libpack_py.so", "_pack"), ("libdiff_tree_py.so", "_diff_tree")):
        dst = os.path.join(target, name + ".so")
        shutil.copy(os.path.join(target, "release", lib), dst)
        spec = importlib.util.spec_from_file_location(name, dst)
        m = importlib.util.module_from_spec(spec)
        spec.loader.exec_module(m)
        mods[name] = m
    return mods


def outcome(fn, *a, **kw):
    try:
        r = fn(*a, **kw)
        if not isinstance(r, (bytes, int, type(None), dict, bool)):
            r = list(r)
        return ("ok", r)
    except BaseException as e:  # noqa: BLE001  (pyo3 panics surface as BaseException subclasses)
        return ("exc", type(e).__name__)


def main():
    tier = sys.argv[sys.argv.index("--tier") + 1] if "--tier" in sys.argv else "quick"
    repo = os.environ.get("VERIF_REPO", "/repo")
    from pyvc import native
    native.setup(repo)                       # pure Python: dulwich._objects/_pack/_diff_tree blocked
    from bounded import domains
    from dulwich import diff_tree as D
    from dulwich import objects as O
    from dulwich import pack as P
    from dulwich.objects import Blob, Tree, TreeEntry
    t0 = time.time()
    cases = 0
    failures = []

    def fail(what, detail):
        if len(failures) < 12 and sum(1 for f in failures if f["what"] == what) < 3:
            failures.append({"what": what, "detail": detail})
    target = tempfile.mkdtemp(prefix="c15_rs_")
    try:
        try:
            rs = build(repo, target)
        except Exception as e:  # noqa: BLE001
            print(json.dumps({"name": "c15_rust", "status": "crash", "stderr": repr(e)[-800:], "cases": 0, "failures": []}))
            return
        build_secs = round(time.time() - t0, 1)

        def same(what, a, b, detail, cmp=None):
            """a: python outcome, b: rust outcome"""
            if a[0] != b[0] or (a[0] == "ok" and (cmp(a[1], b[1]) if cmp else a[1] != b[1])):
                fail(what, dict(detail, python=repr(a)[:200], rust=repr(b)[:200]))

        # ---- parse_tree
        sym = b"01467+-_ o"
        modes = [bytes(t) for n in range(1, 5 if tier == "quick" else 6) for t in itertools.product(sym, repeat=n)]
        modes += [b"100644", b"40000", b"040000", b"0100644", b"160000", b"37777777777", b"40000000000", b"7" * 24, b"", b"100644\n", b"\xff", b"1e3", b"0x1f", b"0b11"]
        for mode in modes:
            for name in (b"a", b""):
                for sha_len in (20, 32):
                    for idlen in (sha_len, sha_len - 1):
                        if mode in modes[100:2000] and (name == b"" or sha_len == 32 or idlen != sha_len):
                            continue        # the bulk of the short spellings only in the main configuration
                        text = mode + b" " + name + b"\0" + bytes(range(1, idlen + 1))
                        for strict in (False, True):
                            for txt in (text, text + text):
                                cases += 1
                                same("parse_tree", outcome(O.parse_tree, txt, sha_len, strict=strict), outcome(rs["_objects"].parse_tree, txt, sha_len, strict),
                                     {"text": txt[:40].decode("latin-1"), "sha_len": sha_len, "strict": strict},
                                     cmp=lambda x, y: [tuple(e) for e in x] != [tuple(e) for e in y])
        for txt in (b"", b"100644", b"100644 a", b"100644 a\0", b" a\0" + bytes(20), b"100644  \0" + bytes(20), b"\0" * 30):
            for strict in (False, True):
                cases += 1
                same("parse_tree", outcome(O.parse_tree, txt, 20, strict=strict), outcome(rs["_objects"].parse_tree, txt, 20, strict), {"text": txt[:40].decode("latin-1"), "strict": strict},
                     cmp=lambda x, y: [tuple(e) for e in x] != [tuple(e) for e in y])
        # ---- sorted_tree_items
        names = [b"a", b"a.b", b"a-", b"a0", b"ab", b"a/", b"", b"\xff", b"A"]
        tmodes = [0o100644, 0o40000, 0o160000, 0o120000]
        sha = b"1" * 40
        for r in (0, 1, 2, 3):
            for ns in itertools.combinations(names, r):
                for ms in itertools.product(tmodes, repeat=r):
                    ents = {n: (m, sha) for n, m in zip(ns, ms)}
                    for order in (False, True):
                        cases += 1
                        same("sorted_tree_items", outcome(O._sorted_tree_items_py, ents, order), outcome(rs["_objects"].sorted_tree_items, ents, order),
                             {"entries": {n.decode("latin-1"): oct(m) for n, (m, _s) in ents.items()}, "name_order": order},
                             cmp=lambda x, y: [tuple(e) for e in x] != [tuple(e) for e in y])
        # ---- apply_delta
        gen, _b = domains.DOMAINS["delta_small"](tier)
        for case in gen:
            cases += 1
            src, delta = case["src_buf"], case["delta"]
            a = outcome(lambda: b"".join(P.apply_delta(src, delta)))
            b = outcome(lambda: b"".join(rs["_pack"].apply_delta(src, delta)))
            same("apply_delta", a, b, {"src": src.decode(), "delta": delta.hex()})
            if cases % 50 == 0:
                b2 = outcome(lambda: b"".join(rs["_pack"].apply_delta([src[:1], src[1:]], [delta[:2], delta[2:]])))
                same("apply_delta (chunked)", a, b2, {"src": src.decode(), "delta": delta.hex()})
        for delta in (b"\x80" * 10 + b"\x01" + b"\x01" + b"\x01a", b"\xff" * 9 + b"\x7f\x01\x01a", b"\x05\x80" * 12,
                      b"\x05\x05\x90\x05\x90\x05", b"\x05\x05\x90\x05\x91\x01\x05", b"\x05\x02\x90\x02\x02xy"):
            cases += 1
            same("apply_delta (size header overflow)", outcome(lambda: b"".join(P.apply_delta(b"abcde", delta))), outcome(lambda: b"".join(rs["_pack"].apply_delta(b"abcde", delta))),
                 {"delta": delta.hex()})
        # a few bytes declaring a huge result must fail like the Python decoder, not abort the interpreter (own process)
        probe = ("import importlib.util,sys\n"
                 "spec=importlib.util.spec_from_file_location('_pack', sys.argv[1]); m=importlib.util.module_from_spec(spec); spec.loader.exec_module(m)\n"
                 "def enc(n):\n out=bytearray()\n while True:\n  b=n&0x7f; n>>=7\n  if n: out.append(b|0x80)\n  else:\n   out.append(b); break\n return bytes(out)\n"
                 "try:\n m.apply_delta(b'', enc(0)+enc(int(sys.argv[2]))); print('ok')\nexcept Exception as e:\n print('exc', type(e).__name__)\n")
        for n in (2 ** 33, 2 ** 40, 2 ** 62):
            cases += 1
            pr = subprocess.run([sys.executable, "-c", probe, os.path.join(target, "_pack.so"), str(n)], capture_output=True, text=True, timeout=120)
            if pr.returncode != 0 or pr.stdout.strip() != "exc ApplyDeltaError":
                fail("apply_delta (declared size): the Rust decoder does not fail like the Python one", {"declared_dest_size": n, "returncode": pr.returncode, "stdout": pr.stdout.strip()[:80]})
        # ---- create_delta
        gen, _b = domains.DOMAINS["delta_pairs"](tier)
        for case in gen:
            cases += 1
            base, tgt = case["base_buf"], case["target_buf"]
            dp = outcome(lambda: b"".join(P._create_delta_py(base, tgt)))
            dr = outcome(lambda: bytes(rs["_pack"].create_delta(base, tgt)))
            ok = dp[0] == dr[0] == "ok"
            if ok:
                for dec in (P.apply_delta, rs["_pack"].apply_delta):
                    for dl in (dp[1], dr[1]):
                        if outcome(lambda: b"".join(dec(base, dl))) != ("ok", tgt):
                            ok = False
            if not ok:
                fail("create_delta: a delta does not decode to the target", {"base_len": len(base), "target_len": len(tgt), "python": repr(dp)[:80], "rust": repr(dr)[:80]})
        # ---- bisect_find_sha
        ids = [bytes([k]) * 20 for k in (1, 2, 3, 5)]
        for n in range(0, 5):
            table = ids[:n]
            for start in range(0, n + 1):          # (a negative start is outside the functions' domain: unpack_name(-1))
                for end in range(-1, n):
                    for probe in ids + [bytes([4]) * 20, bytes([0]) * 20, bytes([9]) * 20, b"\x02" * 32]:
                        cases += 1

                        def unpack(i, table=table):
                            return table[i]
                        same("bisect_find_sha", outcome(P.bisect_find_sha, start, end, probe, unpack), outcome(rs["_pack"].bisect_find_sha, start, end, probe, unpack),
                             {"n": n, "start": start, "end": end, "probe": probe[:2].hex() + f"x{len(probe)}"})
        # ---- _merge_entries / _is_tree / _count_blocks
        mnames = [b"a", b"a.b", b"a-", b"b", b"a0"]
        trees = []
        for r in (0, 1, 2):
            for ns in itertools.combinations(mnames, r):
                for ms in itertools.product((0o100644, 0o40000), repeat=r):
                    t = Tree()
                    for nme, m in zip(ns, ms):
                        t.add(nme, m, sha)
                    trees.append(t)
        for t1 in trees:
            for t2 in trees:
                for path in (b"", b"d"):
                    cases += 1
                    py_out = outcome(D._merge_entries, path, t1, t2)
                    O.sorted_tree_items = rs["_objects"].sorted_tree_items      # as with the extensions enabled: Tree.iteritems is the Rust one
                    try:
                        rs_out = outcome(rs["_diff_tree"]._merge_entries, path, t1, t2)
                    finally:
                        O.sorted_tree_items = O._sorted_tree_items_py
                    same("_merge_entries", py_out, rs_out,
                         {"t1": [e.path.decode() for e in t1.iteritems()], "t2": [e.path.decode() for e in t2.iteritems()], "path": path.decode()})
        for e in (None, TreeEntry(b"a", 0o40000, sha), TreeEntry(b"a", 0o100644, sha), TreeEntry(b"a", None, None), TreeEntry(b"a", 0o160000, sha), TreeEntry(b"a", 0o120000, sha)):
            cases += 1
            same("_is_tree", outcome(D._is_tree, e), outcome(rs["_diff_tree"]._is_tree, e), {"entry": repr(e)})
        line_breakers = [bytes(t) for n in range(0, 5) for t in itertools.product(b"a\n\r\x0b\x0c\x1c\x85", repeat=n)]      # every byte str.splitlines() treats as a line end
        for data in [b"", b"a", b"a\n", b"a\nb\n", b"x" * 63 + b"\n", b"x" * 64 + b"\n", b"x" * 65 + b"\n", b"x" * 200, b"\n\n\n", bytes(range(256)) * 3, b"ab\n" * 500,
                     b"\xff" * 64 + b"a\n" + b"\x00" * 10, b"x" * 63 + b"\r\n", b"x" * 62 + b"\r\n" + b"y" * 70, b"mac\rtext\rlines\r"] + line_breakers:
            cases += 1
            same("_count_blocks", outcome(D._count_blocks, Blob.from_string(data)), outcome(rs["_diff_tree"]._count_blocks, Blob.from_string(data)), {"data_len": len(data), "data": data[:20].decode("latin-1")})
    finally:
        shutil.rmtree(target, ignore_errors=True)
    print(json.dumps({"name": "c15_rust", "function": "crates/{objects,pack,diff-tree}/src/lib.rs vs dulwich/objects.py, pack.py, diff_tree.py", "cases": cases, "exhaustive": True,
                      "bound": "see module docstring; Rust rebuilt from the working tree (cargo --offline --release, %s s)" % build_secs,
                      "failures": failures, "secs": round(time.time() - t0, 2)}))


if __name__ == "__main__":
    main()

"""Bounded stand-in (C17): containment helpers against a real (temporary) file system:
patch._ensure_within_repo / _validate_patch_target over a fixed set of adversarial targets (sibling directory whose
name extends the work tree's name, parent, absolute, symlink to sibling / parent / inside), and NTFS '.git' spellings
with dot/space runs before ':' for _is_ntfs_dotgit.  Never counted as proved."""
import json
import os
import sys
import shutil
import tempfile
import time

HERE = os.path.dirname(os.path.dirname(os.path.abspath(__file__)))
sys.path.insert(0, HERE)


def main():
    repo = os.environ.get("VERIF_REPO", "/repo")
    from pyvc import native
    native.setup(repo)
    from contracts.specs_py import ntfs_dotgit
    from dulwich.index import _is_ntfs_dotgit
    from dulwich.patch import _ensure_within_repo
    t0 = time.time()
    cases = 0
    failures = []

    def fail(what, detail):
        if len(failures) < 10:
            failures.append({"what": what, "detail": detail})

    import itertools
    heads = [b".git", b".GIT", b".gIt", b"git~1", b"GIT~1", b".gi", b"git~2"]
    for h in heads:
        for n in range(0, 5):
            for t in itertools.product(b". :a", repeat=n):
                name = h + bytes(t)
                cases += 1
                if bool(_is_ntfs_dotgit(name)) != bool(ntfs_dotgit(name)):
                    fail("_is_ntfs_dotgit != spec", {"name": name.decode("latin-1")})
    with tempfile.TemporaryDirectory() as d:
        d = os.path.realpath(d)
        root = os.path.join(d, "proj")
        for p in ("proj/sub", "proj-backup", "projx", "other"):
            os.makedirs(os.path.join(d, p))
        open(os.path.join(d, "proj-backup", "notes.txt"), "w").write("x")
        links = {"l_sibling": "../proj-backup/notes.txt", "l_sibling_dir": "../proj-backup", "l_parent": "..", "l_inside": "sub",
                 "l_dangling_sibling": "../projx/nothing", "l_abs": os.path.join(d, "other")}
        for name, target in links.items():
            os.symlink(target, os.path.join(root, name))
        rootb = root.encode()
        expect = {b"a": True, b"sub/a": True, b"../proj-backup/notes.txt": False, b"../projx": False, b"..": False, b"../proj": True,
                  b"l_sibling": False, b"l_sibling_dir/x": False, b"l_parent/x": False, b"l_inside/x": True, b"l_dangling_sibling": False,
                  b"l_abs/x": False, os.path.join(d, "other", "y").encode(): False, b"sub/../a": True, b"sub/../../projx/a": False}
        for rel, ok in expect.items():
            cases += 1
            try:
                _ensure_within_repo(rootb, os.path.join(rootb, rel), rel)
                got = True
            except ValueError:
                got = False
            if got != ok:
                fail("_ensure_within_repo containment", {"target": rel.decode(), "accepted": got, "expected_accepted": ok})
    # ---- HFS+: git's is_hfs_dotgit - ".git" (any case) with any of the 16 ignorable code points (utf8.c: next_hfs_char) inserted
    #      anywhere must be refused; the same letters with a non-ignorable neighbour code point must not be
    from dulwich.index import validate_path_element_hfs
    IGNORABLE = [0x200C, 0x200D, 0x200E, 0x200F, 0x202A, 0x202B, 0x202C, 0x202D, 0x202E, 0x206A, 0x206B, 0x206C, 0x206D, 0x206E, 0x206F, 0xFEFF]
    NOT_IGNORABLE = [0x200B, 0x2010, 0x2029, 0x202F, 0x2069, 0x2070, 0xFEFE, 0x00E9]
    for base_ in (".git", ".GIT", ".gIt"):
        for pos in range(0, len(base_) + 1):
            for cp in IGNORABLE + NOT_IGNORABLE:
                for twice in (False, True):
                    cases += 1
                    name = (base_[:pos] + chr(cp) * (2 if twice else 1) + base_[pos:]).encode("utf-8")
                    want_ok = cp in NOT_IGNORABLE
                    got_ok = bool(validate_path_element_hfs(name))
                    if got_ok != want_ok:
                        fail("validate_path_element_hfs != git's is_hfs_dotgit on ignorable code points", {"name": name.hex(), "code_point": hex(cp), "accepted": got_ok})
            for cp1 in (0x206A, 0x200C):
                for cp2 in (0x206F, 0xFEFF):
                    cases += 1
                    name = (chr(cp1) + base_[:pos] + chr(cp2) + base_[pos:] + chr(cp1)).encode("utf-8")
                    if validate_path_element_hfs(name):
                        fail("validate_path_element_hfs != git's is_hfs_dotgit on ignorable code points", {"name": name.hex(), "accepted": True})
    # ---- patch application end to end: targets reached through symlinks that a checkout left in the work tree (last component
    #      or leading directory, pointing into .git, outside, or at a sibling inside): whatever the patch says, nothing outside the
    #      work tree and nothing inside .git (except the index) may change
    import stat as _stat
    from dulwich.index import build_index_from_tree
    from dulwich.objects import Blob, Tree
    from dulwich.patch import apply_patches, parse_unified_diff
    from dulwich.repo import Repo

    def snapshot(top, skip):
        out = {}
        for dp, dns, fns in os.walk(top):
            for fn in fns:
                fp = os.path.join(dp, fn)
                if fp in skip:
                    continue
                try:
                    out[fp] = open(fp, "rb").read() if not os.path.islink(fp) else b"->" + os.fsencode(os.readlink(fp))
                except OSError:
                    out[fp] = None
        return out
    link_targets = {"into-git": b".git/config", "outside-file": b"../outside/secret", "git-hooks-dir": b".git/hooks", "outside-dir": b"../outside", "inside": b"plain"}
    for lname, ltarget in link_targets.items():
        for kind in ("modify", "rename-to", "binary-less-new-file-below", "delete"):
            cases += 1
            parent = tempfile.mkdtemp(prefix="c17fs-")
            try:
                os.mkdir(os.path.join(parent, "outside"))
                open(os.path.join(parent, "outside", "secret"), "wb").write(b"secret\n")
                wt = os.path.join(parent, "wt")
                os.mkdir(wt)
                r = Repo.init(wt)
                lb, pb = Blob.from_string(ltarget), Blob.from_string(b"plain\n")
                t = Tree()
                t.add(b"link", _stat.S_IFLNK, lb.id)
                t.add(b"plain", 0o100644, pb.id)
                t.add(b"src", 0o100644, pb.id)
                r.object_store.add_objects([(lb, None), (pb, None), (t, None)])
                build_index_from_tree(wt, r.index_path(), r.object_store, t.id)
                index_path = os.path.join(wt, ".git", "index")
                before_out = snapshot(os.path.join(parent, "outside"), set())
                before_git = snapshot(os.path.join(wt, ".git"), {index_path})
                before_plain = open(os.path.join(wt, "plain"), "rb").read()
                if kind == "modify":
                    diff = b"diff --git a/link b/link\n--- a/link\n+++ b/link\n@@ -0,0 +1,1 @@\n+evil\n"
                elif kind == "rename-to":
                    diff = b"diff --git a/src b/link\nsimilarity index 100%\nrename from src\nrename to link\n"
                elif kind == "delete":
                    diff = b"diff --git a/link b/link\ndeleted file mode 120000\n--- a/link\n+++ /dev/null\n@@ -1 +0,0 @@\n-" + ltarget + b"\n\\ No newline at end of file\n"
                else:
                    diff = b"diff --git a/link/new b/link/new\nnew file mode 100644\n--- /dev/null\n+++ b/link/new\n@@ -0,0 +1,1 @@\n+evil\n"
                try:
                    apply_patches(r, parse_unified_diff(diff), strip=1)
                except Exception:  # noqa: BLE001
                    pass                                          # refusing is fine
                r.close()
                after_out = snapshot(os.path.join(parent, "outside"), set())
                after_git = snapshot(os.path.join(wt, ".git"), {index_path})
                if after_out != before_out:
                    fail("patch application changed something outside the work tree", {"link_target": ltarget.decode(), "patch": kind, "changed": sorted(set(k for k in set(before_out) | set(after_out) if before_out.get(k) != after_out.get(k)))[:3]})
                if after_git != before_git:
                    fail("patch application changed something inside .git", {"link_target": ltarget.decode(), "patch": kind, "changed": sorted(os.path.relpath(k, wt) for k in set(before_git) | set(after_git) if before_git.get(k) != after_git.get(k))[:3]})
                if lname == "inside" and kind != "delete" and open(os.path.join(wt, "plain"), "rb").read() != before_plain:
                    fail("patch application wrote THROUGH a symlink onto another tracked file", {"link_target": ltarget.decode(), "patch": kind})
            except Exception as e:  # noqa: BLE001
                fail("patch scenario raised (harness)", {"link_target": ltarget.decode(), "patch": kind, "exc": repr(e)[:200]})
            finally:
                shutil.rmtree(parent, ignore_errors=True)
    print(json.dumps({"name": "c17_fs", "function": "dulwich/patch.py:_ensure_within_repo / apply_patches, dulwich/index.py:_is_ntfs_dotgit / validate_path_element_hfs", "cases": cases, "exhaustive": True,
                      "bound": "HFS: 3 spellings of .git x every insertion point x 16 ignorable + 8 neighbouring code points (single, doubled, mixed); patch application: 5 symlink targets (into .git, .git/hooks, outside file / directory, inside) x 4 patch kinds on a checked-out tree; 15 targets x a work tree 'proj' with siblings 'proj-backup'/'projx' and 6 symlinks; 7 heads x all tails <= 4 over {'.',' ',':','a'}",
                      "failures": failures, "secs": round(time.time() - t0, 2)}))


if __name__ == "__main__":
    main()

"""Bounded stand-in (C17): containment helpers against a real (temporary) file system:
patch._ensure_within_repo / _validate_patch_target over a fixed set of adversarial targets (sibling directory whose
name extends the work tree's name, parent, absolute, symlink to sibling / parent / inside), and NTFS '.git' spellings
with dot/space runs before ':' for _is_ntfs_dotgit.  Never counted as proved."""
import json
import os
import sys
import tempfile
import time

HERE = os.path.dirname(os.path.dirname(os.path.abspath(__file__)))
sys.path.insert(0, HERE)


def main():
    repo = os.environ.get("VERIF_REPO", "/repo")
    from pyvc import native
    native.setup(repo)
    from contracts.specs_py import ntfs_dotgit
    from dulwich.index import _is_ntfs_dotgit
    from dulwich.patch import _ensure_within_repo
    t0 = time.time()
    cases = 0
    failures = []

    def fail(what, detail):
        if len(failures) < 10:
            failures.append({"what": what, "detail": detail})

    import itertools
    heads = [b".git", b".GIT", b".gIt", b"git~1", b"GIT~1", b".gi", b"git~2"]
    for h in heads:
        for n in range(0, 5):
            for t in itertools.product(b". :a", repeat=n):
                name = h + bytes(t)
                cases += 1
                if bool(_is_ntfs_dotgit(name)) != bool(ntfs_dotgit(name)):
                    fail("_is_ntfs_dotgit != spec", {"name": name.decode("latin-1")})
    with tempfile.TemporaryDirectory() as d:
        d = os.path.realpath(d)
        root = os.path.join(d, "proj")
        for p in ("proj/sub", "proj-backup", "projx", "other"):
            os.makedirs(os.path.join(d, p))
        open(os.path.join(d, "proj-backup", "notes.txt"), "w").write("x")
        links = {"l_sibling": "../proj-backup/notes.txt", "l_sibling_dir": "../proj-backup", "l_parent": "..", "l_inside": "sub",
                 "l_dangling_sibling": "../projx/nothing", "l_abs": os.path.join(d, "other")}
        for name, target in links.items():
            os.symlink(target, os.path.join(root, name))
        rootb = root.encode()
        expect = {b"a": True, b"sub/a": True, b"../proj-backup/notes.txt": False, b"../projx": False, b"..": False, b"../proj": True,
                  b"l_sibling": False, b"l_sibling_dir/x": False, b"l_parent/x": False, b"l_inside/x": True, b"l_dangling_sibling": False,
                  b"l_abs/x": False, os.path.join(d, "other", "y").encode(): False, b"sub/../a": True, b"sub/../../projx/a": False}
        for rel, ok in expect.items():
            cases += 1
            try:
                _ensure_within_repo(rootb, os.path.join(rootb, rel), rel)
                got = True
            except ValueError:
                got = False
            if got != ok:
                fail("_ensure_within_repo containment", {"target": rel.decode(), "accepted": got, "expected_accepted": ok})
    print(json.dumps({"name": "c17_fs", "function": "dulwich/patch.py:_ensure_within_repo, dulwich/index.py:_is_ntfs_dotgit", "cases": cases, "exhaustive": True,
                      "bound": "15 targets x a work tree 'proj' with siblings 'proj-backup'/'projx' and 6 symlinks; 7 heads x all tails <= 4 over {'.',' ',':','a'}",
                      "failures": failures, "secs": round(time.time() - t0, 2)}))


if __name__ == "__main__":
    main()

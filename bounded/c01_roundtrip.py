"""Bounded stand-in (C01): object grammar round trips, exhaustively over a product of small field domains.
(a) timezone spellings: every text git emits ([+-]hhmm, hh 00..99, mm 00..59, plus -0000) parses and re-formats to
    itself; every canonical (offset, neg_utc) value formats and parses back;
(b) commits / tags / trees / blobs built from field values: parse(serialise) gives the same values, re-serialising
    the parsed object unchanged or with one field changed gives the bytes of a fresh object with those values,
    id == hash(header ++ bytes) for sha1 and sha256;
(c) every order of <= 3 setter calls on a live object, reading .id between the calls: the id always equals that of
    a fresh object with the same values (stale caches);
(d) tree entry order == git's base_name_compare (spec function), all entry sets <= 3 over names with '/'-order traps;
(e) thorough tier: names and acceptance by C git (git hash-object -t <type> --stdin, git mktree).
Never counted as proved."""
import hashlib
import itertools
import json
import os
import subprocess
import sys
import tempfile
import time

HERE = os.path.dirname(os.path.dirname(os.path.abspath(__file__)))
sys.path.insert(0, HERE)


def main():
    tier = sys.argv[sys.argv.index("--tier") + 1] if "--tier" in sys.argv else "quick"
    repo = os.environ.get("VERIF_REPO", "/repo")
    from pyvc import native
    native.setup(repo)
    from contracts.specs_py import base_name_lt, is_dir_mode
    from dulwich import objects as O
    from dulwich.objects import Blob, Commit, Tag, Tree
    t0 = time.time()
    cases = 0
    failures = []
    git_inputs = []          # (type name, raw bytes, dulwich hex id)

    def fail(what, detail):
        if len(failures) < 10:
            failures.append({"what": what, "detail": detail})

    def name_ok(obj, what):
        raw = obj.as_raw_string()
        hdr = obj.type_name + b" " + str(len(raw)).encode() + b"\0"
        if obj.id != hashlib.sha1(hdr + raw).hexdigest().encode():
            fail("id is not sha1(header ++ content)", {"what": what, "raw": raw[:120].decode("latin-1")})
        try:
            from dulwich.object_format import SHA256
            if obj.get_id(SHA256) != hashlib.sha256(hdr + raw).hexdigest().encode():
                fail("sha256 id is not sha256(header ++ content)", {"what": what})
        except ImportError:
            pass

    # ---- (a0) one cache slot, two hash functions: whatever is asked first, an object answers each format with that format's hash
    try:
        from dulwich.object_format import SHA1, SHA256
        for mk in (lambda fmt: O.ShaFile.from_raw_string(3, b"x", object_format=fmt), lambda fmt: O.ShaFile.from_raw_string(2, b"", object_format=fmt),
                   lambda fmt: O.ShaFile.from_raw_string(1, b"tree " + b"0" * (40 if fmt is SHA1 else 64) + b"\nauthor a <a@b> 0 +0000\ncommitter a <a@b> 0 +0000\n\nm\n", object_format=fmt)):
            for fmt in (SHA1, SHA256):
                for order in (("id", "own", "other"), ("own", "id", "other"), ("other", "own", "id"), ("hash", "other", "own"), ("edit", "own", "other")):
                    cases += 1
                    try:
                        o = mk(fmt)
                    except Exception:  # noqa: BLE001
                        continue
                    raw = o.as_raw_string()
                    hdr = o.type_name + b" " + str(len(raw)).encode() + b"\0"
                    want = {SHA1: hashlib.sha1(hdr + raw).hexdigest().encode(), SHA256: hashlib.sha256(hdr + raw).hexdigest().encode()}
                    other = SHA256 if fmt is SHA1 else SHA1
                    for step in order:
                        if step == "id":
                            _ = o.id
                        elif step == "hash":
                            _ = hash(o)
                        elif step == "edit" and isinstance(o, O.Blob):
                            o.data = o.data
                        elif step == "own" and o.get_id(fmt) != want[fmt]:
                            fail("get_id(own format) is not that format's hash of header ++ content", {"format": fmt.name if hasattr(fmt, "name") else repr(fmt), "order": list(order), "got": o.get_id(fmt).decode()})
                        elif step == "other" and o.get_id(other) != want[other]:
                            fail("get_id(other format) is not that format's hash of header ++ content", {"format": repr(other), "order": list(order), "got": o.get_id(other).decode()})
    except ImportError:
        pass
    # ---- (a1) copy() keeps type, bytes, id and object format, for both hash functions
    try:
        from dulwich.object_format import SHA1, SHA256
        for fmt in (SHA1, SHA256):
            hexlen = 40 if fmt is SHA1 else 64
            tr = Tree()
            tr.object_format = fmt
            tr.add(b"a", 0o100644, b"ab" * (hexlen // 2))
            tr.add(b"d", 0o40000, b"cd" * (hexlen // 2))
            bl = O.ShaFile.from_raw_string(3, b"blob data", object_format=fmt)
            for o in (tr, bl):
                cases += 1
                try:
                    c2 = o.copy()
                    if type(c2) is not type(o) or c2.as_raw_string() != o.as_raw_string() or c2.get_id(fmt) != o.get_id(fmt) or c2.object_format is not fmt:
                        fail("copy() does not preserve bytes / id / object format", {"type": o.type_name.decode(), "format": repr(fmt)})
                except Exception as e:  # noqa: BLE001
                    fail("copy() raised", {"type": o.type_name.decode(), "format": repr(fmt), "exc": repr(e)[:150]})
    except ImportError:
        pass
    # ---- (a2) listed findings, own labels: (i) an object parsed WITHOUT the blank line after its headers (no message at all) gains
    #      one when a setter forces re-serialisation; (ii) the '-0000' / unnecessary-minus flag has no setter and survives a new offset
    for raw_, kind in ((b"tree " + b"a" * 40 + b"\nauthor A <a@b> 0 +0000\ncommitter A <a@b> 0 +0000\n", "commit"), (b"object " + b"a" * 40 + b"\ntype commit\ntag v1\n", "tag")):
        cases += 1
        o = (Commit if kind == "commit" else Tag).from_string(raw_)
        if kind == "commit":
            o.tree = o.tree
        else:
            o.name = o.name
        if o.as_raw_string() != raw_:
            fail("an object parsed without the blank line after its headers gains one when re-serialised", {"type": kind, "rewritten_tail": o.as_raw_string()[-12:].decode("latin-1")})
    cases += 1
    o = Commit.from_string(b"tree " + b"a" * 40 + b"\nauthor A <a@b> 5 -0000\ncommitter A <a@b> 0 +0000\n\nm\n")
    o.author_timezone = 3600
    if b"author A <a@b> 5 +0100\n" not in o.as_raw_string():
        fail("the -0000 flag survives a time zone setter (a new offset is written with an unnecessary minus)", {"line": o.as_raw_string().split(b"\n")[1].decode("latin-1")})
    # ---- (a) timezones ------------------------------------------------------------------------------------------
    for sign in (b"+", b"-"):
        for hh in range(100):
            for mm in range(60):
                text = sign + b"%02d%02d" % (hh, mm)
                cases += 1
                off, neg = O.parse_timezone(text)
                want = (1 if sign == b"+" else -1) * (hh * 3600 + mm * 60)
                if off != want or neg != (sign == b"-" and hh == 0 and mm == 0) or O.format_timezone(off, neg) != text:
                    fail("timezone text does not round trip", {"text": text.decode(), "parsed": [off, neg], "formatted": O.format_timezone(off, neg).decode()})
    for off in range(-99 * 3600 - 59 * 60, 100 * 3600, 60):
        for neg in ((False, True) if off == 0 else (False,)):
            cases += 1
            if O.parse_timezone(O.format_timezone(off, neg)) != (off, neg):
                fail("timezone value does not round trip", {"offset": off, "neg_utc": neg})

    # ---- (b) objects from field values ---------------------------------------------------------------------------
    T1 = b"4b825dc642cb6eb9a060e54bf8d69288fbee4904"
    P1, P2, P3 = (bytes([c]) * 40 for c in b"abc")
    IDENTS = [b"A U Thor <a@example.com>", b"\xc3\xa9\xff <x>", b" <>", b"N <e@x> extra> <z>", b"C\rR <cr@x>"]
    TIMES = [0, 1, -1, 1234567890, 2 ** 31, 2 ** 63 - 1, -(2 ** 40)]
    ZONES = [(0, False), (0, True), (3600, False), (-7 * 3600, False), (5 * 3600 + 45 * 60, False), (-(12 * 3600 + 30 * 60), False), (99 * 3600 + 59 * 60, False)]
    MESSAGES = [b"", b"m", b"subject\n\nbody\n", b"\n\nleading blank", b" starts with space\n", b"no newline at end", b"x\n" * 3 + b"tree " + T1 + b"\n"]
    SIG = b"-----BEGIN PGP SIGNATURE-----\n\niQEz\n=abcd\n-----END PGP SIGNATURE-----"
    SSHSIG = b"-----BEGIN SSH SIGNATURE-----\nU1NI\n-----END SSH SIGNATURE-----"
    EXTRAS = [[], [(b"x-custom", b"v")], [(b"x-multi", b"l1\nl2\n l3"), (b"x-empty", b"")], [(b"HG:rename-source", b"hg"), (b"x-custom", b"v")],
              [(b"x-cr", b"a\rb\r\nc"), (b"x-trailing-empty-line", b"v\n")], [(b"x-ff", b"a\x0cb\x1cc\x85d")]]
    SIG_TRAIL = SIG + b"\n"                           # old git/GitHub layout: the header ends in an empty continuation line
    SIG_CRLF = SIG.replace(b"\n", b"\r\n")

    def mk_tag(name=b"v1", target=(Commit, P1), tagger=IDENTS[0], when=(1, (0, False)), message=b"msg\n", signature=None):
        t = Tag()
        t.name = name
        t.object = target
        t.tagger = tagger
        if tagger is not None and when is not None:
            t.tag_time = when[0]
            t.tag_timezone = when[1][0]
            t._tag_timezone_neg_utc = when[1][1]
        t.message = message
        if signature is not None:
            t.signature = signature
        return t
    MERGETAG = mk_tag(message=b"merged tag\n", signature=b"\n" + SIG + b"\n")

    CF = dict(tree=T1, parents=(), author=IDENTS[0], committer=IDENTS[0], author_time=1, commit_time=2, author_zone=(0, False), commit_zone=(3600, False),
              encoding=None, message=b"m\n", gpgsig=None, mergetag=(), extra=())
    DOM = dict(parents=[(), (P1,), (P1, P2), (P1, P2, P3)], author=IDENTS, committer=IDENTS[:2], author_time=TIMES, commit_time=TIMES[:3],
               author_zone=ZONES, commit_zone=ZONES[:3], encoding=[None, b"ISO-8859-1"], message=MESSAGES + [None], gpgsig=[None, SIG, SSHSIG, SIG_TRAIL, SIG_CRLF],
               mergetag=[(), (MERGETAG,)], extra=[tuple(e) for e in EXTRAS])

    def mk_commit(f):
        c = Commit()
        c.tree = f["tree"]
        c.parents = list(f["parents"])
        c.author, c.committer = f["author"], f["committer"]
        c.author_time, c.commit_time = f["author_time"], f["commit_time"]
        c.author_timezone, c._author_timezone_neg_utc = f["author_zone"]
        c.commit_timezone, c._commit_timezone_neg_utc = f["commit_zone"]
        if f["encoding"] is not None:
            c.encoding = f["encoding"]
        c.message = f["message"]          # None = "no message text" (serialised like an empty message)
        if f["gpgsig"] is not None:
            c.gpgsig = f["gpgsig"]
        if f["mergetag"]:
            c.mergetag = list(f["mergetag"])
        if f["extra"]:
            c._extra = list(f["extra"])
        return c

    def commit_fields(c):
        return dict(tree=c.tree, parents=tuple(c.parents), author=c.author, committer=c.committer, author_time=c.author_time, commit_time=c.commit_time,
                    author_zone=(c.author_timezone, c._author_timezone_neg_utc), commit_zone=(c.commit_timezone, c._commit_timezone_neg_utc),
                    encoding=c.encoding, message=c.message, gpgsig=c.gpgsig, mergetag=tuple(m.as_raw_string() for m in c.mergetag), extra=tuple(c._extra))

    def norm(f):
        g = dict(f)
        g["mergetag"] = tuple(m.as_raw_string() if not isinstance(m, bytes) else m for m in f["mergetag"])
        if g["message"] is None:
            g["message"] = b""           # a commit without message text serialises as one with an empty message
        return g

    SETTERS = {
        "parents": lambda c, v: setattr(c, "parents", list(v)), "author": lambda c, v: setattr(c, "author", v), "committer": lambda c, v: setattr(c, "committer", v),
        "author_time": lambda c, v: setattr(c, "author_time", v), "commit_time": lambda c, v: setattr(c, "commit_time", v),
        "author_zone": lambda c, v: (setattr(c, "author_timezone", v[0]), setattr(c, "_author_timezone_neg_utc", v[1]), setattr(c, "author_time", c.author_time)),      # (offset, then the private -0000 flag as dulwich's own code does, then a neutral public setter: the private write marks nothing dirty)
        "commit_zone": lambda c, v: (setattr(c, "commit_timezone", v[0]), setattr(c, "_commit_timezone_neg_utc", v[1]), setattr(c, "commit_time", c.commit_time)),
        "encoding": lambda c, v: setattr(c, "encoding", v), "message": lambda c, v: setattr(c, "message", v if v is not None else b""),
        "gpgsig": lambda c, v: setattr(c, "gpgsig", v), "mergetag": lambda c, v: setattr(c, "mergetag", list(v)),
        "extra": lambda c, v: (setattr(c, "_extra", list(v)), setattr(c, "message", c.message)),
    }
    # all pairs of field domains around the default (pairwise product), plus single-field edits of the parsed object
    keys = sorted(DOM)
    seen = set()
    combos = []
    for k1, k2 in itertools.combinations(keys, 2):
        for v1 in DOM[k1]:
            for v2 in DOM[k2]:
                combos.append({k1: v1, k2: v2})
    if tier == "quick":
        combos = combos[::3]
    for ch in combos:
        f = dict(CF, **ch)
        cases += 1
        try:
            c = mk_commit(f)
            raw = c.as_raw_string()
            if raw in seen:
                continue
            seen.add(raw)
            name_ok(c, "commit")
            p = Commit.from_string(raw)
            if norm(commit_fields(p)) != norm(f):
                fail("commit fields do not survive serialise/parse", {"fields": repr(ch)[:300], "raw": raw[:300].decode("latin-1")})
                continue
            if p.as_raw_string() != raw or p.id != c.id:
                fail("parsed commit does not re-serialise to the same bytes", {"fields": repr(ch)[:300]})
            p._needs_serialization = True       # force a rewrite from the parsed field values
            if p.as_raw_string() != raw or p.id != c.id:
                fail("commit rewritten from parsed fields differs", {"fields": repr(ch)[:300], "raw": raw[:300].decode("latin-1"), "rewritten": p.as_raw_string()[:300].decode("latin-1")})
            git_inputs.append(("commit", raw, c.id))
            # one field changed on the parsed object == fresh object with that value
            for k in ("author_time", "message", "parents", "committer"):
                v = DOM[k][1]
                q = Commit.from_string(raw)
                _ = q.id
                SETTERS[k](q, v)
                fresh = mk_commit(dict(f, **{k: v}))
                if q.as_raw_string() != fresh.as_raw_string() or q.id != fresh.id:
                    fail("one field changed on a parsed commit: other bytes differ or id stale", {"fields": repr(ch)[:200], "changed": k})
        except Exception as e:  # noqa: BLE001
            fail("commit round trip raised", {"fields": repr(ch)[:300], "exc": repr(e)[:200]})

    # tags
    for target in ((Commit, P1), (Tree, T1), (Blob, P2), (Tag, P3)):
        for tagger, when in [(None, None), (IDENTS[0], (1, ZONES[0])), (IDENTS[1], (TIMES[4], ZONES[1])), (IDENTS[0], (-1, ZONES[3])), (IDENTS[2], None),
                             (IDENTS[0], (0, ZONES[0])), (IDENTS[1], (0, ZONES[3]))]:           # (the epoch itself: a falsy time stamp)
            for message in (b"", b"msg\n", b"multi\n\nline\n", None):
                for signature in (None, SIG + b"\n", SSHSIG + b"\n"):
                    for name in (b"v1", b"\xff odd name"):
                        cases += 1
                        try:
                            t = mk_tag(name, target, tagger, when, message, signature)
                            raw = t.as_raw_string()
                            name_ok(t, "tag")
                            p = Tag.from_string(raw)
                            got = (p.name, p.object, p.tagger, p.tag_time, p.tag_timezone, p.message or b"", p.signature)
                            want = (name, target, tagger, when[0] if (when and tagger) else None, when[1][0] if (when and tagger) else None, message or b"", signature)
                            if got != want:
                                fail("tag fields do not survive serialise/parse", {"want": repr(want)[:300], "got": repr(got)[:300]})
                                continue
                            p._needs_serialization = True
                            if p.as_raw_string() != raw or p.id != t.id:
                                fail("tag rewritten from parsed fields differs", {"raw": raw[:200].decode("latin-1"), "rewritten": p.as_raw_string()[:200].decode("latin-1")})
                            q = Tag.from_string(raw)
                            _ = q.id
                            q.name = b"other"
                            if q.id != mk_tag(b"other", target, tagger, when, message, signature).id:
                                fail("tag name changed on a parsed tag: id differs from a fresh tag", {"raw": raw[:200].decode("latin-1")})
                            if tagger is not None and when is not None:
                                git_inputs.append(("tag", raw, t.id))
                        except Exception as e:  # noqa: BLE001
                            fail("tag round trip raised", {"exc": repr(e)[:200], "target": target[0].__name__})

    # blobs: any bytes, any chunking
    for data in (b"", b"a", b"\0\n\r\xff", b"blob 3\0abc", bytes(range(256)) * 5):
        for cuts in ((), (0,), (1,), (1, 1), (len(data) // 2,), (len(data),)):
            cases += 1
            chunks, pos = [], 0
            for cpos in cuts:
                chunks.append(data[pos:cpos])
                pos = max(pos, cpos)
            chunks.append(data[pos:])
            b = Blob()
            _ = b.id
            b.chunked = chunks
            name_ok(b, "blob")
            if b.id != Blob.from_string(data).id or b.as_raw_string() != data:
                fail("blob id depends on chunking or is stale", {"len": len(data), "cuts": list(cuts)})
            b.data = data + b"!"
            if b.id != Blob.from_string(data + b"!").id:
                fail("blob id stale after data setter", {"len": len(data)})
            git_inputs.append(("blob", data, Blob.from_string(data).id))

    # ---- (d) trees: canonical order and round trip -------------------------------------------------------------------
    NAMES = [b"a", b"a.b", b"a-", b"a0", b"a/"[:1] + b"b", b"a.", b"\xff", b"A", b"a b"]
    MODES = [0o100644, 0o100755, 0o120000, 0o40000, 0o160000]
    ents = [(n, m) for n in NAMES for m in MODES]
    tcombos = [c for r in (0, 1, 2, 3) for c in itertools.combinations(range(len(ents)), r) if len({ents[i][0] for i in c}) == len(c)]
    if tier == "quick":
        tcombos = tcombos[::5]
    for combo in tcombos:
        cases += 1
        try:
            t = Tree()
            for j, i in enumerate(reversed(combo)):
                t.add(ents[i][0], ents[i][1], [P1, P2, P3][j % 3])
            raw = t.as_raw_string()
            name_ok(t, "tree")
            items = list(t.iteritems())
            for x, y in zip(items, items[1:]):
                if not base_name_lt(x.path, is_dir_mode(x.mode), y.path, is_dir_mode(y.mode)):
                    fail("tree entries not in git's order", {"names": [(e.path.decode("latin-1"), oct(e.mode)) for e in items]})
            p = Tree.from_string(raw)
            if list(p.iteritems()) != items:
                fail("tree entries do not survive serialise/parse", {"names": [e.path.decode("latin-1") for e in items]})
            p._needs_serialization = True
            if p.as_raw_string() != raw or p.id != t.id:
                fail("tree rewritten from parsed entries differs", {"names": [e.path.decode("latin-1") for e in items]})
            # one entry changed on a parsed tree
            if combo:
                q = Tree.from_string(raw)
                _ = q.id
                n0 = ents[combo[0]][0]
                q[n0] = (0o100644, P3)
                f2 = Tree()
                for j, i in enumerate(reversed(combo)):
                    if ents[i][0] != n0:
                        f2.add(ents[i][0], ents[i][1], [P1, P2, P3][j % 3])
                f2.add(n0, 0o100644, P3)
                if q.id != f2.id:
                    fail("tree entry replaced on a parsed tree: id differs from a fresh tree", {"names": [e.path.decode("latin-1") for e in items]})
                del q[n0]
                f3 = Tree()
                for j, i in enumerate(reversed(combo)):
                    if ents[i][0] != n0:
                        f3.add(ents[i][0], ents[i][1], [P1, P2, P3][j % 3])
                if q.id != f3.id:
                    fail("tree entry deleted on a parsed tree: id stale", {"names": [e.path.decode("latin-1") for e in items]})
            if len(combo) <= 2 or tier == "thorough":
                git_inputs.append(("tree", raw, t.id))
        except Exception as e:  # noqa: BLE001
            fail("tree round trip raised", {"exc": repr(e)[:200], "entries": [(ents[i][0].decode("latin-1"), oct(ents[i][1])) for i in combo]})

    # ---- (c) setter orders on a live object, .id read between the calls ---------------------------------------------
    EDIT = {"parents": (P3,), "author": IDENTS[1], "author_time": 99, "author_zone": (0, True), "encoding": b"latin1", "message": b"changed\n",
            "gpgsig": SIG, "extra": ((b"x-new", b"1"),), "commit_zone": (-3600, False), "mergetag": (MERGETAG,)}
    for r in (1, 2, 3):
        for ks in itertools.permutations(sorted(EDIT), r):
            if tier == "quick" and r == 3 and hash(ks) % 4:
                continue
            for parsed in (False, True):
                cases += 1
                f = dict(CF)
                c = mk_commit(f)
                if parsed:
                    c = Commit.from_string(c.as_raw_string())
                for k in ks:
                    _ = c.id
                    SETTERS[k](c, EDIT[k])
                    f[k] = EDIT[k]
                    if c.id != mk_commit(f).id:
                        fail("commit id stale or bytes differ after a setter sequence", {"setters": list(ks), "after": k, "parsed": parsed})
                        break
    for ks in itertools.permutations(["name", "object", "tagger", "tag_time", "message", "signature"], 3):
        cases += 1
        vals = dict(name=b"v1", object=(Commit, P1), tagger=IDENTS[0], tag_time=1, message=b"msg\n", signature=None)
        new = dict(name=b"n2", object=(Tree, T1), tagger=IDENTS[1], tag_time=77, message=b"other\n", signature=SIG + b"\n")

        def build(v):
            return mk_tag(v["name"], v["object"], v["tagger"], (v["tag_time"], (0, False)), v["message"], v["signature"])
        t = Tag.from_string(build(vals).as_raw_string())
        for k in ks:
            _ = t.id
            setattr(t, k, new[k])
            vals[k] = new[k]
            if t.id != build(vals).id:
                fail("tag id stale or bytes differ after a setter sequence", {"setters": list(ks), "after": k})
                break

    # ---- (e) C git: names and acceptance ---------------------------------------------------------------------------
    git_cases = 0
    if tier == "thorough":
        with tempfile.TemporaryDirectory() as d:
            subprocess.run(["git", "init", "-q", d], check=True)
            # objects referred to must not exist for hash-object (no connectivity check); fsck-level format checks apply
            for typ, raw, hexid in git_inputs:
                git_cases += 1
                pr = subprocess.run(["git", "-C", d, "hash-object", "-t", typ, "--stdin"], input=raw, capture_output=True)
                if pr.returncode != 0:
                    # git's fsck-on-write refuses some inputs dulwich produces from odd field values on purpose (e.g. an
                    # identity without a name): only complain when git names the object differently or rejects a plain one
                    lit = subprocess.run(["git", "-C", d, "hash-object", "-t", typ, "--literally", "--stdin"], input=raw, capture_output=True)
                    if lit.stdout.strip() != hexid:
                        fail("git names the object differently", {"type": typ, "raw": raw[:200].decode("latin-1"), "git": lit.stdout.decode().strip(), "dulwich": hexid.decode()})
                    continue
                if pr.stdout.strip() != hexid:
                    fail("git names the object differently", {"type": typ, "raw": raw[:200].decode("latin-1"), "git": pr.stdout.decode().strip(), "dulwich": hexid.decode()})
            # git mktree builds the same tree from the same entries
            for combo in tcombos[::7]:
                if not combo:
                    continue
                git_cases += 1
                t = Tree()
                lines = []
                for j, i in enumerate(combo):
                    sha = [P1, P2, P3][j % 3]
                    t.add(ents[i][0], ents[i][1], sha)
                    kind = {0o40000: "tree", 0o160000: "commit"}.get(ents[i][1], "blob")
                    lines.append(b"%o %s %s\t%s" % (ents[i][1], kind.encode(), sha, ents[i][0]))
                pr = subprocess.run(["git", "-C", d, "mktree", "--missing", "-z"], input=b"\0".join(lines) + b"\0", capture_output=True)
                if pr.returncode == 0 and pr.stdout.strip() != t.id:
                    fail("git mktree gives a different tree id", {"entries": [ln.decode("latin-1") for ln in lines], "git": pr.stdout.decode().strip(), "dulwich": t.id.decode()})
    print(json.dumps({"name": "c01_roundtrip", "function": "dulwich/objects.py Commit/Tag/Tree/Blob serialise, parse, setters, sha", "cases": cases + git_cases,
                      "exhaustive": True, "bound": "timezones: all 12000 [+-]hhmm texts and all minute offsets within +-99:59; commits: pairwise product of 12 field domains "
                      "(<= 8 values each) around a default; tags: 4 targets x 5 taggers x 4 messages x 3 signatures x 2 names; trees: all entry sets <= 3 over 9 names x 5 modes; "
                      "all orders of <= 3 of 10 commit setters and 3 of 6 tag setters with .id read in between"
                      + ("; git 2.39 hash-object / mktree cross-check" if tier == "thorough" else "; quick tier samples every 3rd commit combination, every 5th tree set"),
                      "failures": failures, "secs": round(time.time() - t0, 2)}))


if __name__ == "__main__":
    main()

"""Bounded stand-in (C11): (a) _compress_path/_decompress_path(_from_stream) round trip, exhaustive over short
paths on an alphabet incl. separators, plus long prefixes around the varint boundaries (127/128/16511/16512);
(b) whole index write -> read for versions 2,3,4 over small entry sets from a path pool with shared prefixes
and names of length 0xFFE..0x1001, all stat fields, flags and stages; (c) thorough tier only: spec validation
against C git (git update-index --index-version N / git ls-files --stage).  Never counted as proved."""
import itertools
import json
import os
import subprocess
import sys
import tempfile
import time
from io import BytesIO

HERE = os.path.dirname(os.path.dirname(os.path.abspath(__file__)))
sys.path.insert(0, HERE)


def main():
    tier = sys.argv[sys.argv.index("--tier") + 1] if "--tier" in sys.argv else "quick"
    repo = os.environ.get("VERIF_REPO", "/repo")
    from pyvc import native
    native.setup(repo)
    from dulwich import index as IX
    t0 = time.time()
    cases = 0
    failures = []

    def fail(what, detail):
        if len(failures) < 10:
            failures.append({"what": what, "detail": detail})

    # (a) path compression
    alpha = b"ab/"
    shorts = [bytes(t) for n in range(0, 4) for t in itertools.product(alpha, repeat=n)]
    longs = [b"d/" + b"x" * n + tail for n in (120, 125, 126, 127, 128, 130, 16380, 16509, 16510, 16511, 16512, 16513, 20000) for tail in (b"", b"/y", b"z")]
    pairs = list(itertools.product(shorts, shorts)) + list(itertools.product(longs, shorts[:6] + longs[:9])) + list(itertools.product(shorts[:6], longs))
    for path, prev in pairs:
        cases += 1
        try:
            comp = IX._compress_path(path, prev)
            got, off = IX._decompress_path(comp + b"tail", 0, prev)
            got2, used = IX._decompress_path_from_stream(BytesIO(comp + b"tail"), prev)
            if got != path or off != len(comp) or got2 != path or used != len(comp):
                fail("path compression round trip", {"path_len": len(path), "prev_len": len(prev), "path": path[:40].hex(), "prev": prev[:40].hex()})
        except Exception as e:  # noqa: BLE001
            fail("path compression raised", {"path_len": len(path), "prev_len": len(prev), "exc": repr(e)[:200]})
    # (b) whole-file round trip
    pool = [b"a", b"a.b", b"a/b", b"a/b/c", b"a0", b"\xff\xfe", b"d/" + b"q" * 200, b"d/" + b"q" * 199 + b"r",
            b"n" * 0xFFE, b"n" * 0xFFF, b"n" * 0x1000, b"n" * 0x1001]
    sha = bytes(range(20)).hex().encode()

    def entry(i, flags=0, ext=0):
        return IX.IndexEntry(ctime=(1600000000 + i, 5 * i), mtime=(1700000000 + i, 7 * i), dev=2049 + i, ino=10 ** 6 + i, mode=0o100644 if i % 2 else 0o100755,
                             uid=1000, gid=100, size=[0, 1, 2 ** 31 - 1, 2 ** 32 - 1][i % 4], sha=sha, flags=flags, extended_flags=ext)
    combos = [c for r in (0, 1, 2, 3) for c in itertools.combinations(range(len(pool)), r)]
    if tier == "quick":
        combos = combos[::2]
    with tempfile.TemporaryDirectory() as d:
        for ci, combo in enumerate(combos):
            for ver in (2, 3, 4):
                for ext in ((0,) if ver == 2 else (0, IX.EXTENDED_FLAG_SKIP_WORKTREE, IX.EXTENDED_FLAG_INTEND_TO_ADD)):
                    cases += 1
                    path = os.path.join(d, f"i{ci}_{ver}_{ext}")
                    try:
                        ents = {pool[i]: entry(i, ext=ext if k == 0 else 0) for k, i in enumerate(combo)}
                        with open(path, "wb") as f:
                            from dulwich.pack import SHA1Writer
                            w = SHA1Writer(f)
                            IX.write_index_dict(w, ents, version=ver)
                            w.close()
                        idx = IX.Index(path)
                        got = {p: idx[p] for p in idx}
                        for e in ents.values():          # the writer records the presence of extended flags in the flags word
                            if e.extended_flags:
                                e.flags |= IX.FLAG_EXTENDED
                        if got != ents or list(idx) != sorted(ents):
                            fail("index file round trip", {"paths": [len(pool[i]) for i in combo], "version": ver, "ext": ext})
                        # damage must be detected through the trailing checksum
                        if ents:
                            raw = bytearray(open(path, "rb").read())
                            raw[len(raw) // 2] ^= 0x01
                            open(path, "wb").write(bytes(raw))
                            try:
                                IX.Index(path)
                                fail("damaged index accepted", {"version": ver, "paths": [len(pool[i]) for i in combo]})
                            except Exception:  # noqa: BLE001
                                pass
                    except Exception as e:  # noqa: BLE001
                        fail("index round trip raised", {"paths": [len(pool[i]) for i in combo], "version": ver, "ext": ext, "exc": repr(e)[:300]})
        # conflict stages, incl. missing earlier stages ({2,3}, {1,3}, {2}, {3})
        for stages in ((1, 2, 3), (2, 3), (1, 3), (1, 2), (1,), (2,), (3,)):
            for ver in (2, 3, 4):
                cases += 1
                path = os.path.join(d, f"conf{ver}_{len(stages)}")
                sides = {st: entry(st) for st in stages}
                ents = {b"a/conflict": IX.ConflictedIndexEntry(ancestor=sides.get(1), this=sides.get(2), other=sides.get(3)), b"z": entry(1)}
                try:
                    with open(path, "wb") as f:
                        from dulwich.pack import SHA1Writer
                        w = SHA1Writer(f)
                        IX.write_index_dict(w, ents, version=ver)
                        w.close()
                    idx = IX.Index(path)
                    got = idx[b"a/conflict"]
                    have = tuple(st for st, side in ((1, got.ancestor), (2, got.this), (3, got.other)) if side is not None)
                    if have != stages:
                        fail("conflict stages do not round trip", {"written": list(stages), "read": list(have), "version": ver})
                except Exception as e:  # noqa: BLE001
                    fail("conflict round trip raised", {"stages": list(stages), "version": ver, "exc": repr(e)[:200]})
        # (b2) flag bits, field widths, readers with skip_hash, extensions
        VALID = 0x8000                                     # FLAG_VALID: git's assume-unchanged bit
        for ver in (2, 3, 4):
            for fl, ext in ((VALID, 0), (VALID, IX.EXTENDED_FLAG_SKIP_WORKTREE if ver > 2 else 0), (0, 0)):
                cases += 1
                path = os.path.join(d, f"flags{ver}_{fl}_{ext}")
                sides = {2: entry(2, flags=fl), 3: entry(3, flags=fl)}
                ents = {b"a": entry(1, flags=fl, ext=ext), b"a/conflict": IX.ConflictedIndexEntry(ancestor=None, this=sides[2], other=sides[3]), b"z": entry(2)}
                try:
                    idx = IX.Index(path, read=False, version=ver)
                    for k_, v_ in ents.items():
                        idx[k_] = v_
                    idx.write()
                    back = IX.Index(path)
                    got_a, got_c = back[b"a"], back[b"a/conflict"]
                    if (got_a.flags & VALID) != fl or got_a.extended_flags != ext or (got_c.this.flags & VALID) != fl or (got_c.other.flags & VALID) != fl or (back[b"z"].flags & VALID):
                        fail("flag bits do not round trip (assume-valid / extended flags)", {"version": ver, "flags": fl, "extended": ext, "read_flags": [got_a.flags, got_c.this.flags, back[b"z"].flags], "read_extended": got_a.extended_flags})
                    # a reader opened with skip_hash still verifies a trailer that IS a checksum (non-zero)
                    raw = bytearray(open(path, "rb").read())
                    for off in (20, len(raw) // 2, len(raw) - 25):
                        cases += 1
                        bad = bytearray(raw)
                        bad[off] ^= 0x01
                        open(path + ".bad", "wb").write(bytes(bad))
                        for sk in (False, True):
                            try:
                                IX.Index(path + ".bad", skip_hash=sk)
                                fail("damaged index accepted", {"version": ver, "offset": off, "reader_skip_hash": sk})
                            except Exception:  # noqa: BLE001
                                pass
                except Exception as e:  # noqa: BLE001
                    fail("flag round trip raised", {"version": ver, "flags": fl, "extended": ext, "exc": repr(e)[:200]})
        # stat fields wider than the 32-bit on-disk fields keep their low 32 bits (git: truncation, not saturation, not an error)
        for ver in (2, 3, 4):
            for ino, dev, size, mt in ((2 ** 32 + 5, 2 ** 33 + 7, 2 ** 32 + 9, 1700000000.5), (2 ** 40 + 1, 3, 2 ** 35, (2 ** 32 + 1, 5)), (7, 2 ** 32 - 1, 2 ** 32 - 1, -1), (1, 1, 1, (1700000000, 999999999)), (1, 1, 2 ** 32, 5), (1, 1, 3 * 2 ** 32, 5)):
                cases += 1
                path = os.path.join(d, f"wide{ver}_{ino}")
                try:
                    st = os.stat_result((0o100644, ino, dev, 1, 1000, 100, size, 1700000000, 1700000000, 1700000000))
                    e = IX.index_entry_from_stat(st, sha)
                    e = IX.IndexEntry(ctime=e.ctime, mtime=mt, dev=e.dev, ino=e.ino, mode=e.mode, uid=e.uid, gid=e.gid, size=e.size, sha=e.sha, flags=0, extended_flags=0)
                    idx = IX.Index(path, read=False, version=ver)
                    idx[b"f"] = e
                    idx.write()
                    g = IX.Index(path)[b"f"]
                    if isinstance(mt, tuple):
                        want_mt = (mt[0] & 0xFFFFFFFF, mt[1] & 0xFFFFFFFF)
                    elif isinstance(mt, float):
                        want_mt = (int(mt) & 0xFFFFFFFF, int((mt - int(mt)) * 10 ** 9))
                    else:
                        want_mt = (mt & 0xFFFFFFFF, 0)
                    got_mt = g.mtime if isinstance(g.mtime, tuple) else (int(g.mtime), int(round((g.mtime - int(g.mtime)) * 10 ** 9)))
                    want_size = (size & 0xFFFFFFFF) or (0x80000000 if size else 0)          # git's munge_st_size()
                    if (g.ino, g.dev, g.size) != (ino & 0xFFFFFFFF, dev & 0xFFFFFFFF, want_size) or got_mt != want_mt:
                        fail("stat fields wider than 32 bits do not read back as their low 32 bits", {"version": ver, "written": [ino, dev, size, repr(mt)], "read": [g.ino, g.dev, g.size, repr(g.mtime)]})
                except Exception as e_:  # noqa: BLE001
                    fail("stat fields wider than 32 bits cannot be written", {"version": ver, "written": [ino, dev, size, repr(mt)], "exc": repr(e_)[:200]})
        # extensions: unknown optional ones survive Index.write -> Index.read byte for byte (empty payload included), in order;
        # git's lower-case "sdir" marker is read; an unknown REQUIRED (lower-case) one is refused by name, not as a checksum failure
        for ver in (2, 4):
            for exts in ([(b"ZZZZ", b"payload")], [(b"ABCD", b""), (b"WXYZ", b"\x00\x01")], [(b"sdir", b"")], [(b"ABCD", b"x"), (b"sdir", b"")]):
                cases += 1
                path = os.path.join(d, f"ext{ver}_{len(exts)}_{exts[0][0].decode()}")
                try:
                    idx = IX.Index(path, read=False, version=ver)
                    idx[b"f"] = entry(1)
                    idx._extensions = [IX.IndexExtension.from_raw(sig, data) for sig, data in exts]
                    idx.write()
                    back = IX.Index(path)
                    got = [(x.signature, x.to_bytes()) for x in back._extensions]
                    if got != exts or list(back) != [b"f"]:
                        fail("index extensions do not survive write -> read", {"version": ver, "written": [(a.decode(), b.hex()) for a, b in exts], "read": [(a.decode(), b.hex()) for a, b in got]})
                except Exception as e_:  # noqa: BLE001
                    fail("index with extensions cannot be read back", {"version": ver, "written": [(a.decode(), b.hex()) for a, b in exts], "exc": repr(e_)[:200]})
            cases += 1
            path = os.path.join(d, f"extreq{ver}")
            try:
                idx = IX.Index(path, read=False, version=ver)
                idx[b"f"] = entry(1)
                idx._extensions = [IX.IndexExtension(b"link", b"0123456789")]
                idx.write()
                try:
                    IX.Index(path)
                    fail("an index with an unknown REQUIRED extension is read as if the extension were not there", {"version": ver, "signature": "link"})
                except Exception as e_:  # noqa: BLE001
                    if "hecksum" in repr(e_) or "hecksum" in type(e_).__name__:
                        fail("an unknown required extension is reported as a checksum failure", {"version": ver, "exc": repr(e_)[:200]})
            except Exception as e_:  # noqa: BLE001
                fail("writing an index with a raw extension raised", {"version": ver, "exc": repr(e_)[:200]})
        git_cases = 0
        if tier == "thorough":
            # (c) spec validation against C git: both directions for v4 path compression
            r = os.path.join(d, "g")
            subprocess.run(["git", "init", "-q", r], check=True)
            names = ["d/" + "/".join(["x" * 100] * (n // 100) + ["x" * (n % 100 or 1)]) + t for n in (1, 126, 127, 128, 200, 300, 1000) for t in ("", "y")] + ["zz"]
            for n in names:
                os.makedirs(os.path.dirname(os.path.join(r, n)) or r, exist_ok=True)
                open(os.path.join(r, n), "w").write(n[-5:])
            subprocess.run(["git", "-C", r, "add", "."], check=True)
            for ver in (2, 3, 4):
                git_cases += 1
                subprocess.run(["git", "-C", r, "update-index", "--index-version", str(ver)], check=True)
                want = subprocess.run(["git", "-C", r, "ls-files", "--stage"], capture_output=True, check=True).stdout
                idx = IX.Index(os.path.join(r, ".git", "index"))
                if sorted(p.decode() for p in idx) != sorted(names):
                    fail("dulwich misreads a git-written index", {"version": ver})
                idx.write()
                got = subprocess.run(["git", "-C", r, "ls-files", "--stage"], capture_output=True).stdout
                if got != want:
                    fail("git misreads a dulwich-written index", {"version": ver})
    print(json.dumps({"name": "c11_roundtrip", "function": "dulwich/index.py path compression + write_index_dict/Index.read", "cases": cases + git_cases,
                      "exhaustive": True, "bound": "path pairs: all strings <= 3 over {a,b,/} squared + long prefixes around 127/128/16511/16512; "
                      "index files: entry subsets (<= 3) of a 12-path pool x versions 2,3,4 x extended flags; one-bit damage must be rejected (also by a skip_hash reader when the trailer is a real checksum); "
                      "assume-valid / extended flag bits on normal and conflict entries; stat fields and times wider than 32 bits; optional, empty, lower-case and unknown required extensions"
                      + ("; git 2.39 cross-check of v2/v3/v4" if tier == "thorough" else ""), "failures": failures, "secs": round(time.time() - t0, 2)}))


if __name__ == "__main__":
    main()

"""Bounded stand-in (C18): work tree round trip and status exactness on a real (temporary) file system.
(a) for every tree from a small family (regular files incl. empty / binary / non-UTF-8 names, executables, symlinks,
    nested directories): commit -> fresh checkout (porcelain.clone of the local repository and reset --hard into an
    emptied work tree) -> contents, link targets and exec bits equal the tree, status is clean, and staging everything
    reproduces the tree id;
(b) from a fixed base tree, ALL sequences of <= K edits from {modify same size, modify other size, chmod, delete,
    add untracked, file->symlink, symlink->file, file->directory, stage, remove from index}: porcelain.status equals
    the oracle computed from the three states (HEAD listing, index listing, directory listing);
(c) branch switches between all ordered pairs of the tree family: the work tree afterwards equals the target tree;
(d) thorough tier: `git status --porcelain=v1 -z` agrees.  Never counted as proved."""
import itertools
import json
import os
import shutil
import stat
import subprocess
import sys
import tempfile
import time

HERE = os.path.dirname(os.path.dirname(os.path.abspath(__file__)))
sys.path.insert(0, HERE)

F, X, L = 0o100644, 0o100755, 0o120000
TREES = {
    "base": {b"a": (F, b"alpha\n"), b"x": (X, b"#!/bin/sh\n"), b"l": (L, b"a"), b"d/f": (F, b"deep\n"), b"d/e/g": (F, b"")},
    "empty": {},
    "one": {b"a": (F, b"other\n")},
    "types": {b"a": (L, b"x"), b"x": (F, b"#!/bin/sh\n"), b"l": (F, b"was a link\n"), b"d": (F, b"file where a directory was\n")},
    "dirs": {b"a/b": (F, b"a became a directory\n"), b"d/f": (X, b"deep\n"), b"d/e": (F, b"e became a file\n")},
    "prefix": {b"lib/x": (F, b"x\n"), b"lib.py": (F, b"py\n"), b"lib-extra": (X, b"e\n"), b"lib /sp": (F, b"s\n")},
    "odd": {b"\xff\xfe name": (F, b"\x00\x01binary\xff"), b"sp ace/q\"uote": (X, b"q\n"), b"d/f": (F, b"deep\n")},
}


def wd_listing(root):
    out = {}
    for dp, dns, fns in os.walk(root):
        if ".git" in dns:
            dns.remove(".git")
        for fn in fns + [dn for dn in dns if os.path.islink(os.path.join(dp, dn))]:
            p = os.path.join(dp, fn)
            rel = os.path.relpath(p, root).encode("utf-8", "surrogateescape").replace(os.sep.encode(), b"/")
            st = os.lstat(p)
            if stat.S_ISLNK(st.st_mode):
                out[rel] = (L, os.readlink(os.fsencode(p)))
            elif stat.S_ISREG(st.st_mode):
                out[rel] = (X if st.st_mode & 0o100 else F, open(p, "rb").read())
        dns[:] = [dn for dn in dns if not os.path.islink(os.path.join(dp, dn))]
    return out


def main():
    tier = sys.argv[sys.argv.index("--tier") + 1] if "--tier" in sys.argv else "quick"
    repo_src = os.environ.get("VERIF_REPO", "/repo")
    from pyvc import native
    native.setup(repo_src)
    from dulwich import porcelain
    from dulwich.index import commit_tree
    from dulwich.objects import Blob
    from dulwich.repo import Repo
    t0 = time.time()
    cases = 0
    failures = []
    import io
    NULL = io.BytesIO()

    def fail(what, detail):
        cap = 1 if what.startswith("an executable-bit-only") else 3
        if len(failures) < 40 and sum(1 for f in failures if f["what"] == what) < cap:
            failures.append({"what": what, "detail": detail})

    def show(L_):
        return {p.decode("latin-1"): [oct(m), c[:12].decode("latin-1")] for p, (m, c) in sorted(L_.items())}

    def tree_of(r, listing):
        items = []
        for p, (m, c) in listing.items():
            b = Blob.from_string(c)
            r.object_store.add_object(b)
            items.append((p, b.id, m))
        return commit_tree(r.object_store, items)

    def write_wd(root, listing):
        for p, (m, c) in listing.items():
            fp = os.path.join(os.fsencode(root), p)
            os.makedirs(os.path.dirname(fp), exist_ok=True)
            if m == L:
                os.symlink(c, fp)
            else:
                open(fp, "wb").write(c)
                os.chmod(fp, 0o755 if m == X else 0o644)

    def clear_wd(root):
        for n in os.listdir(root):
            if n != ".git":
                p = os.path.join(root, n)
                shutil.rmtree(p) if os.path.isdir(p) and not os.path.islink(p) else os.remove(p)

    def index_listing(r):
        idx = r.open_index()
        out = {}
        for p in idx:
            e = idx[p]
            out[p] = (e.mode, r.object_store[e.sha].data)
        return out

    def status_sets(r):
        st = porcelain.status(r, untracked_files="all")
        staged = {k: sorted(v) for k, v in st.staged.items()}
        return staged, sorted(os.fsencode(p) if isinstance(p, str) else p for p in st.unstaged), sorted(os.fsencode(p) if isinstance(p, str) else p for p in st.untracked)

    def oracle(head, index, wd):
        staged = {"add": sorted(p for p in index if p not in head), "delete": sorted(p for p in head if p not in index),
                  "modify": sorted(p for p in index if p in head and head[p] != index[p])}
        unstaged = sorted(p for p in index if wd.get(p) != index[p])
        tracked_dirs = set()
        untracked = sorted(p for p in wd if p not in index)
        return staged, unstaged, untracked

    skipped_refused = [0]
    with tempfile.TemporaryDirectory() as d:
        # ---------- (a) checkout / stage round trip, (c) switches
        src = os.path.join(d, "src")
        os.mkdir(src)
        r = Repo.init(src)
        commits = {}
        from dulwich.objects import Commit
        for name, listing in TREES.items():
            # the commit is built from the listing directly (independent of add/status)
            c = Commit()
            c.tree = tree_of(r, listing)
            c.parents = []
            c.author = c.committer = b"a <a@b>"
            c.author_time = c.commit_time = 1700000000
            c.author_timezone = c.commit_timezone = 0
            c.message = b"c " + name.encode()
            r.object_store.add_object(c)
            commits[name] = c.id
            r.refs[b"refs/heads/" + name.encode()] = c.id
            # staging a fresh directory with that content reproduces the tree id
            cases += 1
            fresh = os.path.join(d, "fresh_" + name)
            os.mkdir(fresh)
            fr = Repo.init(fresh)
            try:
                write_wd(fresh, listing)
                if listing:
                    porcelain.add(fr)
                tid = fr.open_index().commit(fr.object_store)
                if tid != c.tree:
                    fail("staging a directory does not reproduce the tree built from the same listing", {"tree": name, "listing": show(listing), "index": show(index_listing(fr))})
            except Exception as e:  # noqa: BLE001
                fail("staging a fresh directory raised", {"tree": name, "exc": repr(e)[:300]})
            finally:
                fr.close()
        r.refs.set_symbolic_ref(b"HEAD", b"refs/heads/base")
        for name, listing in TREES.items():
            cases += 1
            dst = os.path.join(d, "co_" + name)
            try:
                porcelain.clone(src, dst, checkout=True, branch=name.encode(), errstream=NULL)
                rr = Repo(dst)
                for other in TREES:
                    rr.refs[b"refs/heads/" + other.encode()] = commits[other]
                got = wd_listing(dst)
                if got != listing:
                    fail("fresh checkout does not equal the tree", {"tree": name, "want": show(listing), "got": show(got)})
                s = status_sets(rr)
                if s != ({"add": [], "delete": [], "modify": []}, [], []):
                    fail("status not clean right after checkout", {"tree": name, "status": repr(s)[:300]})
                stn = porcelain.status(rr)          # default untracked mode ("normal": untracked directories collapsed)
                if list(stn.untracked) or list(stn.unstaged):
                    fail("status (default mode) not clean right after checkout", {"tree": name, "untracked": repr(stn.untracked)[:200], "unstaged": repr(stn.unstaged)[:200]})
                # an untracked file inside a tracked directory is reported as that file, an untracked directory as the directory
                if any(b"/" in p_ for p_ in listing):
                    tracked_dir = sorted(p_ for p_ in listing if b"/" in p_)[0].split(b"/")[0]
                    open(os.path.join(os.fsencode(dst), tracked_dir, b"untracked.txt"), "wb").write(b"u")
                    os.makedirs(os.path.join(dst, "newdir", "deep"))
                    open(os.path.join(dst, "newdir", "deep", "f"), "wb").write(b"u")
                    stn = porcelain.status(rr)
                    gotu = sorted(os.fsencode(u) for u in stn.untracked)
                    wantu = sorted([tracked_dir + b"/untracked.txt", b"newdir/"])
                    if gotu != wantu:
                        fail("status (default mode) misreports untracked paths", {"tree": name, "got": [u.decode("latin-1") for u in gotu], "want": [u.decode("latin-1") for u in wantu]})
                    os.remove(os.path.join(os.fsencode(dst), tracked_dir, b"untracked.txt"))
                    shutil.rmtree(os.path.join(dst, "newdir"))
                # permission bits other than the owner's executable bit are not a modification (umask, chmod 744 / 645)
                for p_, (m_, _c) in listing.items():
                    if m_ in (F, X):
                        os.chmod(os.path.join(os.fsencode(dst), p_), 0o744 if m_ == X else 0o645)
                s = status_sets(rr)
                if s != ({"add": [], "delete": [], "modify": []}, [], []):
                    fail("group/other permission bits are reported as a change", {"tree": name, "status": repr(s)[:300]})
                if rr.open_index().commit(rr.object_store) != rr[rr.head()].tree:
                    fail("index after checkout does not reproduce the tree id", {"tree": name})
                # (c) switch to every other tree and back
                for other, olisting in TREES.items():
                    if other == name:
                        continue
                    cases += 1
                    try:
                        porcelain.checkout(rr, other.encode() if isinstance(other, str) else other)
                        got = wd_listing(dst)
                        if got != olisting:
                            fail("branch switch: work tree does not equal the target tree", {"from": name, "to": other, "want": show(olisting), "got": show(got)})
                        s = status_sets(rr)
                        if s != ({"add": [], "delete": [], "modify": []}, [], []):
                            fail("branch switch: status not clean afterwards", {"from": name, "to": other, "status": repr(s)[:300]})
                        porcelain.checkout(rr, name.encode())
                        if wd_listing(dst) != listing:
                            fail("branch switch back: work tree does not equal the original tree", {"from": other, "to": name})
                    except Exception as e:  # noqa: BLE001
                        fail("branch switch raised", {"from": name, "to": other, "exc": repr(e)[:300]})
                        shutil.rmtree(dst, ignore_errors=True)
                        porcelain.clone(src, dst, checkout=True, branch=name.encode(), errstream=NULL)
                        rr = Repo(dst)
                        for o2 in TREES:
                            rr.refs[b"refs/heads/" + o2.encode()] = commits[o2]
                # (c2) switch with a tracked path already deleted on disk (git: a missing file never blocks a switch; a path the
                # target lacks leaves the index, a path that is the same in both trees stays an unstaged deletion)
                for p_, kind in [(q_, k_) for q_ in sorted(listing)[:4] for k_ in ("deleted", "replaced by a directory with an untracked file")]:
                    for other, olisting in TREES.items():
                        if other == name:
                            continue
                        cases += 1
                        fp_ = os.path.join(os.fsencode(dst), p_)
                        try:
                            os.remove(fp_)
                            if kind != "deleted":
                                os.mkdir(fp_)
                                open(os.path.join(fp_, b"untracked-inner"), "wb").write(b"u\n")
                            try:
                                porcelain.checkout(rr, other.encode())
                            except Exception as e_:  # noqa: BLE001
                                # refusing (CheckoutError, or NotTreeError from the conflict pre-check when a directory of the
                                # deleted path is a file in the target) is safe as long as nothing was touched; not a violation
                                skipped_refused[0] += 1
                                left = dict(listing)
                                del left[p_]
                                if kind != "deleted":
                                    left[p_ + b"/untracked-inner"] = (F, b"u\n")
                                if wd_listing(dst) != left or rr.open_index().commit(rr.object_store) != rr[commits[name]].tree:
                                    fail("branch switch with a locally removed path raised and left a partly updated work tree / index", {"from": name, "to": other, "path": p_.decode("latin-1"), "local_edit": kind, "exc": repr(e_)[:200]})
                            else:
                                if rr.open_index().commit(rr.object_store) != rr[commits[other]].tree:
                                    fail("branch switch with a locally removed path: the index does not reproduce the target tree", {"from": name, "to": other, "path": p_.decode("latin-1"), "local_edit": kind, "index": show(index_listing(rr))})
                                staged, unstaged, untracked = status_sets(rr)
                                want_unstaged = [p_] if olisting.get(p_) == listing[p_] else []
                                if staged != {"add": [], "delete": [], "modify": []} or unstaged != want_unstaged:
                                    fail("branch switch with a locally removed path: status afterwards is wrong", {"from": name, "to": other, "path": p_.decode("latin-1"), "local_edit": kind, "status": repr((staged, unstaged, untracked))[:300], "want_unstaged": [x.decode("latin-1") for x in want_unstaged]})
                            if kind != "deleted" and os.path.isdir(fp_) and not os.path.islink(fp_) and os.path.exists(os.path.join(fp_, b"untracked-inner")):
                                os.remove(os.path.join(fp_, b"untracked-inner"))
                                if not os.listdir(fp_):
                                    os.rmdir(fp_)
                            porcelain.reset(rr, "hard")
                            porcelain.checkout(rr, name.encode())
                            porcelain.reset(rr, "hard")
                            if wd_listing(dst) != listing:
                                raise RuntimeError("could not restore the starting tree")
                        except Exception as e:  # noqa: BLE001
                            if "could not restore" not in repr(e):
                                fail("branch switch with a locally removed path raised", {"from": name, "to": other, "path": p_.decode("latin-1"), "local_edit": kind, "exc": repr(e)[:300]})
                            rr.close()
                            shutil.rmtree(dst, ignore_errors=True)
                            porcelain.clone(src, dst, checkout=True, branch=name.encode(), errstream=NULL)
                            rr = Repo(dst)
                            for o2 in TREES:
                                rr.refs[b"refs/heads/" + o2.encode()] = commits[o2]
                # (c3) switch after a tracked directory was replaced by a symlink to a directory OUTSIDE the work tree holding
                # copies of its files: nothing behind the link may be touched, and the paths below it that the target lacks
                # leave the index all the same (targets with paths at or below the directory would have to write through
                # the link: refused by design, not exercised)
                tops = sorted({p_.split(b"/")[0] for p_ in listing if b"/" in p_})
                for top in tops[:1]:
                    for other, olisting in TREES.items():
                        if other == name or any(q_ == top or q_.startswith(top + b"/") for q_ in olisting if olisting.get(q_) != listing.get(q_)):
                            continue
                        cases += 1
                        outside = os.path.join(os.fsencode(d), b"outside_%d" % cases)
                        try:
                            shutil.copytree(os.path.join(os.fsencode(dst), top), outside, symlinks=True)
                            before = wd_listing(os.fsdecode(outside))
                            shutil.rmtree(os.path.join(os.fsencode(dst), top))
                            os.symlink(outside, os.path.join(os.fsencode(dst), top))
                            try:
                                porcelain.checkout(rr, other.encode())
                            except Exception:  # noqa: BLE001
                                skipped_refused[0] += 1
                            else:
                                if rr.open_index().commit(rr.object_store) != rr[commits[other]].tree:
                                    fail("branch switch with a directory replaced by a symlink: the index does not reproduce the target tree", {"from": name, "to": other, "directory": top.decode("latin-1"), "index": show(index_listing(rr))})
                            if wd_listing(os.fsdecode(outside)) != before:
                                fail("branch switch with a directory replaced by a symlink: files behind the link were touched", {"from": name, "to": other, "directory": top.decode("latin-1")})
                        except Exception as e:  # noqa: BLE001
                            fail("branch switch with a directory replaced by a symlink raised", {"from": name, "to": other, "directory": top.decode("latin-1"), "exc": repr(e)[:300]})
                        finally:
                            shutil.rmtree(outside, ignore_errors=True)
                            rr.close()
                            shutil.rmtree(dst, ignore_errors=True)
                            porcelain.clone(src, dst, checkout=True, branch=name.encode(), errstream=NULL)
                            rr = Repo(dst)
                            for o2 in TREES:
                                rr.refs[b"refs/heads/" + o2.encode()] = commits[o2]
                rr.close()
            except Exception as e:  # noqa: BLE001
                fail("checkout raised", {"tree": name, "exc": repr(e)[:300]})
        # ---------- (b) status after edit sequences
        base = TREES["base"]

        def plain(p):
            return os.path.isfile(p) and not os.path.islink(p)

        def E_modify_same(root, rr):
            if plain(os.path.join(root, "a")):
                open(os.path.join(root, "a"), "wb").write(b"ALPHA\n")

        def E_modify_size(root, rr):
            if plain(os.path.join(root, "d", "f")):
                open(os.path.join(root, "d", "f"), "ab").write(b"more\n")

        def E_chmod_x(root, rr):
            if plain(os.path.join(root, "a")):
                os.chmod(os.path.join(root, "a"), 0o755)

        def E_chmod_nox(root, rr):
            if os.path.isfile(os.path.join(root, "x")) and not os.path.islink(os.path.join(root, "x")):
                os.chmod(os.path.join(root, "x"), 0o644)

        def E_delete(root, rr):
            p = os.path.join(root, "x")
            if os.path.lexists(p) and not os.path.isdir(p):
                os.remove(p)

        def E_untracked(root, rr):
            open(os.path.join(root, "new"), "wb").write(b"n\n")

        def E_file_to_link(root, rr):
            p = os.path.join(root, "a")
            if os.path.lexists(p) and not os.path.isdir(p):
                os.remove(p)
                os.symlink("x", p)

        def E_link_to_file(root, rr):
            p = os.path.join(root, "l")
            if os.path.islink(p):
                os.remove(p)
                open(p, "wb").write(b"a")

        def E_file_to_dir(root, rr):
            p = os.path.join(root, "x")
            if os.path.lexists(p) and not os.path.isdir(p):
                os.remove(p)
                os.mkdir(p)
                open(os.path.join(p, "inner"), "wb").write(b"i\n")

        def E_stage_all(root, rr):
            porcelain.add(rr)            # "git add -A": afterwards the index must describe the directory
            got = index_listing(rr)
            wd = wd_listing(root)
            diff = [p for p in set(got) | set(wd) if got.get(p) != wd.get(p)]
            # the two listed findings get their own labels (alone or together); any OTHER difference is a violation
            exec_only = [p for p in diff if p in got and p in wd and got[p][1] == wd[p][1] and {got[p][0], wd[p][0]} == {F, X}]
            beyond = [p for p in diff if p in got and p not in wd and any(os.path.islink(os.path.join(os.fsencode(root), b"/".join(p.split(b"/")[:k]))) for k in range(1, p.count(b"/") + 1))]
            if diff and set(diff) == set(exec_only) | set(beyond):
                if exec_only:
                    fail("an executable-bit-only change is not noticed (status / add)", {"where": "add -A leaves the old mode in the index", "paths": sorted(p.decode() for p in exec_only)})
                if beyond:
                    fail("add keeps index entries that lie beyond a symlinked directory", {"where": "add -A after a tracked directory was replaced by a symlink", "paths": sorted(p.decode("latin-1") for p in beyond)})
            elif got != wd:
                raise AssertionError(f"after staging everything the index differs from the directory: index-only {sorted(set(got) - set(wd))}, "
                                     f"directory-only {sorted(set(wd) - set(got))}, differing {sorted(p for p in got if p in wd and got[p] != wd[p])}")

        def E_rm_cached(root, rr):
            idx = rr.open_index()
            if b"d/f" in idx:
                del idx[b"d/f"]
                idx.write()
        def E_unstage_a(root, rr):
            rr.get_worktree().unstage(["a"])

        def E_dir_to_file(root, rr):
            p = os.path.join(root, "d")
            if os.path.isdir(p) and not os.path.islink(p):
                shutil.rmtree(p)
                open(p, "wb").write(b"now a file\n")
        def E_link_same_blob(root, rr):
            # a regular file replaced by a symlink whose target text is the old content: same blob id, different mode
            p = os.path.join(os.fsencode(root), b"a")
            if plain(p):
                content = open(p, "rb").read()
                if content and b"\0" not in content:
                    os.remove(p)
                    os.symlink(content, p)

        def E_stage_a(root, rr):
            # "git add a": an explicitly named path is staged as it is on disk (mode and content)
            p = os.path.join(root, "a")
            if os.path.lexists(p) and not (os.path.isdir(p) and not os.path.islink(p)):
                porcelain.add(rr, paths=[p])
                got, wd = index_listing(rr), wd_listing(root)
                if got.get(b"a") != wd.get(b"a"):
                    raise AssertionError(f"after staging 'a' explicitly the index entry {got.get(b'a')} differs from the file {wd.get(b'a')}")

        def E_reset_mixed(root, rr):
            # "git reset" (mixed): the index becomes the HEAD tree again, mode and type included
            porcelain.reset(rr, "mixed", "HEAD")
            got = index_listing(rr)
            if got != base:
                raise AssertionError(f"after reset --mixed the index differs from HEAD: {sorted(p for p in set(got) | set(base) if got.get(p) != base.get(p))}")
        def E_dir_to_link(root, rr):
            # a tracked directory replaced by a symlink to a copy of itself outside the work tree
            p = os.path.join(root, "d")
            if os.path.isdir(p) and not os.path.islink(p):
                out = root + "_outside_d"
                if not os.path.exists(out):
                    shutil.copytree(p, out, symlinks=True)
                shutil.rmtree(p)
                os.symlink(out, p)

        def E_link_to_dir(root, rr):
            # a tracked symlink replaced by a directory with a file in it
            p = os.path.join(root, "l")
            if os.path.islink(p):
                os.remove(p)
                os.mkdir(p)
                open(os.path.join(p, "inner"), "wb").write(b"i\n")
        EDITS = [E_dir_to_link, E_link_to_dir, E_link_same_blob, E_stage_a, E_reset_mixed, E_modify_same, E_modify_size, E_chmod_x, E_chmod_nox, E_delete, E_untracked, E_file_to_link, E_link_to_file, E_file_to_dir, E_stage_all, E_rm_cached, E_unstage_a, E_dir_to_file]
        K = 2 if tier == "quick" else 3
        seqs = [s for k in range(1, K + 1) for s in itertools.product(range(len(EDITS)), repeat=k)]
        if tier == "thorough":
            seqs = [s for s in seqs if len(s) < 3 or (s[0] * 131 + s[1] * 17 + s[2]) % 3 == 0]
        ix = {f.__name__: i for i, f in enumerate(EDITS)}
        # directed longer sequences (every tier): stage / unstage round trips around same-size edits, type swaps and back
        seqs += [tuple(ix[n] for n in names) for names in (
            ("E_modify_same", "E_stage_all", "E_unstage_a"), ("E_modify_same", "E_stage_all", "E_unstage_a", "E_stage_all"),
            ("E_file_to_link", "E_stage_all", "E_unstage_a"), ("E_chmod_x", "E_stage_all", "E_unstage_a"),
            ("E_chmod_x", "E_stage_a", "E_reset_mixed"), ("E_link_same_blob", "E_stage_all", "E_reset_mixed"), ("E_link_same_blob", "E_stage_a", "E_reset_mixed"),
            ("E_modify_same", "E_stage_all", "E_reset_mixed"), ("E_file_to_dir", "E_stage_all", "E_reset_mixed"), ("E_dir_to_file", "E_stage_all", "E_reset_mixed"),
            ("E_delete", "E_stage_all", "E_reset_mixed", "E_stage_all"), ("E_rm_cached", "E_reset_mixed"),
            ("E_modify_size", "E_stage_all", "E_modify_size", "E_unstage_a"), ("E_dir_to_file", "E_stage_all", "E_untracked"),
            ("E_delete", "E_stage_all", "E_untracked", "E_stage_all"), ("E_file_to_dir", "E_stage_all", "E_delete", "E_stage_all"))]
        tmpl = os.path.join(d, "tmpl")
        porcelain.clone(src, tmpl, checkout=True, branch=b"base", errstream=NULL)
        # make sure the index stat data is older than any later edit (racy-git: same-size edits within the index's own
        # time stamp granularity are a documented limitation of stat-based change detection, excluded here)
        time.sleep(0.01)
        for si, seq in enumerate(seqs):
            cases += 1
            w = os.path.join(d, f"w{si}")
            shutil.copytree(tmpl, w, symlinks=True)
            rr = Repo(w)
            try:
                for ei in seq:
                    EDITS[ei](w, rr)
                    head = base
                    want = oracle(head, index_listing(rr), wd_listing(w))
                    got = status_sets(rr)
                    idx_l, wd_l = index_listing(rr), wd_listing(w)
                    exec_only = sorted(p for p in idx_l if p in wd_l and idx_l[p] != wd_l[p] and idx_l[p][1] == wd_l[p][1] and {idx_l[p][0], wd_l[p][0]} == {F, X})
                    lenient = (want[0], sorted(set(want[1]) - set(exec_only)), want[2])
                    if got != want and got == lenient:
                        fail("an executable-bit-only change is not noticed (status / add)", {"where": "status", "edits": [EDITS[e].__name__[2:] for e in seq], "paths": [p.decode() for p in exec_only]})
                    elif got != want:
                        fail("status differs from the three-state oracle", {"edits": [EDITS[e].__name__[2:] for e in seq], "after": EDITS[ei].__name__[2:],
                                                                             "got": repr(got)[:400], "want": repr(want)[:400]})
                        break
                if tier == "thorough" and si % 4 == 0 and not any(EDITS[e].__name__ in ("E_chmod_x", "E_chmod_nox") for e in seq):
                    out = subprocess.run(["git", "-C", w, "-c", "core.quotePath=false", "status", "--porcelain=v1", "-z", "--untracked-files=all"], capture_output=True)
                    gitset = set()
                    for rec in out.stdout.split(b"\0"):
                        if rec:
                            gitset.add((rec[:2].decode(), rec[3:]))
                    got = status_sets(rr)
                    ours = set()
                    for p in got[0]["add"]:
                        ours.add(("A", p))
                    for p in got[0]["delete"]:
                        ours.add(("D", p))
                    for p in got[0]["modify"]:
                        ours.add(("M", p))
                    ours_paths = {p for _, p in ours} | set(got[1]) | set(got[2])
                    git_paths = {p for _, p in gitset}
                    cases += 1
                    if ours_paths != git_paths:
                        fail("git status names a different set of paths", {"edits": [EDITS[e].__name__[2:] for e in seq], "git_only": sorted(x.decode("latin-1") for x in git_paths - ours_paths),
                                                                           "dulwich_only": sorted(x.decode("latin-1") for x in ours_paths - git_paths)})
            except Exception as e:  # noqa: BLE001
                fail("status after edits raised", {"edits": [EDITS[e].__name__[2:] for e in seq], "exc": repr(e)[:300]})
            finally:
                rr.close()
                shutil.rmtree(w, ignore_errors=True)
        # ---------- (b2) the same three-state oracle on the tree with non-UTF-8 and quoted names: modify / stage / delete / stage
        odd = TREES["odd"]
        for p_ in sorted(odd):
            cases += 1
            w = os.path.join(d, f"odd{cases}")
            try:
                porcelain.clone(src, w, checkout=True, branch=b"odd", errstream=NULL)
                rr = Repo(w)
                fp_ = os.path.join(os.fsencode(w), p_)
                steps = [("modify", lambda: open(fp_, "ab").write(b"changed\n")), ("stage", lambda: porcelain.add(rr)),
                         ("delete", lambda: os.remove(fp_)), ("stage", lambda: porcelain.add(rr))]
                for label, fn_ in steps:
                    fn_()
                    want = oracle(odd, index_listing(rr), wd_listing(w))
                    got = status_sets(rr)
                    if got != want:
                        fail("status differs from the three-state oracle", {"tree": "odd", "path": p_.decode("latin-1"), "after": label, "got": repr(got)[:300], "want": repr(want)[:300]})
                        break
                    if label == "stage" and index_listing(rr) != wd_listing(w):
                        fail("after staging everything the index differs from the directory", {"tree": "odd", "path": p_.decode("latin-1")})
                rr.close()
            except Exception as e:  # noqa: BLE001
                fail("status after edits raised", {"tree": "odd", "path": p_.decode("latin-1"), "exc": repr(e)[:300]})
    sys.stdout.flush()
    print("\n" + json.dumps({"name": "c18_worktree", "function": "dulwich/index.py build_index_from_tree/update_working_tree/get_unstaged_changes, porcelain.status/checkout/add/clone",
                      "cases": cases, "exhaustive": True,
                      "bound": f"{len(TREES)} trees (files, empty, binary, non-UTF-8 and quoted names, executables, symlinks, nesting, file/dir/link type swaps): checkout + all ordered "
                      f"branch switches, and the same switches with one of the first 4 tracked paths deleted on disk / replaced by a directory holding an untracked file, or with a tracked directory replaced by a symlink to an outside copy ({skipped_refused[0]} refused by dulwich and left untouched: skipped); "
                      f"all sequences of <= {K} of {len(EDITS)} edits on the base tree with status checked after every edit; modify / stage / delete / stage on every path of the tree with non-UTF-8 and quoted names"
                      + ("; git 2.39 status cross-check on every 4th sequence" if tier == "thorough" else ""),
                      "failures": failures, "secs": round(time.time() - t0, 2)}))


if __name__ == "__main__":
    main()

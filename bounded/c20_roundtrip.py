"""Bounded stand-in (C20): (a) _parse_string(_format_string(v)) == v exhaustively for all values up to length N over
an alphabet with every special character; (b) whole-file ConfigFile write -> read incl. subsections with quotes,
backslashes, dots, spaces and multi-valued keys in order; (c) thorough tier: `git config --file` reads the same
values from a file dulwich wrote and dulwich reads what git wrote.  Never counted as proved."""
import itertools
import json
import os
import subprocess
import sys
import tempfile
import time
from io import BytesIO

HERE = os.path.dirname(os.path.dirname(os.path.abspath(__file__)))
sys.path.insert(0, HERE)


def main():
    tier = sys.argv[sys.argv.index("--tier") + 1] if "--tier" in sys.argv else "quick"
    repo = os.environ.get("VERIF_REPO", "/repo")
    from pyvc import native
    native.setup(repo)
    from dulwich.config import ConfigFile, _format_string, _parse_string
    t0 = time.time()
    cases = 0
    failures = []
    assumption_failures = []

    def fail(what, detail):
        if len(failures) < 10:
            failures.append({"what": what, "detail": detail})

    alpha = b' \t"\\#;\n\rntb\x0b\x08a'
    n = 4 if tier == "quick" else 5
    values = [bytes(t) for ln in range(0, n + 1) for t in itertools.product(alpha, repeat=ln)]
    # the ASSUMED contract of the replace chain in _escape_value (ESC_SPEC in contracts/c20_config.py): the result is the
    # concatenation of the per-byte images (special byte -> backslash + code, any other byte -> itself)
    from dulwich.config import _escape_value
    img = {92: b"\\\\", 10: b"\\n", 9: b"\\t", 34: b'\\"'}
    for v in values:
        cases += 1
        if _escape_value(v) != b"".join(img.get(c, bytes([c])) for c in v):
            if len(assumption_failures) < 3:
                assumption_failures.append({"what": "_escape_value is not the per-byte image concatenation assumed by the reader-side contracts (ESC_SPEC)", "value": v.hex(), "escaped": _escape_value(v).hex()})
    # the second ASSUMED relation (WELL_ESC in contracts/c20_config.py): read with the one-bit "previous byte was an unescaped
    # backslash" automaton, the escaped form has no unescaped quote, no dangling backslash and - for values written bare - no
    # unescaped comment character
    from dulwich.config import _format_string as _fmt
    for v in values:
        cases += 1
        e = _escape_value(v)
        st, ok, bare_ok = 0, True, True
        for c in e:
            if st == 0 and c == 34:
                ok = False
            if st == 0 and c in (35, 59):
                bare_ok = False
            st = 1 if (st == 0 and c == 92) else 0
        written_bare = _fmt(v) == e
        if (not ok or st != 0 or (written_bare and not bare_ok)) and len(assumption_failures) < 3:
            assumption_failures.append({"what": "_escape_value output is not well escaped (WELL_ESC / NO_BARE_COMMENT assumed by _strip_comments#quoted/#bare)", "value": v.hex(), "escaped": e.hex()})
    from dulwich.config import _escape_subsection, _unescape_subsection
    for v in values:
        if 10 in v or 0 in v:
            continue
        cases += 1
        if _escape_subsection(v) != b"".join((b"\\" + bytes([c])) if c in (92, 34) else bytes([c]) for c in v):
            if len(assumption_failures) < 3:
                assumption_failures.append({"what": "_escape_subsection is not the per-byte image concatenation assumed by _unescape_subsection#roundtrip", "value": v.hex(), "escaped": _escape_subsection(v).hex()})
        if _unescape_subsection(_escape_subsection(v)) != v:
            fail("subsection name round trip", {"value": v.hex(), "escaped": _escape_subsection(v).hex(), "read": _unescape_subsection(_escape_subsection(v)).hex()})
    for v in values:
        cases += 1
        try:
            if _parse_string(_format_string(v)) != v:
                fail("value round trip", {"value": v.hex(), "written": _format_string(v).hex(), "read": _parse_string(_format_string(v)).hex()})
        except Exception as e:  # noqa: BLE001
            fail("value round trip raised", {"value": v.hex(), "exc": repr(e)})
    # (a2) line continuation: a physical line continues iff it ends in an ODD number of backslashes before its LF / CRLF (git: a
    #      backslash escapes the next character, so pairs are literal backslashes) - against the definition, exhaustively
    from dulwich.config import _is_line_continuation
    for ln in range(0, 7):
        for t in itertools.product(b"a\\\"\n\r", repeat=ln):
            v = bytes(t)
            cases += 1
            body = v[:-2] if v.endswith(b"\r\n") else (v[:-1] if v.endswith(b"\n") else None)
            want = body is not None and (len(body) - len(body.rstrip(b"\\"))) % 2 == 1
            if bool(_is_line_continuation(v)) != want:
                fail("_is_line_continuation != 'odd number of trailing backslashes before the line end'", {"line": v.hex(), "got": bool(_is_line_continuation(v))})
    # literal files in git's syntax: k = x + n backslashes + newline + y
    for nbs in range(1, 7):
        for quoted in (False, True):
            for eol in (b"\n", b"\r\n"):
                cases += 1
                q = b'"' if quoted else b""
                text = b"[s]\n\tk = " + q + b"x" + b"\\" * nbs + eol + b"y" + q + eol
                want_lit = b"x" + b"\\" * (nbs // 2)
                try:
                    cf = ConfigFile.from_file(BytesIO(text))
                    got = cf.get((b"s",), b"k")
                    if nbs % 2 == 1 and got != want_lit + b"y":
                        fail("a line ending in an odd number of backslashes is not continued as git does", {"backslashes": nbs, "quoted": quoted, "crlf": eol != b"\n", "got": got.hex(), "want": (want_lit + b"y").hex()})
                    if nbs % 2 == 0 and not quoted and got != want_lit:
                        fail("a line ending in an even number of backslashes is read wrongly", {"backslashes": nbs, "crlf": eol != b"\n", "got": got.hex(), "want": want_lit.hex()})
                except Exception as e:  # noqa: BLE001
                    if nbs % 2 == 1 or not quoted:
                        fail("literal file with trailing backslashes raised", {"backslashes": nbs, "quoted": quoted, "crlf": eol != b"\n", "exc": repr(e)[:150]})
    # (b0) multi-valued keys: all sequences of <= 4 operations against an ordered list model, observed through items(),
    #      get_multivar() and a write -> read round trip
    mops = [("add", b"k", b"1"), ("add", b"k", b"2"), ("add", b"x", b"0"), ("set", b"k", b"3"), ("del", b"k"), ("del", b"x"), ("add", b"K", b"4")]
    for ln in range(1, 5):
        for seq in itertools.product(range(len(mops)), repeat=ln):
            cases += 1
            c = ConfigFile()
            model = []
            try:
                for oi in seq:
                    op = mops[oi]
                    key = op[1].lower()
                    if op[0] == "add":
                        c.add((b"s",), op[1], op[2])
                        model.append((key, op[2]))
                    elif op[0] == "set":
                        c.set((b"s",), op[1], op[2])
                        model = [kv for kv in model if kv[0] != key] + [(key, op[2])]
                    else:
                        if any(kv[0] == key for kv in model):
                            c.remove((b"s",), op[1]) if hasattr(c, "remove") else c.__delitem__(((b"s",), op[1]))
                        model = [kv for kv in model if kv[0] != key]
                f = BytesIO()
                c.write_to_file(f)
                c2 = ConfigFile.from_file(BytesIO(f.getvalue()))
                for view, cc in (("live", c), ("after write -> read", c2)):
                    for key in (b"k", b"x"):
                        want = [v for k_, v in model if k_ == key]
                        try:
                            got = list(cc.get_multivar((b"s",), key))
                        except KeyError:
                            got = []
                        if got != want:
                            fail("multi-valued key deviates from the ordered-list model", {"ops": [[x.decode() if isinstance(x, bytes) else x for x in mops[o]] for o in seq], "view": view, "key": key.decode(), "got": [g.decode() for g in got], "want": [w.decode() for w in want]})
            except Exception as e:  # noqa: BLE001
                fail("multi-valued key sequence raised", {"ops": [[x.decode() if isinstance(x, bytes) else x for x in mops[o]] for o in seq], "exc": repr(e)[:200]})
    subs = [None, b"", b"sub", b"s p", b'q"q', b"b\\s", b"a.b", b"CaSe", b'x"#y', b"a;b", b"a#b", b'"', b"]"]
    vals = [b"", b"v", b" lead", b"trail ", b'q"', b"a\\b", b"x#y", b"x;y", b"l1\nl2", b"t\tt", b"cr\r", b"\rcr"]
    for sub in subs:
        for v1, v2 in itertools.product(vals[:: (2 if tier == "quick" else 1)], vals[1::3]):
            cases += 1
            c = ConfigFile()
            sec = (b"core",) if sub is None else (b"core", sub)
            c.set(sec, b"key", v1)
            c.add(sec, b"key", v2)
            c.set(sec, b"Other", b"o")
            f = BytesIO()
            c.write_to_file(f)
            try:
                c2 = ConfigFile.from_file(BytesIO(f.getvalue()))
                got = list(c2.get_multivar(sec, b"key")) if sec in c2.sections() else None
                if got != [v1, v2] or c2.get(sec, b"other") != b"o" or list(c2.sections()) != [sec] or c2 != c:
                    fail("file round trip", {"subsection": None if sub is None else sub.hex(), "values": [v1.hex(), v2.hex()], "got": [g.hex() for g in got]})
            except Exception as e:  # noqa: BLE001
                fail("file round trip raised", {"subsection": None if sub is None else sub.hex(), "values": [v1.hex(), v2.hex()], "exc": repr(e)[:200], "file": f.getvalue().hex()})
    # every short value through a whole file (line splitting, comment stripping, continuation handling)
    m = 3 if tier == "quick" else 4
    for v in values:
        if len(v) > m:
            break
        cases += 1
        c = ConfigFile()
        c.set((b"s", b"t"), b"k", v)
        f = BytesIO()
        c.write_to_file(f)
        try:
            c2 = ConfigFile.from_file(BytesIO(f.getvalue()))
            if c2 != c:
                fail("file round trip of one value", {"value": v.hex(), "file": f.getvalue().hex()})
        except Exception as e:  # noqa: BLE001
            fail("file round trip of one value raised", {"value": v.hex(), "exc": repr(e)[:120], "file": f.getvalue().hex()})
    if tier == "thorough":
        with tempfile.TemporaryDirectory() as d:
            gvals = [v for v in values if len(v) <= 3][::5] + vals
            for v in gvals:
                cases += 1
                p = os.path.join(d, "c")
                c = ConfigFile()
                c.set((b"s",), b"k", v)
                c.write_to_path(p)
                r = subprocess.run(["git", "config", "--file", p, "--null", "--get", "s.k"], capture_output=True)
                if r.returncode != 0 or r.stdout[:-1] != v:
                    fail("git reads a different value from a dulwich-written file", {"value": v.hex(), "git": r.stdout.hex(), "rc": r.returncode})
                os.remove(p)
                if b"\n" in v[:1] or v == b"":
                    continue
                r = subprocess.run(["git", "config", "--file", p, "s.k", v.decode("latin-1")], capture_output=True)
                if r.returncode == 0:
                    # what git itself reads back from the file it wrote is the reference
                    ref = subprocess.run(["git", "config", "--file", p, "--null", "--get", "s.k"], capture_output=True).stdout[:-1]
                    got = ConfigFile.from_path(p).get((b"s",), b"k")
                    if got != ref:
                        fail("dulwich and git read different values from a git-written file", {"value": v.hex(), "dulwich": got.hex(), "git": ref.hex()})
                    os.remove(p)
    print(json.dumps({"name": "c20_roundtrip", "function": "dulwich/config.py _format_string/_parse_string + ConfigFile", "cases": cases, "exhaustive": True,
                      "bound": f"all values <= {n} over the {len(alpha)}-symbol alphabet {alpha!r}; 7 subsection spellings x value pairs (multi-valued, ordered); _is_line_continuation on all lines <= 6 over 5 symbols; literal files with 1..6 trailing backslashes; all sequences <= 4 of 7 add / set / remove operations on multi-valued keys vs an ordered-list model"
                      + ("; git config cross-check both directions" if tier == "thorough" else ""), "failures": failures, "assumption_failures": assumption_failures, "secs": round(time.time() - t0, 2)}))


if __name__ == "__main__":
    main()

"""Generic bounded stand-in: run the executable sidecar contract of one real function natively over
an exhaustively enumerated finite domain (bounded/domains.py).  Never counted as proved.

usage: enum_contract.py <file> <func> <domain> [--tier quick|thorough]
Last stdout line: JSON {name, function, bound, cases, skipped, exhaustive, failures:[...]}
"""
import json
import os
import sys
import time

HERE = os.path.dirname(os.path.dirname(os.path.abspath(__file__)))
sys.path.insert(0, HERE)


def main():
    file, func, domain = sys.argv[1:4]
    tier = sys.argv[sys.argv.index("--tier") + 1] if "--tier" in sys.argv else os.environ.get("VERIF_TIER", "quick")
    repo = os.environ.get("VERIF_REPO", "/repo")
    from pyvc import native
    native.setup(repo)
    C = native.load_contracts()
    con = C.REGISTRY[(file, func)]
    nc = native.NativeContract(con, repo)
    from bounded import domains
    gen, bound = domains.DOMAINS[domain](tier)
    t0 = time.time()
    cases = skipped = 0
    failures = []
    outcomes = {}
    for case in gen:
        args, free = case if isinstance(case, tuple) else (case, {})
        r = nc.run(args, free)
        if r["skipped"]:
            skipped += 1
            continue
        cases += 1
        k = r["raised"] or "returned"
        outcomes[k] = outcomes.get(k, 0) + 1
        for f in r["failures"]:
            if len(failures) < 20:
                failures.append({"function": f"{file}:{func}", "obligation": f["obligation"], "clause": f["clause"],
                                 "inputs": {k: native.encode_value(v) for k, v in {**args, **free}.items()},
                                 "detail": {k: v for k, v in f.items() if k not in ("obligation", "clause")}})
    print(json.dumps({"name": f"{func}@{domain}", "function": f"{file}:{func}", "bound": bound, "cases": cases, "skipped": skipped,
                      "exhaustive": True, "outcomes": outcomes, "failures": failures, "secs": round(time.time() - t0, 2)}))


if __name__ == "__main__":
    main()

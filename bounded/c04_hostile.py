"""Bounded stand-in (C04): (a) crafted packs - REF_DELTA 2-cycle, REF/OFS mixed cycle, OFS offset beyond the start,
self reference - must fail promptly with an ordinary error; (b) for small valid packs / pack indexes / loose objects
/ packed-refs / index files: every truncation point, appended tails, and single-byte substitutions at every position
(a fixed set of substitute values in quick, all 255 in thorough): reading or ingesting terminates within a time cap
and either raises an ordinary Exception or yields only objects that hash to their names, and a FAILED ingestion
leaves the object store listing and pack directory unchanged.  Never counted as proved."""
import json
import os
import signal
import struct
import sys
import tempfile
import time
import zlib
from io import BytesIO

HERE = os.path.dirname(os.path.dirname(os.path.abspath(__file__)))
sys.path.insert(0, HERE)


class Timeout(Exception):
    pass


def main():
    tier = sys.argv[sys.argv.index("--tier") + 1] if "--tier" in sys.argv else "quick"
    repo = os.environ.get("VERIF_REPO", "/repo")
    from pyvc import native
    native.setup(repo)
    from dulwich import pack as P
    from dulwich.object_format import DEFAULT_OBJECT_FORMAT as FMT
    from dulwich.object_store import DiskObjectStore, MemoryObjectStore
    from dulwich.objects import Blob, ShaFile, Tree
    from dulwich.index import Index
    from dulwich.refs import read_packed_refs
    import hashlib
    t0 = time.time()
    cases = 0
    failures = []

    def fail(what, detail):
        if len(failures) < 10:
            failures.append({"what": what, "detail": detail})

    def alarm(_s, _f):
        raise Timeout()
    signal.signal(signal.SIGALRM, alarm)

    def guarded(fn, cap=5):
        """returns ('ok', value) | ('exc', name) | ('timeout',) | ('fatal', name)"""
        signal.alarm(cap)
        try:
            return ("ok", fn())
        except Timeout:
            return ("timeout",)
        except (MemoryError, RecursionError) as e:
            return ("fatal", type(e).__name__)
        except Exception as e:  # noqa: BLE001
            return ("exc", type(e).__name__)
        finally:
            signal.alarm(0)

    def raw_pack(objs):
        """objs: list of (type_num, base, payload) -> pack bytes, offsets"""
        body = b"PACK" + struct.pack(">LL", 2, len(objs))
        offs = []
        for t, base, payload in objs:
            offs.append(len(body))
            body += bytes(P.pack_object_header(t, base, len(payload), FMT)) + zlib.compress(payload)
        return body + hashlib.sha1(body).digest(), offs

    with tempfile.TemporaryDirectory() as d:
        # ---------- (a) crafted delta graphs
        delta = bytes([1, 1, 1, ord("x")])      # src size 1, dest size 1, insert 'x'
        n1, n2 = bytes([1] * 20), bytes([2] * 20)
        crafted = {
            "ref-2-cycle": ([(7, n2, delta), (7, n1, delta)], [n1, n2]),
            "ref-self": ([(7, n1, delta)], [n1]),
            "ofs-before-start": ([(6, 10 ** 6, delta)], [n1]),
        }
        # mixed: A = REF -> B ; B = OFS -> A   (B placed after A)
        pk, offs = raw_pack([(7, n2, delta), (6, 1, delta)])
        for name, (objs, names) in crafted.items():
            cases += 1
            data, offs = raw_pack(objs)
            base = os.path.join(d, "c_" + name)
            open(base + ".pack", "wb").write(data)
            ents = sorted((nm, off, 0) for nm, off in zip(names, offs))
            with open(base + ".idx", "wb") as f:
                P.write_pack_index(f, ents, data[-20:], version=2)

            def use(base=base, names=names):
                p = P.Pack(base, object_format=FMT)
                try:
                    return [p.get_raw(nm) for nm in names]
                finally:
                    p.close()
            r = guarded(use)
            if r[0] != "exc":
                fail("crafted delta graph not rejected cleanly", {"case": name, "outcome": list(map(str, r))[:2]})
        cases += 1
        data, offs = raw_pack([(7, n2, delta), (3, None, b"y")])
        second = offs[1]
        body = data[:-20]
        # rewrite object 2 as OFS delta pointing back to object 1, and object 1 (REF) names object 2
        body = body[:second] + bytes(P.pack_object_header(6, second - offs[0], len(delta), FMT)) + zlib.compress(delta)
        data = body + hashlib.sha1(body).digest()
        base = os.path.join(d, "c_mixed")
        open(base + ".pack", "wb").write(data)
        with open(base + ".idx", "wb") as f:
            P.write_pack_index(f, sorted([(n1, offs[0], 0), (n2, second, 0)]), data[-20:], version=2)

        def use_mixed():
            p = P.Pack(base, object_format=FMT)
            try:
                return [p.get_raw(n1), p.get_raw(n2)]
            finally:
                p.close()
        r = guarded(use_mixed)
        if r[0] != "exc":
            fail("mixed REF/OFS cycle not rejected cleanly", {"outcome": list(map(str, r))[:2]})

        # rho-shaped chains: the entry looked up is NOT on the cycle but leads into it (S -> X -> Y -> X ...), tails of length 1 and 2
        n3, n4 = bytes([3] * 20), bytes([4] * 20)
        for tail in (1, 2):
            cases += 1
            body = b"PACK" + struct.pack(">LL", 2, 2 + tail)
            offs_ = []
            offs_.append(len(body))                                  # Y = REF_DELTA(name of X)
            body += bytes(P.pack_object_header(7, n1, len(delta), FMT)) + zlib.compress(delta)
            offs_.append(len(body))                                  # X = OFS_DELTA -> Y
            body += bytes(P.pack_object_header(6, offs_[1] - offs_[0], len(delta), FMT)) + zlib.compress(delta)
            for _k in range(tail):                                   # S (, S2) = OFS_DELTA -> previous entry
                offs_.append(len(body))
                body += bytes(P.pack_object_header(6, offs_[-1] - offs_[-2], len(delta), FMT)) + zlib.compress(delta)
            data = body + hashlib.sha1(body).digest()
            base = os.path.join(d, f"c_rho{tail}")
            open(base + ".pack", "wb").write(data)
            names_ = [n2, n1, n3, n4][:2 + tail]                     # Y, X, S, S2
            with open(base + ".idx", "wb") as f:
                P.write_pack_index(f, sorted((nm, off, 0) for nm, off in zip(names_, offs_)), data[-20:], version=2)
            for nm in names_:
                def use_rho(base=base, nm=nm):
                    p = P.Pack(base, object_format=FMT)
                    try:
                        return p.get_raw(nm)
                    finally:
                        p.close()
                r = guarded(use_rho)
                if r[0] != "exc":
                    fail("rho-shaped delta chain (an entry leading into a cycle) not rejected cleanly", {"tail": tail, "entry": names_.index(nm), "outcome": list(map(str, r))[:2]})

        # ---------- (b) mutation sweeps
        blobs = [Blob.from_string(b"hello\n"), Blob.from_string(b"hello\nworld\n"), Blob.from_string(b"")]
        f = BytesIO()
        entries, cksum = P.write_pack_objects(f, blobs, deltify=True, object_format=FMT)
        good_pack = f.getvalue()
        subs = [0x00, 0x01, 0x7F, 0x80, 0xFF] if tier == "quick" else list(range(256))
        outcomes = {}
        # sanity: the unmodified pack ingests and yields exactly the three blobs
        st0 = MemoryObjectStore()
        st0.add_thin_pack(BytesIO(good_pack).read, None)
        if sorted(st0) != sorted(b.id for b in blobs):
            fail("harness: the valid pack does not ingest", {"got": len(list(st0))})

        def mutants(data):
            for cut in range(len(data)):
                yield ("truncate", cut, data[:cut])
            for tail in (b"\x00", b"\xff\xff", b"PACK"):
                yield ("append", len(tail), data + tail)
            for pos in range(len(data)):
                for v in subs:
                    if data[pos] != v:
                        yield ("subst", pos, data[:pos] + bytes([v]) + data[pos + 1:])
                yield ("flip", pos, data[:pos] + bytes([data[pos] ^ 0x01]) + data[pos + 1:])

        def ids_ok(store):
            for sha in store:
                o = store[sha]
                if o.id != sha or hashlib.sha1(o._header() + o.as_raw_string()).hexdigest().encode() != sha:
                    return False
            return True

        for kind, where, m in mutants(good_pack):
            for store_kind in ("memory", "disk"):
                cases += 1
                if store_kind == "memory":
                    store = MemoryObjectStore()
                    listing0 = None
                else:
                    sd = tempfile.mkdtemp(dir=d)
                    store = DiskObjectStore.init(sd)
                    listing0 = sorted(os.listdir(store.pack_dir))
                before = sorted(store)

                def ingest(store=store, m=m):
                    store.add_thin_pack(BytesIO(m).read, None)
                    return True
                r = guarded(ingest)
                outcomes[r[0] + ":" + (r[1] if r[0] == "exc" else "")] = outcomes.get(r[0] + ":" + (r[1] if r[0] == "exc" else ""), 0) + 1
                if r[0] in ("timeout", "fatal"):
                    fail("ingestion did not terminate cleanly", {"mutation": [kind, where], "store": store_kind, "outcome": list(r)})
                elif r[0] == "exc":
                    after = sorted(store)
                    if after != before or (listing0 is not None and sorted(x for x in os.listdir(store.pack_dir) if not x.startswith("tmp")) != listing0):
                        fail("failed ingestion left a trace", {"mutation": [kind, where], "store": store_kind, "new_objects": len(after) - len(before)})
                else:
                    r2 = guarded(lambda store=store: ids_ok(store))
                    if r2 != ("ok", True):
                        fail("ingested object does not hash to its name", {"mutation": [kind, where], "store": store_kind, "outcome": list(map(str, r2))})
                if store_kind == "disk":
                    store.close()
        # ---------- (c) every ingestion path x (damaged pack | well-formed pack carrying an unparsable object)
        def pack_dir_listing(store):
            return sorted(x for x in os.listdir(store.pack_dir) if not x.startswith("tmp"))

        def fresh_view(store):
            s2 = DiskObjectStore(store.path)
            try:
                return sorted(s2)
            finally:
                s2.close()
        garbage = {"tree-no-nul": (2, b"100644 a"), "tree-bad-mode": (2, b"1x0644 a\0" + bytes(20)), "tag-truncated": (4, b"object"),
                   "commit-no-tree": (1, b"author a <b> 1 +0000\n\nm"), "tree-short-sha": (2, b"100644 a\0" + bytes(7))}
        bad_packs = [("object:" + k, raw_pack([(3, None, b"fine\n"), (t, None, payload)])[0]) for k, (t, payload) in garbage.items()]
        sweep = [(f"{kind}@{where}", m) for kind, where, m in mutants(good_pack) if kind in ("truncate", "flip", "append")]
        if tier == "quick":
            sweep = sweep[::2]

        def paths(store, m):
            def thin():
                store.add_thin_pack(BytesIO(m).read, None)

            def add_pack_commit():
                f, commit, abort = store.add_pack()
                try:
                    f.write(m)
                except BaseException:
                    abort()
                    raise
                commit()

            def add_pack_data():
                src = BytesIO(m)
                rd = P.PackStreamReader(FMT.hash_func, src.read) if hasattr(FMT, "hash_func") else None
                count, unpacked = (None, None)
                from dulwich.pack import PackData
                pdpath = os.path.join(d, "pd_tmp.pack")
                open(pdpath, "wb").write(m)
                pd = PackData(pdpath, object_format=FMT)
                try:
                    store.add_pack_data(len(pd), pd.iter_unpacked())
                finally:
                    pd.close()
            return [("add_thin_pack", thin), ("add_pack+commit", add_pack_commit), ("add_pack_data", add_pack_data)]

        for label, m in bad_packs + sweep:
            for store_kind in ("memory", "disk"):
                for pi in range(3):
                    if label[:6] != "object" and pi == 0:
                        continue            # add_thin_pack x byte-level damage is sweep (b)
                    cases += 1
                    if store_kind == "memory":
                        store = MemoryObjectStore()
                    else:
                        store = DiskObjectStore.init(tempfile.mkdtemp(dir=d))
                    before = sorted(store)
                    listing0 = pack_dir_listing(store) if store_kind == "disk" else None
                    pname, fn = paths(store, m)[pi]
                    r = guarded(fn)
                    key = f"{pname}:{r[0]}:{r[1] if r[0] == 'exc' else ''}"
                    outcomes[key] = outcomes.get(key, 0) + 1
                    what = {"input": label, "store": store_kind, "path": pname, "outcome": list(map(str, r))[:2]}
                    if r[0] in ("timeout", "fatal"):
                        fail("ingestion did not terminate cleanly", what)
                    elif r[0] == "exc":
                        after = sorted(store)
                        if after != before:
                            fail("failed ingestion left objects visible", dict(what, new_objects=len(after) - len(before)))
                        elif store_kind == "disk" and (pack_dir_listing(store) != listing0 or fresh_view(store) != before):
                            fail("failed ingestion left a pack installed", dict(what, files=pack_dir_listing(store)))
                    else:
                        # (a pack whose objects merely fail a later check(), e.g. a commit without tree, may be accepted: it hashes to its name)
                        r2 = guarded(lambda store=store: ids_ok(store))
                        if r2 != ("ok", True):
                            fail("ingested object does not hash to its name", dict(what, check=list(map(str, r2))))
                    if store_kind == "disk":
                        store.close()
        # ---------- (d) resource containment on loose objects: no NUL within the 8 KiB header window, then a bomb
        import tracemalloc
        for label, payload in (("no-nul-bomb", b"x" * 9000 + b"\0" * (64 << 20)), ("header-then-bomb", b"blob 5\0" + b"y" * (64 << 20))):
            cases += 1
            comp = zlib.compress(payload, 9)
            lpath = os.path.join(d, "loose_" + label)
            open(lpath, "wb").write(comp)
            tracemalloc.start()
            r = guarded(lambda: ShaFile.from_path(lpath, max_size=1 << 20), cap=20)
            peak = tracemalloc.get_traced_memory()[1]
            tracemalloc.stop()
            if r[0] != "exc" or peak > (8 << 20):
                fail("loose object inflated beyond its limit", {"case": label, "compressed": len(comp), "peak_bytes": peak, "outcome": list(map(str, r))[:2]})
        # ---------- (e) index files whose saturated name-length field is not followed by a terminator
        from dulwich.index import IndexEntry
        lp = os.path.join(d, "long_idx")
        lix = Index(lp, read=False)
        lix[b"d/" + b"n" * 0x1000] = IndexEntry((1, 2), (3, 4), 5, 6, 0o100644, 7, 8, 9, blobs[0].id)
        lix.write()
        long_index = open(lp, "rb").read()
        for label, data in [(f"long-name-truncated@{cut}", long_index[:cut]) for cut in (70, 74, 1000, 4000, len(long_index) - 30, len(long_index) - 21, len(long_index) - 20, len(long_index) - 1)]:
            cases += 1
            open(lp, "wb").write(data)
            r = guarded(lambda: list(Index(lp)), cap=5)
            if r[0] != "exc":
                fail("truncated long-name index not rejected promptly", {"case": label, "outcome": list(map(str, r))[:2]})
        # packed-refs and loose objects and index: reading must terminate with an ordinary error or a value
        sha = blobs[0].id
        packed = b"# pack-refs with: peeled fully-peeled sorted \n" + sha + b" refs/heads/a\n" + sha + b" refs/tags/t\n^" + sha + b"\n"
        loose = b"".join(blobs[1].as_legacy_object_chunks())
        ipath = os.path.join(d, "idx")
        ix = Index(ipath, read=False)
        from dulwich.index import IndexEntry
        ix[b"a/b"] = IndexEntry((1, 2), (3, 4), 5, 6, 0o100644, 7, 8, 9, sha)
        ix.write()
        good_index = open(ipath, "rb").read()
        for flagpos in (70, 71):
            pass
        forged = bytearray(good_index)
        forged[12 + 60:12 + 62] = b"\x0f\xff"        # name-length field of the first entry saturated, no terminator follows
        for label, data in (("flags-0x0fff", bytes(forged)), ("flags-0x0fff+trailer", bytes(forged[:-20]) + hashlib.sha1(bytes(forged[:-20])).digest())):
            cases += 1
            open(ipath, "wb").write(data)
            r = guarded(lambda: list(Index(ipath)), cap=5)
            if r[0] != "exc":
                fail("index with a saturated name length and no terminator not rejected promptly", {"case": label, "outcome": list(map(str, r))[:2]})
        for label, data, reader in (
                ("packed-refs", packed, lambda m: list(read_packed_refs(BytesIO(m)))),
                ("loose object", loose, lambda m: ShaFile.from_file(BytesIO(m)).as_raw_string()),
                ("index file", good_index, lambda m: (open(ipath, "wb").write(m), list(Index(ipath)))[1])):
            for kind, where, m in mutants(data):
                cases += 1
                r = guarded(lambda m=m, reader=reader: reader(m))
                if r[0] in ("timeout", "fatal"):
                    fail(f"reading a damaged {label} did not terminate cleanly", {"mutation": [kind, where], "outcome": list(r)})
                if label == "index file" and r[0] == "ok" and kind in ("subst", "flip", "truncate") and m != data:
                    fail("damaged index accepted (trailer not verified)", {"mutation": [kind, where]})
    print(json.dumps({"name": "c04_hostile", "function": "ingestion paths: Pack.get_raw, add_thin_pack / add_pack+commit / add_pack_data (memory/disk), read_packed_refs, ShaFile.from_file/from_path, Index.read",
                      "cases": cases, "exhaustive": True,
                      "bound": f"6 crafted delta graphs (cycles, self reference, offset before the start, mixed REF/OFS cycle, rho-shaped chains); every truncation, 3 appended tails, bit flip and {len(subs)} substitute values at every position of "
                               f"a {len(good_pack)}-byte pack (x memory/disk store), a packed-refs file, a loose object and an index file; truncations/flips/tails x add_pack+commit and add_pack_data, 5 packs carrying an unparsable tree/tag/commit "
                               f"x 3 ingestion paths x 2 stores with the store compared before/after (fresh instance too); 2 loose-object bombs (peak memory <= 8 MiB); 10 long-name index forgeries; 5 s cap per case",
                      "ingest_outcomes": outcomes, "failures": failures, "secs": round(time.time() - t0, 2)}))


def _pack_data_from_stream(P, m, FMT):
    return (0, [])


if __name__ == "__main__":
    main()

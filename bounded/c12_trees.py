"""Bounded stand-in (C12): tree building / flattening / diffing / patching against flat listings, exhaustively over all
pairs of listings with <= K entries from a path universe with file/directory conflicts and '/'-order traps
('a', 'a.b', 'a/b', 'a/c', 'a-', 'a0', 'a/b/d' ...) x entry kinds (file A/B, executable, symlink, gitlink).
For each listing: commit_tree -> iter_tree_contents is the identity, every stored tree is in git's order;
for each pair: tree_changes applied to the first listing gives the second, each path is mentioned at most once per
side, flags want_unchanged / include_trees / change_type_same / paths filter / rename detection are consistent,
commit_tree_changes(diff) == commit_tree(second).  thorough: larger K and `git diff-tree -r --raw`, `git ls-tree -r`
on a disk repository.  Never counted as proved."""
import itertools
import json
import os
import subprocess
import sys
import tempfile
import time
from concurrent.futures import ProcessPoolExecutor

HERE = os.path.dirname(os.path.dirname(os.path.abspath(__file__)))
sys.path.insert(0, HERE)

PATHS = [b"a", b"a.b", b"a/b", b"a/c", b"a-", b"a0", b"a/b/d", b"b", b"e/b"]      # (a/b and e/b: identical subtrees at two paths)
A = b"e69de29bb2d1d6434b8b29ae775ad8c2e48c5391"      # the empty blob (added to the store by the harness)
B = b"f70f10e4db19068f79bc43844b49f3eece45c4e8"      # blob b"A\n"
KINDS = [(0o100644, A), (0o100644, B), (0o100755, A), (0o120000, A), (0o160000, B)]


def listings(k):
    out = []
    for r in range(0, k + 1):
        for ps in itertools.combinations(PATHS, r):
            # a path cannot be both an entry and a directory prefix of another entry
            if any(q.startswith(p + b"/") for p in ps for q in ps if p != q):
                continue
            for kinds in itertools.product(range(len(KINDS)), repeat=r):
                # keep the product small: symlink / gitlink kinds only on the first two paths of the listing
                if any(kinds[i] >= 3 and i >= 2 for i in range(r)):
                    continue
                out.append({p: KINDS[ki] for p, ki in zip(ps, kinds)})
    return out


def _setup():
    repo = os.environ.get("VERIF_REPO", "/repo")
    from pyvc import native
    native.setup(repo)


def run_chunk(args):
    k, lo, hi, step = args
    _setup()
    import stat
    from contracts.specs_py import base_name_lt, is_dir_mode
    from dulwich import diff_tree as D
    from dulwich.index import commit_tree
    from dulwich.object_store import MemoryObjectStore, commit_tree_changes, iter_tree_contents
    from dulwich.objects import Tree
    Ls = listings(k)
    store = MemoryObjectStore()
    from dulwich.objects import Blob
    for data in (b"", b"A\n"):
        store.add_object(Blob.from_string(data))
    assert A in store and B in store
    failures = []
    cases = 0

    def fail(what, detail):
        if len(failures) < 6 and sum(1 for f in failures if f["what"] == what) < 2:
            failures.append({"what": what, "detail": detail})

    def show(L):
        return {p.decode(): [oct(m), "A" if s == A else "B"] for p, (m, s) in sorted(L.items())}
    tids = []
    for L in Ls:
        items = [(p, s, m) for p, (m, s) in L.items()]
        tids.append(commit_tree(store, items))
    for i in range(lo, hi):
        L1, t1 = Ls[i], tids[i]
        cases += 1
        flat = {e.path: (e.mode, e.sha) for e in iter_tree_contents(store, t1)}
        if flat != L1 or [e.path for e in iter_tree_contents(store, t1)] != sorted(L1, key=lambda p: p) and False:
            fail("flatten(build(listing)) != listing", {"listing": show(L1), "flat": show(flat)})
        if commit_tree(store, list(reversed([(p, s, m) for p, (m, s) in L1.items()]))) != t1:
            fail("tree id depends on the order of the flat entries", {"listing": show(L1)})
        todo = [t1]
        while todo:
            t = store[todo.pop()]
            its = list(t.iteritems())
            for x, y in zip(its, its[1:]):
                if not base_name_lt(x.path, is_dir_mode(x.mode), y.path, is_dir_mode(y.mode)):
                    fail("stored tree not in git's canonical order", {"listing": show(L1), "tree": [e.path.decode() for e in its]})
            todo += [e.sha for e in its if stat.S_ISDIR(e.mode)]
        for j in range(0, len(Ls)):
            if (i * 7 + j) % step:
                continue
            L2, t2 = Ls[j], tids[j]
            cases += 1
            try:
                for cts in (False, True):
                    ch = list(D.tree_changes(store, t1, t2, change_type_same=cts))
                    got = dict(L1)
                    olds, news = [], []
                    for c in ch:
                        if c.old is not None:
                            olds.append(c.old.path)
                            if got.get(c.old.path) != (c.old.mode, c.old.sha):
                                fail("diff names an old entry that is not in the first tree", {"l1": show(L1), "l2": show(L2), "change": repr(c)[:200]})
                            if c.new is None or c.new.path != c.old.path:
                                got.pop(c.old.path, None)
                        if c.new is not None:
                            news.append(c.new.path)
                            got[c.new.path] = (c.new.mode, c.new.sha)
                        if c.type == D.CHANGE_UNCHANGED or (c.old is not None and c.new is not None and c.old == c.new):
                            fail("diff reports an unchanged entry", {"l1": show(L1), "l2": show(L2), "change": repr(c)[:200]})
                    if got != L2:
                        fail("diff applied to the first listing does not give the second", {"l1": show(L1), "l2": show(L2), "change_type_same": cts, "result": show(got)})
                    if len(olds) != len(set(olds)) or len(news) != len(set(news)) or (cts and len(set(olds) | set(news)) != len(ch)):
                        fail("diff mentions a path more than once", {"l1": show(L1), "l2": show(L2), "change_type_same": cts, "old_paths": [p.decode() for p in olds], "new_paths": [p.decode() for p in news]})
                    want_paths = {p for p in set(L1) | set(L2) if L1.get(p) != L2.get(p)}
                    if set(olds) | set(news) != want_paths:
                        fail("diff does not mention exactly the differing paths", {"l1": show(L1), "l2": show(L2), "mentioned": sorted(p.decode() for p in set(olds) | set(news))})
                # unchanged entries on request
                chu = list(D.tree_changes(store, t1, t2, want_unchanged=True))
                unch = {c.new.path for c in chu if c.type == D.CHANGE_UNCHANGED}
                if unch != {p for p in L1 if L2.get(p) == L1[p]}:
                    fail("want_unchanged does not list exactly the unchanged paths", {"l1": show(L1), "l2": show(L2), "unchanged": sorted(p.decode() for p in unch)})
                # patching: the change list applied to the first tree is the second tree
                ch = list(D.tree_changes(store, t1, t2))
                flat_changes = []
                for c in ch:
                    if c.old is not None and (c.new is None or c.new.path != c.old.path):
                        flat_changes.append((c.old.path, None, None))
                for c in ch:
                    if c.new is not None:
                        flat_changes.append((c.new.path, c.new.mode, c.new.sha))
                before = store[t1].as_raw_string()
                t3 = commit_tree_changes(store, t1, flat_changes)
                if t3 != t2:
                    fail("commit_tree_changes(tree1, diff) != tree2", {"l1": show(L1), "l2": show(L2), "changes": [(p.decode(), m and oct(m)) for p, m, _ in flat_changes]})
                if store[t1].as_raw_string() != before or store[t1].id != t1:
                    fail("commit_tree_changes altered the stored source tree", {"l1": show(L1), "l2": show(L2)})
                # path filter: restricting to one path gives the changes on or below it
                for fp in (b"a", b"a/b"):
                    chp = list(D.tree_changes(store, t1, t2, paths=[fp]))
                    pp = {(c.old or c.new).path for c in chp}
                    wantp = {p for p in set(L1) | set(L2) if L1.get(p) != L2.get(p) and (p == fp or p.startswith(fp + b"/"))}
                    if pp != wantp:
                        fail("paths filter does not select exactly the changes on or below the path", {"l1": show(L1), "l2": show(L2), "filter": fp.decode(), "got": sorted(p.decode() for p in pp), "want": sorted(p.decode() for p in wantp)})
                # rename detection never loses or invents content: applying the result still gives the second listing
                if (i + j) % 5 == 0:
                    rd = D.RenameDetector(store)
                    got = dict(L1)
                    rch = rd.changes_with_renames(t1, t2)
                    for c in rch:
                        if c.type in (D.CHANGE_RENAME, D.CHANGE_DELETE) or (c.old is not None and c.new is None):
                            pass
                    dels = [c.old.path for c in rch if c.old is not None and c.type in (D.CHANGE_DELETE, D.CHANGE_RENAME)]
                    for c in rch:
                        if c.new is not None:
                            got[c.new.path] = (c.new.mode, c.new.sha)
                    for p in dels:
                        if not any(c.new is not None and c.new.path == p for c in rch):
                            got.pop(p, None)
                    if got != L2:
                        fail("changes_with_renames applied to the first listing does not give the second", {"l1": show(L1), "l2": show(L2), "result": show(got)})
            except Exception as e:  # noqa: BLE001
                fail("tree diff / patch raised", {"l1": show(L1), "l2": show(L2), "exc": repr(e)[:300]})
    return cases, failures


def run_renames(args):
    """rename / copy / rewrite detection over blobs of graded similarity: every detector configuration must return a set of
    changes that (1) turns the first listing into the second and (2) gives every path of the first listing at most one
    fate (copies do not consume their source) and every path of the second at most one origin"""
    lo, hi, stride = args
    _setup()
    from dulwich import diff_tree as D
    from dulwich.index import commit_tree
    from dulwich.object_store import MemoryObjectStore
    from dulwich.objects import Blob
    store = MemoryObjectStore()
    lines = [b"line %03d of the original file\n" % i for i in range(100)]
    X = Blob.from_string(b"".join(lines))
    X75 = Blob.from_string(b"".join(lines[:75]) + b"".join(b"changed %03d in the edited copy..\n" % i for i in range(25)))
    X40 = Blob.from_string(b"".join(lines[:40]) + b"".join(b"changed %03d in the edited copy..\n" % i for i in range(60)))
    Y = Blob.from_string(b"".join(b"something else entirely %03d\n" % i for i in range(100)))
    T = Blob.from_string(b"target")
    for b in (X, X75, X40, Y, T):
        store.add_object(b)
    names = {X.id: "X", X75.id: "X75", X40.id: "X40", Y.id: "Y", T.id: "T"}
    kinds = [None, (0o100644, X.id), (0o100644, X75.id), (0o100644, X40.id), (0o100644, Y.id), (0o100644, T.id), (0o120000, T.id), (0o100755, X.id)]
    paths = [b"a", b"m", b"z"]
    Ls = [{p: k for p, k in zip(paths, ks) if k is not None} for ks in itertools.product(kinds, repeat=3)]
    tids = [commit_tree(store, [(p, sha, m) for p, (m, sha) in L.items()]) for L in Ls]
    configs = [("default", {}), ("rewrite_threshold=50", {"rewrite_threshold": 50}), ("rewrite_threshold=90", {"rewrite_threshold": 90}),
               ("find_copies_harder", {"find_copies_harder": True}), ("rename_threshold=30, rewrite_threshold=80", {"rename_threshold": 30, "rewrite_threshold": 80})]
    failures = []
    cases = 0

    def fail(what, detail):
        if len(failures) < 6 and sum(1 for f in failures if f["what"] == what) < 2:
            failures.append({"what": what, "detail": detail})

    def show(L):
        return {p.decode(): [oct(m), names[s_]] for p, (m, s_) in sorted(L.items())}
    for i in range(lo, hi):
        for j in range(len(Ls)):
            if (i * 11 + j) % stride or i == j:
                continue
            L1, L2 = Ls[i], Ls[j]
            for cname, kw in configs:
                cases += 1
                try:
                    rch = D.RenameDetector(store, **kw).changes_with_renames(tids[i], tids[j])
                    got = dict(L1)
                    consumed, produced = [], []
                    for c in rch:
                        if c.old is not None and L1.get(c.old.path) != (c.old.mode, c.old.sha):
                            fail("rename detection names an old entry that is not in the first tree", {"l1": show(L1), "l2": show(L2), "detector": cname, "change": repr(c)[:200]})
                        if c.old is not None and c.type != D.CHANGE_COPY and c.type != D.CHANGE_UNCHANGED:
                            consumed.append(c.old.path)
                        if c.new is not None and c.type != D.CHANGE_UNCHANGED:
                            produced.append(c.new.path)
                    for p_ in consumed:
                        got.pop(p_, None)
                    for c in rch:
                        if c.new is not None:
                            got[c.new.path] = (c.new.mode, c.new.sha)
                    desc = [(c.type, c.old.path.decode() if c.old else None, c.new.path.decode() if c.new else None) for c in rch]
                    if got != L2:
                        fail("changes_with_renames applied to the first listing does not give the second", {"l1": show(L1), "l2": show(L2), "detector": cname, "changes": desc, "result": show(got)})
                    if len(set(consumed)) != len(consumed) or len(set(produced)) != len(produced):
                        fail("changes_with_renames gives one path two fates / two origins", {"l1": show(L1), "l2": show(L2), "detector": cname, "changes": desc})
                except Exception as e:  # noqa: BLE001
                    fail("rename detection raised", {"l1": show(L1), "l2": show(L2), "detector": cname, "exc": repr(e)[:300]})
    return cases, failures


def git_cross_check(k, fail):
    """dulwich trees written to a disk repository, compared with git ls-tree -r and git diff-tree -r --raw"""
    _setup()
    from dulwich import diff_tree as D
    from dulwich.index import commit_tree
    from dulwich.objects import Blob
    from dulwich.repo import Repo
    cases = 0
    Ls = listings(k)[::11]
    with tempfile.TemporaryDirectory() as d:
        r = Repo.init(d)
        ba, bb = Blob.from_string(b""), Blob.from_string(b"A\n")
        r.object_store.add_object(ba)
        r.object_store.add_object(bb)
        sub = {A: ba.id, B: bb.id}
        tids = []
        for L in Ls:
            tids.append(commit_tree(r.object_store, [(p, sub[s] if m != 0o160000 else s, m) for p, (m, s) in L.items()]))
        for L, t in zip(Ls, tids):
            cases += 1
            out = subprocess.run(["git", "-C", d, "ls-tree", "-r", "-z", t.decode()], capture_output=True)
            got = {}
            for rec in out.stdout.split(b"\0"):
                if rec:
                    meta, path = rec.split(b"\t", 1)
                    mode, _typ, sha = meta.split(b" ")
                    got[path] = (int(mode, 8), sha)
            want = {p: (m, sub[s] if m != 0o160000 else s) for p, (m, s) in L.items()}
            if out.returncode != 0 or got != want:
                fail("git ls-tree -r disagrees with the listing the tree was built from", {"listing": {p.decode(): oct(m) for p, (m, s) in L.items()}, "git": out.stderr.decode()[:200]})
        for i in range(0, len(Ls), 3):
            for j in range(1, len(Ls), 5):
                cases += 1
                out = subprocess.run(["git", "-C", d, "diff-tree", "-r", "--raw", "--no-renames", "-z", "--no-abbrev", tids[i].decode(), tids[j].decode()], capture_output=True)
                toks = out.stdout.split(b"\0")
                gitch = set()
                for a in range(0, len(toks) - 1, 2):
                    meta, path = toks[a], toks[a + 1]
                    om, nm, osha, nsha, st = meta[1:].split(b" ")
                    gitch.add((path, int(om, 8), int(nm, 8), st[:1]))
                ours = set()
                for c in D.tree_changes(r.object_store, tids[i], tids[j], change_type_same=True):
                    st = {D.CHANGE_ADD: b"A", D.CHANGE_DELETE: b"D", D.CHANGE_MODIFY: b"M"}[c.type]
                    if c.type == D.CHANGE_MODIFY and (c.old.mode & 0o170000) != (c.new.mode & 0o170000):
                        st = b"T"
                    ours.add(((c.new or c.old).path, c.old.mode if c.old else 0, c.new.mode if c.new else 0, st))
                if ours != gitch:
                    fail("git diff-tree -r --raw disagrees with tree_changes", {"l1": {p.decode(): oct(m) for p, (m, s) in Ls[i].items()}, "l2": {p.decode(): oct(m) for p, (m, s) in Ls[j].items()},
                                                                                "git": sorted(map(repr, gitch))[:6], "dulwich": sorted(map(repr, ours))[:6]})
        r.close()
    return cases


def main():
    tier = sys.argv[sys.argv.index("--tier") + 1] if "--tier" in sys.argv else "quick"
    t0 = time.time()
    k = 3
    step = 32 if tier == "quick" else 1
    n = len(listings(k))
    jobs = [(k, n * c // 64, n * (c + 1) // 64, step) for c in range(64)]
    cases = 0
    failures = []
    rstride = 16 if tier == "quick" else 2
    rjobs = [(512 * c // 32, 512 * (c + 1) // 32, rstride) for c in range(32)]
    with ProcessPoolExecutor(max_workers=min(16, os.cpu_count() or 1)) as ex:
        for c, f in itertools.chain(ex.map(run_chunk, jobs), ex.map(run_renames, rjobs)):
            cases += c
            for x in f:
                if len(failures) < 10 and sum(1 for y in failures if y["what"] == x["what"]) < 2:
                    failures.append(x)
    if tier == "thorough":
        def fail(what, detail):
            if len(failures) < 10:
                failures.append({"what": what, "detail": detail})
        cases += git_cross_check(k, fail)
    print(json.dumps({"name": "c12_trees", "function": "dulwich/index.py commit_tree, object_store.py iter_tree_contents/commit_tree_changes, diff_tree.py tree_changes/RenameDetector",
                      "cases": cases, "exhaustive": True,
                      "bound": f"all {n} listings with <= {k} entries over 9 paths (file/directory conflicts, '/'-order traps) x 5 entry kinds; "
                      + ("every 32nd ordered pair of listings" if tier == "quick" else "all ordered pairs of listings; git 2.39 ls-tree / diff-tree cross-check on a sample")
                      + f"; rename/copy/rewrite detection: every {rstride}th ordered pair of the 512 listings of 3 paths x 8 entry kinds (blobs of graded similarity 100/75/40/0 %, symlink, executable) x 5 detector configurations",
                      "failures": failures, "secs": round(time.time() - t0, 2)}))


if __name__ == "__main__":
    main()

"""Guard 6 (DESIGN.md section 3): validate the engine's stdlib models / spec functions against CPython on
their finite domains.  usage: stdlib_axioms.py <group> [--tier ...]"""
import itertools
import json
import os
import sys
import time

HERE = os.path.dirname(os.path.dirname(os.path.abspath(__file__)))
sys.path.insert(0, HERE)
from contracts import specs_py as S  # noqa: E402


def hex_group():
    fails = []
    cases = 0
    for n in range(0, 0x10000 + 300):
        b = ("%04x" % n).encode("ascii")
        b2 = f"{n:04x}".encode("ascii")
        cases += 1
        if b != b2:
            fails.append({"n": n, "why": "f-string differs from %-format"})
        if n < 0x10000:
            if not (len(b) == 4 and S.is_lhex4(b, 0) and S.hex4val(b, 0) == n):
                fails.append({"n": n, "why": "fmt model"})
        elif len(b) <= 4:
            fails.append({"n": n, "why": "length"})
    digits = b"0123456789abcdefABCDEF"
    for t in itertools.product(digits, repeat=4):
        s = bytes(t)
        cases += 1
        if not S.is_hex4(s, 0) or int(s, 16) != S.hex4val(s, 0):
            fails.append({"s": s.hex(), "why": "int(s,16) != hex4val"})
    for c in range(256):
        cases += 1
        if S.is_hex1(c) != (bytes([c]) in [bytes([d]) for d in digits]):
            fails.append({"c": c, "why": "is_hex1"})
    return cases, fails, "all n in 0..65835 for '%04x'; all 22^4 four-hex-digit strings for int(s,16); all 256 bytes for is_hex1"


GROUPS = {"hex": hex_group}


def main():
    g = sys.argv[1]
    t0 = time.time()
    cases, fails, bound = GROUPS[g]()
    print(json.dumps({"name": f"stdlib_axioms:{g}", "function": f"engine model / spec functions ({g})", "bound": bound, "cases": cases,
                      "exhaustive": True, "failures": fails[:10], "secs": round(time.time() - t0, 2)}))


if __name__ == "__main__":
    main()

import cProfile, pstats, sys, os, importlib, signal
sys.path.insert(0,'/verif')
from pyvc import contract as C
from pyvc.verify import Verifier
from pyvc.specs import SPECS, register_pyspecs
import contracts.specs_py as _sp
register_pyspecs(_sp,'/verif')
importlib.import_module(sys.argv[1])
vf=Verifier('/repo',SPECS)
con=[c for c in C.REGISTRY.values() if c.func==sys.argv[2]][0]
con.verify_paths_limit=int(sys.argv[3])
pr=cProfile.Profile()
pr.enable()
r=vf.verify(con)
pr.disable()
print(r.status,r.message[:300],r.paths,r.secs)
pstats.Stats(pr).sort_stats('cumulative').print_stats(22)

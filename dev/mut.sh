#!/bin/sh
# usage: dev/mut.sh <prop> <python-expr-doing-replacement-on-s> [file]   (development helper: mutation on a scratch copy)
PROP=$1; EXPR=$2; FILE=${3:-dulwich/pack.py}
D=$(mktemp -d /tmp/mut.XXXXXX)
mkdir -p $D/repo && cp -r /repo/dulwich $D/repo/ && rm -f $D/repo/dulwich/*.so
python3 - "$D/repo/$FILE" "$EXPR" <<'PY'
import sys
p,expr=sys.argv[1],sys.argv[2]
s=open(p).read()
s2=eval(expr)
assert s2!=s, "mutation did not change the file"
open(p,'w').write(s2)
PY
[ $? -eq 0 ] || { rm -rf $D; exit 9; }
cd /verif && ./check $PROP --repo $D/repo --evidence $D/ev.json $4 $5 | grep -vE "^\s+UNDECIDED" | tail -6
echo "exit=$?"
rm -rf $D

#!/bin/sh
# usage: dev/selftest.sh     deliberate property-breaking edits on scratch copies; every one must make a NAMED obligation fail
# (exit 1 or 2 of ./check with the deductive part only).  Development helper: guards against an engine that proves too much.
cd /verif
run() { # prop file expr
  out=$(dev/mut.sh "$1" "$3" "$2" --no-bounded 2>&1 | grep -E "^\[C|VIOLATION|UNDECIDED" | head -3 | cut -c1-160)
  case "$out" in *"violations=0 undecided=0"*) echo "MISSED  $1 $2 :: $3";; *) echo "caught  $1 :: $(echo "$out" | head -1)";; esac
}
run C16 dulwich/refs.py "s.replace('        self._check_ref_value(ref)\n        if name in self._refs:\n            return False\n','        self._check_ref_value(ref)\n')"
run C16 dulwich/refs.py "s.replace('        old = self._refs.get(name)\n        self._refs[name] = new_ref\n','        old = self._refs.get(name)\n        self._refs[new_ref] = name\n')"
run C16 dulwich/refs.py "s.replace('        if old_ref is not None and self._refs.get(name, ZERO_SHA) != old_ref:\n            return False\n        try:\n            old = self._refs.pop(name)','        if old_ref is not None and self._refs.get(name, ZERO_SHA) == old_ref:\n            return False\n        try:\n            old = self._refs.pop(name)')"
run C11 dulwich/index.py "s.replace('    for i in range(min_len):\n        if path[i] == previous_path[i]:','    for i in range(min_len - 1):\n        if path[i] == previous_path[i]:')"
run C11 dulwich/index.py "s.replace('            remove_len = ((remove_len + 1) << 7) | (byte & 0x7F)\n        if not (byte & 0x80):  # No continuation bit','            remove_len = (remove_len << 7) | (byte & 0x7F)\n        if not (byte & 0x80):  # No continuation bit')"
run C11 dulwich/index.py "s.replace('        if byte == 0:  # NUL terminator\n            break\n        suffix += bytes([byte])','        if byte == 0:  # NUL terminator\n            break\n        suffix = bytes([byte]) + suffix')"
run C10 dulwich/gc.py "s.replace('        if sha not in reachable:\n            unreachable.add(sha)','        if sha in reachable:\n            unreachable.add(sha)')"
run C10 dulwich/object_store.py "s.replace('        self.add_objects(objects, progress=progress)\n        for obj, path in objects:\n            self.delete_loose_object(obj.id)','        for obj, path in objects:\n            self.delete_loose_object(obj.id)\n        self.add_objects(objects, progress=progress)')"
run C05 dulwich/object_store.py "s.replace('                self.add_todo([(o.tree, b\"\", Tree.type_num, False)])','                pass')"
run C12 dulwich/diff_tree.py "s.replace('            result.append((entry1, entry2))\n            i1 += 1\n            i2 += 1','            result.append((entry1, None))\n            i1 += 1\n            i2 += 1')"
run C14 dulwich/object_store.py "s.replace('                try:\n                    self._get_pack_by_name(result[0])\n                except KeyError:\n                    pass\n                else:\n                    return True','                return True')"
run C18 dulwich/index.py "s.replace('    ret = stat.S_IFREG | 0o644\n    if mode & 0o100:','    ret = stat.S_IFREG | 0o644\n    if mode & 0o010:')"
run C13 dulwich/graph.py "s.replace('    return lcas == [c1]','    return c1 in lcas or not lcas')"
run C02 dulwich/pack.py "s.replace('            ret.insert(0, 0x80 | (delta_base & 0x7F))','            ret.insert(0, 0x80 | (delta_base & 0x3F))')"
run C04 dulwich/objects.py "s.replace('    dcomped = dcomp.decompress(string, max_size + 1)','    dcomped = dcomp.decompress(string, max_size)')"
run C20 dulwich/config.py "s.replace('    ord(b\"t\"): ord(b\"\\\\t\"),\n','')"
run C20 dulwich/config.py "s.replace('        elif not string_open and character in comment_bytes:','        elif character in comment_bytes:')"
run C20 dulwich/config.py "s.replace('            out += name[i + 1 : i + 2]','            out += name[i : i + 1]')"
run C18 dulwich/index.py "s.replace('    if current_stat is None:\n        # Nothing to remove on disk, but the path must leave the index too\n        try:\n            del index[path]\n        except KeyError:\n            pass\n        return\n','    if current_stat is None:\n        return\n')"
run C10 dulwich/gc.py "s.replace('                    age = time.time() - mtime\n                    if age < grace_period:\n                        if progress:\n                            progress(\n                                f\"Keeping {sha.decode(\'ascii\', \'replace\')} (age: {age:.0f}s < grace period: {grace_period}s)\"\n                            )\n                        continue\n                except KeyError:\n                    # Object not found, skip it\n                    continue\n\n            if progress:\n                progress(f\"Pruning','                    age = time.time() - mtime\n                    if age > grace_period:\n                        continue\n                except KeyError:\n                    continue\n\n            if progress:\n                progress(f\"Pruning')"
run C14 dulwich/object_store.py "s.replace('                    pack = self._get_pack_by_name(pack_name)\n                    return pack.get_raw(sha)','                    pack = self._get_pack_by_name(pack_name)\n                    return pack.data.get_object_at(_offset)')"

#!/bin/sh
# usage: dev/seeded.sh <seed-dir-name> [extra check args]   e.g. dev/seeded.sh C08-s1
# applies seeded/<name>/patch.diff to /repo, runs the property's quick check, reverts.
S=$1; shift
PROP=$(echo $S | cut -d- -f1 | sed "s/[a-z]$//")
cd /repo || exit 9
git diff --quiet || { echo "/repo dirty"; exit 9; }
git apply /verif/seeded/$S/patch.diff || { echo "patch does not apply"; exit 9; }
(cd /repo && /venv/bin/python /verif/seeded/$S/demo.py >/dev/null 2>&1; echo "demo(with patch) exit=$?")
(cd /verif && ./check $PROP --evidence /tmp/ev_$S.json "$@" > /tmp/seed_$S.log 2>&1; echo "check exit=$?"; grep -E "^VIOLATION|^\[C|UNDECIDED" /tmp/seed_$S.log | cut -c1-300 | head -8)
git checkout -- . 
(cd /repo && /venv/bin/python /verif/seeded/$S/demo.py >/dev/null 2>&1; echo "demo(clean) exit=$?")
rm -f /tmp/ev_$S.json

#!/bin/sh
# usage: dev/all.sh [tier]   runs every claimed check once and prints one line each (development helper)
T=${1:-quick}
cd /verif
for p in $(python3 -c "import json; print(' '.join(c['property_id'] for c in json.load(open('MANIFEST.json'))['checks']))"); do
  ./check $p --tier $T > /tmp/all_$p.log 2>&1; rc=$?
  echo "$p exit=$rc $(grep -E '^\[C' /tmp/all_$p.log | cut -c1-160)"
  [ $rc -ne 0 ] && grep -E "VIOLATION|UNDECIDED|CRASH" /tmp/all_$p.log | cut -c1-300 | head -5
done

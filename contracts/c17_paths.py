"""C17 — checkout never writes outside the work tree or into .git (dulwich/index.py validators).
DESIGN.md section 7 C17 / A.11."""
from pyvc.contract import class_spec, contract, lemma

I = "dulwich/index.py"

contract(
    prop=["C17"], file=I, func="_normalize_path_element_default",
    params={"element": "bytes"}, returns="bytes",
    ensures=["len(result) == len(element)", "all(result[k] == lower1(element[k]) for k in range(0, len(element)))"],
)
contract(
    prop=["C17"], file=I, func="validate_path_element_default",
    params={"element": "bytes"}, returns="bool",
    # exactly the elements git's verify_path refuses everywhere: '', '.', '..', '.git' in any case
    ensures=["result == (not bad_element(element))"],
)
contract(
    prop=["C17"], file=I, func="validate_path",
    params={"path": "bytes", "element_validator": "func:default_validator"}, returns="bool",
    # True exactly when NO component of the path is '', '.', '..' or (any case of) '.git': nothing accepted can
    # leave the work tree lexically or enter .git, and nothing valid is over-rejected
    ensures=["result == path_is_safe(path)"],
    loops={1: dict(invariant=[
        "all(not (k == 0 or path[k - 1] == 47) or not bad_component_at(path, k) for k in range(0, _lo1))",
    ])},
    dead=[6],
)
contract(
    prop=["C17"], file="<abstract>", func="default_validator", trusted=True,
    params={"element": "bytes"}, returns="bool",
    ensures=["result == (not bad_element(element))"],
    note="the default element validator (validate_path_element_default, verified above under the same postcondition)",
)

contract(
    prop=["C17"], file=I, func="_has_dos_drive_prefix",
    params={"name": "bytes"}, returns="bool",
    ensures=["result == (len(name) >= 2 and name[1] == 58 and name[0] < 128)"],
)
contract(
    prop=["C17"], file=I, func="_is_ntfs_dotgit",
    params={"name": "bytes"}, returns="bool",
    # '.git' or the 8.3 short name 'git~1' (any ASCII case), followed only by dots/spaces up to the end or a ':'
    ensures=["result == ntfs_dotgit(name)"],
    loops={1: dict(
        invariant=["ntfs_head_len(name) <= i and i <= len(name) or i == ntfs_head_len(name)",
                   "all(name[k] == 46 or name[k] == 32 for k in range(ntfs_head_len(name), i))"],
        decreases="len(name) - i",
    )},
)

# ---- confinement discipline (mode C): every transition that touches the file system for a tree path requires that
# the path was validated (validate_path returned True) and that its leading directories were verified ------------------
G = "<abstract>"
contract(prop=["C17"], file=G, func="validate_path@ghost", trusted=True,
         params={"path": "opaque", "element_validator": "opaque"}, returns="bool", raises={"Exception": None},
         ensures=["result == upred('valid', path)"],
         note="ghost view of validate_path (verified above: True iff no component is '', '.', '..', '.git')")
contract(prop=["C17"], file=G, func="verify_leading_dirs@ghost", trusted=True,
         params={"tree_path": "opaque", "safe_prefix": "opaque", "repo_path": "opaque"}, returns="None",
         raises={"InvalidPathError": None, "Exception": None},
         ensures=["upred('leading_ok', tree_path)"],
         note="ghost view of verify_leading_dirs: returns normally only if no leading component is a symlink")
for _t, _p in (("_transition_to_absent", ["repo", "path", "full_path", "current_stat", "index"]),
               ("_transition_to_submodule", ["repo", "path", "full_path", "current_stat", "entry", "index"]),
               ("_transition_to_file", ["object_store", "path", "full_path", "current_stat", "entry", "index", "honor_filemode",
                                        "symlink_fn", "blob_normalizer", "tree_encoding"])):
    contract(prop=["C17"], file=G, func=_t + "@ghost", trusted=True,
             params={k: "opaque" for k in _p}, returns="opaque", raises={"Exception": None},
             requires=["upred('valid', path)", "upred('leading_ok', path)"],
             note="creates / overwrites / deletes full_path: only for validated paths behind verified leading directories")
GHOSTS = {"validate_path": (G, "validate_path@ghost"), "verify_leading_dirs": (G, "verify_leading_dirs@ghost"),
          "_transition_to_absent": (G, "_transition_to_absent@ghost"), "_transition_to_submodule": (G, "_transition_to_submodule@ghost"),
          "_transition_to_file": (G, "_transition_to_file@ghost")}
contract(
    prop=["C17"], file=I, func="update_working_tree", returns="opaque", raises={"Exception": None, "BaseException": None},
    options={"default_param": "opaque", "faults": "caught", "callee_contracts": GHOSTS,
             "focus": ["path", "full_path", "change", "removable", "changes"]},
    cover=False, verify_paths_limit=200000,
)

SAFE = ["upred('valid', entry.path)", "upred('leading_ok', entry.path)"]
contract(
    prop=["C17"], file=I, func="build_index_from_tree", returns="opaque", raises={"Exception": None, "BaseException": None},
    options={"default_param": "opaque", "faults": "caught",
             "callee_contracts": {"validate_path": (G, "validate_path@ghost"), "verify_leading_dirs": (G, "verify_leading_dirs@ghost")},
             "asserts": [("makedirs", "os.makedirs(os.path.dirname(full_path))", SAFE),
                         ("mkdir", "os.mkdir(full_path)", SAFE),
                         ("write-file", "st = build_file_from_blob(", SAFE)]},
    cover=False,
)


# ---- the submodule placeholder is never written THROUGH something that is not a real directory of the work tree ------------
# ensure_submodule_placeholder(repo, path) creates <path>/.git; it may run only when lstat found nothing, found a real
# directory (S_ISDIR of the LSTAT mode - a symlink to a directory is not one), or after whatever was there has been removed.
class_spec(file="<abstract>", cls="LStatAbs17", fields={"st_mode": "nat"})
contract(prop=["C17"], file="<abstract>", func="_remove_file_with_readonly_handling@ghost17", trusted=True, params={"path": "opaque"}, returns="None",
         raises={"BaseException": None}, ensures=["upred('removed17', path)"], note="ghost marker: returns only after the entry at `path` has been unlinked")
for _f, _ps in (("ensure_submodule_placeholder@abs17", ["repo", "path"]), ("index_entry_from_stat@abs17", ["stat_val", "hex_sha"]), ("os.lstat@abs17", ["path"])):
    contract(prop=["C17"], file="<abstract>", func=_f, trusted=True, params={p_: "opaque" for p_ in _ps}, returns="opaque", raises={"BaseException": None})
contract(
    prop=["C17"], file=I, func="_transition_to_submodule#placeholder",
    params={"repo": "opaque", "path": "bytes", "full_path": "bytes", "current_stat": "obj:LStatAbs17|None", "entry": "opaque", "index": "opaque"},
    returns="None", raises={"BaseException": None},
    options={"callee_contracts": {"_remove_file_with_readonly_handling": ("<abstract>", "_remove_file_with_readonly_handling@ghost17"),
                                  "ensure_submodule_placeholder": ("<abstract>", "ensure_submodule_placeholder@abs17"),
                                  "index_entry_from_stat": ("<abstract>", "index_entry_from_stat@abs17")},
             "primitives": {"os.lstat": "os.lstat@abs17"},
             "asserts": [("placeholder-only-into-absent-real-directory-or-after-removal", "ensure_submodule_placeholder(repo, path)",
                          ["current_stat is None or (current_stat.st_mode // 4096) % 16 == 4 or upred('removed17', full_path)"])]},
)

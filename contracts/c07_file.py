"""C07 — lock files: mutual exclusion and all-or-nothing replacement (dulwich/file.py).
DESIGN.md section 5.1 / 7 C07.  Ghost state on the handle: `owns` (the lock file exists and was
created by this handle and not yet renamed/removed by it), `committed` (the protected file was
replaced by this handle's lock file).  Meta-lemma M1 (assumed, stated in DESIGN.md): if every
replace/rename/remove of a lock path is performed by a handle that owns it at that moment, then
under every interleaving at most one handle owns a lock and nobody removes a lock of another."""
from pyvc.contract import class_spec, contract

F = "dulwich/file.py"

class_spec(file=F, cls="_GitFile", fields={
    "_closed": "bool", "_fsync": "bool", "_file": "opaque", "_filename": "opaque", "_lockfilename": "opaque",
    "_shared_perm": "opaque", "owns": "bool", "committed": "bool", "stuck": "bool"},
    init={"owns": "False", "committed": "False", "stuck": "False"})
# `stuck`: the operating system refused to remove the lock file (os.remove itself failed): the one
# situation in which a lock cannot be released by anyone's code.

ANY = "BaseException"      # fault quantifier: any call may raise OSError ... KeyboardInterrupt

# ---- trusted primitive contracts (the ownership axioms of DESIGN.md 5.1 / A.8) ------------------------
contract(
    prop=["C07"], file="<stdlib>", func="os.open@lock", trusted=True,
    params={"path": "opaque", "flags": "int", "mode": "opaque"}, free={"self": "obj:_GitFile"}, returns="opaque",
    requires=["flags & 128 != 0 and flags & 64 != 0"],       # O_EXCL | O_CREAT: creation is the lock acquisition
    modifies=["self.owns"],
    raises={"FileExistsError": ["self.owns == old(self.owns)"], ANY: ["self.owns == old(self.owns)"]},
    ensures=["self.owns"],
    note="open(O_CREAT|O_EXCL) succeeds only if the lock file did not exist; the caller then owns it",
)
contract(
    prop=["C07"], file="<stdlib>", func="os.replace@lock", trusted=True,
    params={"src": "opaque", "dst": "opaque"}, free={"self": "obj:_GitFile"}, returns="None",
    requires=["self.owns"],                                   # ghost-pre: only the owner renames the lock file
    modifies=["self.owns", "self.committed"],
    raises={ANY: ["self.owns == old(self.owns) and self.committed == old(self.committed)"]},
    ensures=["not self.owns", "self.committed"],
    note="atomic rename of the lock file over the protected file: consumes ownership",
)
contract(
    prop=["C07"], file="<stdlib>", func="os.remove@lock", trusted=True,
    params={"path": "opaque"}, free={"self": "obj:_GitFile"}, returns="None",
    requires=["self.owns"],                                   # ghost-pre: never remove a lock that is not ours
    modifies=["self.owns", "self.stuck"],
    raises={"FileNotFoundError": ["not self.owns", "self.stuck == old(self.stuck)"], ANY: ["self.owns == old(self.owns)", "self.stuck"]},
    ensures=["not self.owns", "self.committed == old(self.committed)", "self.stuck == old(self.stuck)"],
    note="removing the lock file releases it; allowed only to its owner (M1)",
)
PRIMS = {"os.open": "os.open@lock", "os.replace": "os.replace@lock", "os.remove": "os.remove@lock",
         "os.rename": "os.replace@lock", "os.unlink": "os.remove@lock"}
OPTS = {"primitives": PRIMS, "faults": "base"}

contract(
    prop=["C07", "C09"], file=F, func="_GitFile.__init__",
    params={"self": "obj:_GitFile", "filename": "opaque", "mode": "opaque", "bufsize": "opaque", "mask": "opaque",
            "fsync": "bool", "shared_perm": "opaque"},
    returns="None",
    requires=["not self.owns", "not self.committed"],
    modifies=["self"],
    raises={"FileLocked": ["not self.owns"], ANY: ["not self.owns or self.stuck"]},       # no exit keeps a lock without a usable handle
    ensures=["self.owns", "not self._closed", "not self.committed"],
    options=OPTS,
)
INV = "self._closed == (not self.owns)"       # class invariant: a handle is open exactly while it owns its lock
contract(
    prop=["C07", "C09"], file=F, func="_GitFile.abort",
    params={"self": "obj:_GitFile"}, returns="None",
    requires=[INV],
    modifies=["self._closed", "self.owns", "self.stuck"],
    raises={ANY: ["not self.owns or self.stuck", "self.committed == old(self.committed)"]},          # Released on every exit
    ensures=["not self.owns", "self._closed", "self.committed == old(self.committed)"],
    options=OPTS,
)
contract(
    prop=["C07", "C09"], file=F, func="_GitFile.close",
    params={"self": "obj:_GitFile"}, returns="None",
    requires=[INV, "self._closed or not self.committed"],
    modifies=["self._closed", "self.owns", "self.committed", "self.stuck"],
    raises={ANY: ["not self.owns or self.stuck", "self.committed == old(self.committed)"]},   # failed write: old content stays, lock released
    ensures=["not self.owns", "self._closed", "old(self._closed) or self.committed"],
    options=OPTS,
)
contract(
    prop=["C07", "C09"], file=F, func="_GitFile.__exit__",
    params={"self": "obj:_GitFile", "exc_type": "opaque?", "exc_val": "opaque", "exc_tb": "opaque"}, returns="None",
    requires=[INV, "self._closed or not self.committed"],
    modifies=["self._closed", "self.owns", "self.committed", "self.stuck"],
    raises={ANY: ["not self.owns or self.stuck", "self.committed == old(self.committed)"]},
    ensures=["not self.owns", "self._closed", "exc_type is None or self.committed == old(self.committed)",
             "exc_type is not None or old(self._closed) or self.committed"],
    options=OPTS,
)
contract(
    prop=["C07"], file=F, func="_GitFile.__enter__",
    params={"self": "obj:_GitFile"}, returns="self",
)


# ---- every routine that writes through the lock protocol ---------------------------------------------
# Obligations (options lock_discipline): each _GitFile taken by the call and not handed on is Released
# on every exit (normal or exceptional, any call may raise any BaseException) and is not committed
# on exceptional exits.  Callees without contract are over-approximated (unknown result, may raise).
WRITERS = [
    ("dulwich/bitmap.py", "write_bitmap"),
    ("dulwich/commit_graph.py", "write_commit_graph"),
    ("dulwich/config.py", "ConfigFile.write_to_path"),
    ("dulwich/index.py", "Index.write"),
    ("dulwich/midx.py", "write_midx_file"),
    ("dulwich/object_store.py", "DiskObjectStore.add_alternate_path"),
    ("dulwich/object_store.py", "DiskObjectStore._complete_pack"),
    ("dulwich/object_store.py", "DiskObjectStore.add_object"),
    ("dulwich/object_store.py", "DiskObjectStore.write_commit_graph"),
    ("dulwich/pack.py", "PackData.create_index_v1"),
    ("dulwich/pack.py", "PackData.create_index_v2"),
    ("dulwich/pack.py", "PackData.create_index_v3"),
    ("dulwich/pack.py", "write_pack"),
    ("dulwich/pack.py", "Pack.keep"),
    ("dulwich/refs.py", "DiskRefsContainer.add_packed_refs"),
    ("dulwich/refs.py", "DiskRefsContainer._remove_packed_ref"),
    ("dulwich/refs.py", "DiskRefsContainer.set_symbolic_ref"),
    ("dulwich/refs.py", "DiskRefsContainer.set_if_equals"),
    ("dulwich/refs.py", "DiskRefsContainer.add_if_new"),
    ("dulwich/refs.py", "DiskRefsContainer.remove_if_equals"),
    ("dulwich/repo.py", "Repo._put_named_file"),
]
# (os.* calls of the writers themselves act on other files: they keep the generic over-approximation)
WOPTS = {"faults": "base", "lock_discipline": True, "default_param": "opaque"}
for _file, _func in WRITERS:
    contract(prop=["C07"], file=_file, func=_func, returns="opaque", raises={ANY: None},
             inline=["GitFile"], options=WOPTS, cover=False)

"""C07 — lock files: mutual exclusion and all-or-nothing replacement (dulwich/file.py).
DESIGN.md section 5.1 / 7 C07.  Ghost state on the handle: `owns` (the lock file exists and was
created by this handle and not yet renamed/removed by it), `committed` (the protected file was
replaced by this handle's lock file).  Meta-lemma M1 (assumed, stated in DESIGN.md): if every
replace/rename/remove of a lock path is performed by a handle that owns it at that moment, then
under every interleaving at most one handle owns a lock and nobody removes a lock of another."""
from pyvc.contract import class_spec, contract

F = "dulwich/file.py"

# the buffered file object behind a handle: ghost flags for the publish-after-payload order (C09)
class_spec(file="<abstract>", cls="FileAbs", fields={"flushed": "bool", "synced": "bool"},
           init={"flushed": "False", "synced": "False"})
class_spec(file=F, cls="_GitFile", fields={
    "_closed": "bool", "_fsync": "bool", "_file": "obj:FileAbs", "_filename": "opaque", "_lockfilename": "opaque",
    "_shared_perm": "opaque", "owns": "bool", "committed": "bool", "stuck": "bool"},
    init={"owns": "False", "committed": "False", "stuck": "False"},
    # only the methods under contract below change these (syntactic guard: uncontracted-mutator /
    # uncontracted-effect-callee); everything else on a handle is a proxy to the underlying file object
    stable=["owns", "committed", "stuck", "_closed", "_filename", "_lockfilename", "_file", "_fsync", "_shared_perm"],
    # 
    mutators=["close", "abort", "__exit__", "__del__", "__init__"])
# `stuck`: the operating system refused to remove the lock file (os.remove itself failed): the one
# situation in which a lock cannot be released by anyone's code.

ANY = "BaseException"      # fault quantifier: any call may raise OSError ... KeyboardInterrupt

# ---- trusted primitive contracts (the ownership axioms of DESIGN.md 5.1 / A.8) ------------------------
contract(
    prop=["C07"], file="<stdlib>", func="os.open@lock", trusted=True,
    params={"path": "opaque", "flags": "int", "mode": "opaque"}, free={"self": "obj:_GitFile"}, returns="opaque",
    requires=["flags & 128 != 0 and flags & 64 != 0"],       # O_EXCL | O_CREAT: creation is the lock acquisition
    modifies=["self.owns"],
    raises={"FileExistsError": ["self.owns == old(self.owns)"], ANY: ["self.owns == old(self.owns)"]},
    ensures=["self.owns"],
    note="open(O_CREAT|O_EXCL) succeeds only if the lock file did not exist; the caller then owns it",
)
contract(prop=["C07", "C09"], file="<abstract>", func="FileAbs.flush", trusted=True,
         params={"self": "obj:FileAbs"}, returns="None", modifies=["self.flushed"],
         raises={"BaseException": ["self.flushed == old(self.flushed)"]}, ensures=["self.flushed"])
contract(prop=["C07", "C09"], file="<abstract>", func="FileAbs.close", trusted=True,
         params={"self": "obj:FileAbs"}, returns="None", raises={"BaseException": None})
contract(prop=["C07", "C09"], file="<abstract>", func="FileAbs.fileno", trusted=True,
         params={"self": "obj:FileAbs"}, returns="opaque", raises={"BaseException": None})
contract(prop=["C07", "C09"], file="<stdlib>", func="os.fsync@lock", trusted=True,
         params={"fd": "opaque"}, free={"self": "obj:_GitFile"}, returns="None", modifies=["self._file.synced"],
         raises={"BaseException": ["self._file.synced == old(self._file.synced)"]}, ensures=["self._file.synced"],
         note="fsync of the lock file's descriptor")
contract(prop=["C07", "C09"], file="<stdlib>", func="os.fdopen@lock", trusted=True,
         params={"fd": "opaque", "mode": "opaque", "bufsize": "opaque"}, returns="obj:FileAbs",
         raises={"BaseException": None}, ensures=["not result.flushed", "not result.synced"])
contract(
    prop=["C07"], file="<stdlib>", func="os.replace@lock", trusted=True,
    params={"src": "opaque", "dst": "opaque"}, free={"self": "obj:_GitFile"}, returns="None",
    requires=["self.owns",                                    # ghost-pre: only the owner renames the lock file
              # C09 publish-after-payload: the content is flushed (and fsynced when enabled) before the
              # rename makes it visible under the final name
              "self._file.flushed", "(not self._fsync) or self._file.synced"],
    modifies=["self.owns", "self.committed"],
    raises={ANY: ["self.owns == old(self.owns) and self.committed == old(self.committed)"]},
    ensures=["not self.owns", "self.committed"],
    note="atomic rename of the lock file over the protected file: consumes ownership",
)
contract(
    prop=["C07"], file="<stdlib>", func="os.remove@lock", trusted=True,
    params={"path": "opaque"}, free={"self": "obj:_GitFile"}, returns="None",
    requires=["self.owns"],                                   # ghost-pre: never remove a lock that is not ours
    modifies=["self.owns", "self.stuck"],
    raises={"FileNotFoundError": ["not self.owns", "self.stuck == old(self.stuck)"], ANY: ["self.owns == old(self.owns)", "self.stuck"]},
    ensures=["not self.owns", "self.committed == old(self.committed)", "self.stuck == old(self.stuck)"],
    note="removing the lock file releases it; allowed only to its owner (M1)",
)
PRIMS = {"os.open": "os.open@lock", "os.replace": "os.replace@lock", "os.remove": "os.remove@lock",
         "os.rename": "os.replace@lock", "os.unlink": "os.remove@lock", "os.fsync": "os.fsync@lock", "os.fdopen": "os.fdopen@lock"}
OPTS = {"primitives": PRIMS, "faults": "base"}

contract(
    prop=["C07", "C09"], file=F, func="_GitFile.__init__",
    params={"self": "obj:_GitFile", "filename": "opaque", "mode": "opaque", "bufsize": "opaque", "mask": "opaque",
            "fsync": "bool", "shared_perm": "opaque"},
    returns="None",
    requires=["not self.owns", "not self.committed"],
    modifies=["self"], assigns={"self._filename": "filename"},
    raises={"FileLocked": ["not self.owns"], ANY: ["not self.owns or self.stuck"]},       # no exit keeps a lock without a usable handle
    ensures=["self.owns", "not self._closed", "not self.committed"],
    options=OPTS,
)
INV = "self._closed == (not self.owns)"       # class invariant: a handle is open exactly while it owns its lock
contract(
    prop=["C07", "C09"], file=F, func="_GitFile.abort",
    params={"self": "obj:_GitFile"}, returns="None",
    requires=[INV],
    modifies=["self._closed", "self.owns", "self.stuck"],
    raises={ANY: ["not self.owns or self.stuck", "self.committed == old(self.committed)", INV]},          # Released on every exit
    ensures=["not self.owns", "self._closed", "self.committed == old(self.committed)"],
    options=OPTS,
)
contract(
    prop=["C07", "C09"], file=F, func="_GitFile.close",
    params={"self": "obj:_GitFile"}, returns="None",
    requires=[INV, "self._closed or not self.committed",
              # a failing writer never commits: close() (= commit) is not reached from an except/finally
              # arm that is running because of an exception
              "self._closed or not handling_exception()"],
    modifies=["self._closed", "self.owns", "self.committed", "self.stuck", "self._file.flushed", "self._file.synced"],
    raises={ANY: ["not self.owns or self.stuck", "self.committed == old(self.committed)", INV]},   # failed write: old content stays, lock released
    ensures=["not self.owns", "self._closed", "old(self._closed) or self.committed"],
    options=OPTS,
)
contract(
    prop=["C07", "C09"], file=F, func="_GitFile.__exit__",
    params={"self": "obj:_GitFile", "exc_type": "opaque?", "exc_val": "opaque", "exc_tb": "opaque"}, returns="None",
    requires=[INV, "self._closed or not self.committed"],
    modifies=["self._closed", "self.owns", "self.committed", "self.stuck", "self._file.flushed", "self._file.synced"],
    raises={ANY: ["not self.owns or self.stuck", "self.committed == old(self.committed)", INV]},
    ensures=["not self.owns", "self._closed", "exc_type is None or self.committed == old(self.committed)",
             "exc_type is not None or old(self._closed) or self.committed"],
    options=OPTS,
)
contract(
    prop=["C07"], file=F, func="_GitFile.closed",
    params={"self": "obj:_GitFile"}, returns="bool",
    ensures=["result == self._closed"], options={"property": True},
)
contract(
    prop=["C07"], file=F, func="_GitFile.__enter__",
    params={"self": "obj:_GitFile"}, returns="self",
)


# ---- hashing writers that wrap a handle (dulwich/pack.py): they forward to the handle; only close()
# (and __exit__, which calls it) closes it -------------------------------------------------------------
PK = "dulwich/pack.py"
for _cls, _hash in (("SHA1Writer", "sha1"), ("HashWriter", "hash_obj")):
    class_spec(file=PK, cls=_cls, fields={"f": "obj:_GitFile", "length": "opaque", _hash: "opaque", "digest": "opaque"},
               stable=["f"], mutators=["close", "__exit__"])
    contract(prop=["C07"], file=PK, func=f"{_cls}.__init__",
             params={"self": f"obj:{_cls}", "f": "obj:_GitFile", "hash_func": "opaque"}, returns="None",
             modifies=["self"], assigns={"self.f": "f"}, raises={ANY: None}, options={"faults": "base"})
    contract(prop=["C07"], file=PK, func=f"{_cls}.write",
             params={"self": f"obj:{_cls}", "data": "opaque"}, returns="opaque",
             modifies=["self.length", f"self.{_hash}"], raises={ANY: None}, options={"faults": "base"})
    contract(prop=["C07"], file=PK, func=f"{_cls}.write_sha" if _cls == "SHA1Writer" else f"{_cls}.write_hash",
             params={"self": f"obj:{_cls}"}, returns="opaque",
             modifies=["self.length", f"self.{_hash}"], raises={ANY: None}, options={"faults": "base"})
    contract(prop=["C07"], file=PK, func=f"{_cls}.close",
             params={"self": f"obj:{_cls}"}, returns="None",
             requires=["self.f._closed == (not self.f.owns)", "self.f._closed or not self.f.committed",
                       "self.f._closed or not handling_exception()"],
             modifies=["self.length", f"self.{_hash}", "self.digest", "self.f._closed", "self.f.owns", "self.f.committed", "self.f.stuck",
                       "self.f._file.flushed", "self.f._file.synced"],
             # if writing the trailer fails the handle is left as it was (still open: the caller's
             # error path must abort it); if the handle's close() fails it has released the lock
             raises={ANY: ["self.f.committed == old(self.f.committed)", "self.f._closed == (not self.f.owns)"]},
             ensures=["not self.f.owns", "self.f._closed", "old(self.f._closed) or self.f.committed"],
             options={"faults": "base"})

# functions that receive a handle and wrap it: frame condition only (they must not close/abort it)
for _file, _func in ((PK, "write_pack_index_v1"), (PK, "write_pack_index_v2"), (PK, "write_pack_index_v3"),
                     (PK, "write_pack_index"), ("dulwich/midx.py", "write_midx")):
    contract(prop=["C07"], file=_file, func=_func, params={"f": "obj:_GitFile"}, returns="opaque", raises={ANY: None},
             options={"faults": "base", "default_param": "opaque"}, cover=False,
             note="frame: the handle passed in is neither closed nor aborted nor committed")

# ---- every routine that writes through the lock protocol ---------------------------------------------
# Obligations (options lock_discipline): each _GitFile taken by the call and not handed on is Released
# on every exit (normal or exceptional, any call may raise any BaseException) and is not committed
# on exceptional exits.  Callees without contract are over-approximated (unknown result, may raise).
WRITERS = [
    ("dulwich/bitmap.py", "write_bitmap"),
    ("dulwich/commit_graph.py", "write_commit_graph"),
    ("dulwich/config.py", "ConfigFile.write_to_path"),
    ("dulwich/index.py", "Index.write"),
    ("dulwich/midx.py", "write_midx_file"),
    ("dulwich/object_store.py", "DiskObjectStore.add_alternate_path"),
    ("dulwich/object_store.py", "DiskObjectStore._complete_pack"),
    ("dulwich/object_store.py", "DiskObjectStore.add_object"),
    ("dulwich/object_store.py", "DiskObjectStore.write_commit_graph"),
    ("dulwich/pack.py", "PackData.create_index_v1"),
    ("dulwich/pack.py", "PackData.create_index_v2"),
    ("dulwich/pack.py", "PackData.create_index_v3"),
    ("dulwich/pack.py", "write_pack"),
    ("dulwich/pack.py", "Pack.keep"),
    ("dulwich/refs.py", "DiskRefsContainer._add_packed_refs"),
    ("dulwich/refs.py", "DiskRefsContainer._prune_loose_ref"),
    ("dulwich/refs.py", "DiskRefsContainer._remove_packed_ref"),
    ("dulwich/refs.py", "DiskRefsContainer.set_symbolic_ref"),
    ("dulwich/refs.py", "DiskRefsContainer.set_if_equals"),
    ("dulwich/refs.py", "DiskRefsContainer.add_if_new"),
    ("dulwich/refs.py", "DiskRefsContainer.remove_if_equals"),
    ("dulwich/repo.py", "Repo._put_named_file"),
]
# (os.* calls of the writers themselves act on other files: they keep the generic over-approximation)
WOPTS = {"faults": "base", "lock_discipline": True, "default_param": "opaque"}
for _file, _func in WRITERS:
    contract(prop=["C07"], file=_file, func=_func, returns="opaque", raises={ANY: None},
             inline=["GitFile"], options=WOPTS, cover=False)


# ---- guard: every function of the repository that opens a lock file for writing is under contract ------
HELD_BY_OBJECT = [("dulwich/index.py", "locked_index.__enter__"), ("dulwich/refs.py", "locked_ref.__enter__")]


def guard_all_writers(root):
    """Returns a list of problems (empty = fine): functions calling GitFile(..., 'wb'...) that no
    contract covers.  Run by the driver on every check of C07 (syntactic closure, DESIGN.md 1.5)."""
    import ast
    import glob
    import os
    covered = set(WRITERS) | set(HELD_BY_OBJECT) | {(F, "GitFile")}
    problems = []
    for f in sorted(glob.glob(os.path.join(root, "dulwich", "**", "*.py"), recursive=True)):
        if "/tests/" in f:
            continue
        rel = os.path.relpath(f, root)
        try:
            tree = ast.parse(open(f, "rb").read())
        except SyntaxError as ex:
            problems.append(f"{rel}: does not parse: {ex}")
            continue

        def visit(node, qual):
            for ch in ast.iter_child_nodes(node):
                if isinstance(ch, (ast.FunctionDef, ast.ClassDef, ast.AsyncFunctionDef)):
                    visit(ch, qual + [ch.name])
                else:
                    visit(ch, qual)
            if isinstance(node, ast.Call) and isinstance(node.func, ast.Name) and node.func.id in ("GitFile", "_GitFile"):
                mode = None
                if len(node.args) > 1:
                    mode = node.args[1].value if isinstance(node.args[1], ast.Constant) else "dyn"
                for k in node.keywords:
                    if k.arg == "mode":
                        mode = k.value.value if isinstance(k.value, ast.Constant) else "dyn"
                if mode is not None and ("w" in str(mode) or mode == "dyn"):
                    if (rel, ".".join(qual)) not in covered:
                        problems.append(f"uncontracted-writer: {rel}:{'.'.join(qual)} (line {node.lineno}) takes a write lock but has no contract")
        visit(tree, [])
    return problems


GUARDS = {"C07": [guard_all_writers]}

"""C19 — pkt-line and side-band framing (dulwich/protocol.py).  DESIGN.md section 7 C19, A.4."""
from pyvc.contract import class_spec, contract, lemma

F = "dulwich/protocol.py"
MAXP = 65516      # largest payload of one pkt-line (LARGE_PACKET_MAX 65520 minus the 4 length digits)

contract(
    prop=["C19"], file=F, func="pkt_line",
    params={"data": "bytes?"}, returns="bytes",
    raises={"ValueError": [f"data is not None and len(data) > {MAXP}"]},     # refused, never malformed
    ensures=[
        "data is not None or result == b'0000'",
        f"data is None or len(data) <= {MAXP}",
        "data is None or (len(result) == len(data) + 4 and result[4:] == data)",
        "data is None or (is_lhex4(result, 0) and hex4val(result, 0) == len(data) + 4)",
    ],
)

contract(
    prop=["C19", "C04"], file=F, func="_parse_pkt_line_length",
    params={"sizestr": "bytes"}, returns="int",
    raises={"GitProtocolError": ["not (len(sizestr) == 4 and is_hex4(sizestr, 0))"]},
    ensures=[
        "len(sizestr) == 4 and is_hex4(sizestr, 0)",
        "result == hex4val(sizestr, 0)",
        "0 <= result and result <= 65535",
    ],
)

# Protocol: ghost field `stream` = bytes not yet delivered by the transport's read(); the
# constructor-supplied read callable is abstract: a blocking read returning exactly min(n, rest).
class_spec(file=F, cls="Protocol", fields={"stream": "bytes", "_readahead": "None", "written": "bytes", "failed": "bool"})

contract(
    prop=["C19"], file="<abstract>", func="Protocol.read", trusted=True,
    params={"self": "obj:Protocol", "n": "int"}, returns="bytes",
    requires=["n >= 0"],
    modifies=["self.stream", "self.failed"],
    raises={"ConnectionResetError": ["self.failed"], "OSError": ["self.failed"]},
    ensures=["result == old(self.stream)[:n]", "self.stream == old(self.stream)[n:]", "self.failed == old(self.failed)"],
    note="transport read(): blocking, returns exactly n bytes unless the stream ends (file-object semantics)",
)
contract(
    prop=["C19"], file="<abstract>", func="Protocol.report_activity", trusted=True,
    params={"self": "obj:Protocol", "n": "int", "what": "str"}, returns="None", raises_any=False,
)

S0 = "old(self.stream)"
contract(
    prop=["C19", "C04"], file=F, func="Protocol.read_pkt_line",
    params={"self": "obj:Protocol"}, modifies=['self.stream', 'self.failed'], returns="bytes?",
    requires=["self._readahead is None", "not self.failed"],
    raises={
        "HangupException": ["len(old(self.stream)) == 0 or self.failed"],
        "GitProtocolError": [
            # only for input that is not a well-formed frame available in full (or a failing transport)
            f"self.failed or not (len({S0}) >= 4 and is_hex4({S0}, 0) and (hex4val({S0}, 0) <= 1 or (hex4val({S0}, 0) >= 4 and len({S0}) >= hex4val({S0}, 0))))",
        ],
    },
    ensures=[
        f"len({S0}) >= 4 and is_hex4({S0}, 0)",
        f"result is not None or (hex4val({S0}, 0) <= 1 and self.stream == {S0}[4:])",
        f"result is None or (hex4val({S0}, 0) >= 4 and len({S0}) >= hex4val({S0}, 0))",
        f"result is None or (result == {S0}[4:hex4val({S0}, 0)] and self.stream == {S0}[hex4val({S0}, 0):])",
    ],
)

# Round trip: a stream that starts with pkt_line(d) decodes to d and leaves exactly the rest.
lemma(
    prop=["C19"], name="pkt_line_roundtrip", file=F,
    forall={"d": "bytes", "rest": "bytes", "p": "obj:Protocol"},
    assume=[f"len(d) <= {MAXP}", "p._readahead is None", "not p.failed"],
    steps=[("frame", (F, "pkt_line"), ["d"]), ("_", "set_field(p, 'stream', frame + rest)"),
           ("got", (F, "Protocol.read_pkt_line"), ["p"])],
    show=["got is not None", "got == d", "p.stream == rest"],
    exc_ok="p.failed",
    note="transport failures (OSError from read) are excluded: the no-exception obligation is relativised to `not p.failed`",
)

# ------------------------------------------------------------------------------------------------
# io.BytesIO is modelled exactly by the engine as (content, pos) (pyvc/models.py, OBJ_MODELS)
class_spec(file="<stdlib>", cls="BytesIO", fields={"content": "bytes", "pos": "nat"})

# ---- write side ----------------------------------------------------------------------------------
contract(
    prop=["C19"], file="<abstract>", func="Protocol.write", trusted=True,
    params={"self": "obj:Protocol", "data": "bytes"}, returns="opaque",
    modifies=["self.written", "self.failed"],
    raises={"OSError": ["self.failed"]},
    ensures=["self.written == old(self.written) + data", "self.failed == old(self.failed)"],
    note="transport write(): appends to the ghost output",
)
contract(
    prop=["C19"], file=F, func="Protocol.write_pkt_line",
    params={"self": "obj:Protocol", "line": "bytes?"}, modifies=['self.written', 'self.failed'], returns="None",
    requires=[f"line is None or len(line) <= {MAXP}", "not self.failed"],
    raises={"GitProtocolError": ["self.failed"]},
    ensures=[
        "line is not None or self.written == old(self.written) + b'0000'",
        "line is None or len(self.written) == len(old(self.written)) + len(line) + 4",
        "line is None or self.written[:len(old(self.written))] == old(self.written)",
        "line is None or self.written[len(old(self.written)) + 4:] == line",
        "line is None or (is_lhex4(self.written, len(old(self.written))) and hex4val(self.written, len(old(self.written))) == len(line) + 4)",
        "not self.failed",
    ],
)
contract(
    prop=["C19"], file=F, func="Protocol.write_sideband",
    params={"self": "obj:Protocol", "channel": "int", "blob": "bytes"}, modifies=['self.written', 'self.failed'], returns="None",
    requires=["0 <= channel and channel <= 255", "not self.failed"],
    raises={"GitProtocolError": ["self.failed"]},
    ensures=[
        # every frame carried at most 65516 payload bytes (pre-at-call of write_pkt_line) and the
        # number of bytes put on the wire is payload + 5 bytes of framing per frame
        "len(self.written) == len(old(self.written)) + len(blob) + 5 * ((len(blob) + 65514) // 65515)",
    ],
    loops={1: dict(
        invariant=[
            "not self.failed",
            "len(blob) <= len(old(blob)) and ((len(old(blob)) - len(blob)) % 65515 == 0 or len(blob) == 0)",
            "len(self.written) == len(old(self.written)) + (len(old(blob)) - len(blob)) + 5 * ((len(old(blob)) - len(blob) + 65514) // 65515)",
        ],
        decreases="len(blob)",
    )},
)

# ---- BufferedPktLineWriter: everything handed to the sink plus the buffer is the frame stream -------
class_spec(file=F, cls="BufferedPktLineWriter",
           fields={"_wbuf": "obj:BytesIO", "_buflen": "int", "_bufsize": "int", "out": "bytes"})
contract(
    prop=["C19"], file="<abstract>", func="BufferedPktLineWriter._write", trusted=True,
    params={"self": "obj:BufferedPktLineWriter", "data": "bytes"}, returns="opaque",
    modifies=["self.out"], ensures=["self.out == old(self.out) + data"],
)
WB = "self._wbuf.pos == len(self._wbuf.content)"
ALL = "(self.out + self._wbuf.content)"
ALL0 = "(old(self.out) + old(self._wbuf.content))"
contract(
    prop=["C19"], file=F, func="BufferedPktLineWriter.flush",
    params={"self": "obj:BufferedPktLineWriter"}, modifies=['self._wbuf', 'self.out', 'self._len'], returns="None",
    requires=[WB],
    ensures=[f"{ALL} == {ALL0}", "len(self._wbuf.content) == 0", WB,
             "self._buflen == old(self._buflen) and self._bufsize == old(self._bufsize)"],
)
contract(
    prop=["C19"], file=F, func="BufferedPktLineWriter.write",
    params={"self": "obj:BufferedPktLineWriter", "data": "bytes"}, modifies=['self._wbuf', 'self.out', 'self._buflen', 'self._len'], returns="None",
    requires=[WB, f"len(data) <= {MAXP}"],
    ensures=[
        WB,
        f"len({ALL}) == len({ALL0}) + len(data) + 4",
        f"{ALL}[:len({ALL0})] == {ALL0}",
        f"{ALL}[len({ALL0}) + 4:] == data",
        f"is_lhex4({ALL}, len({ALL0})) and hex4val({ALL}, len({ALL0})) == len(data) + 4",
    ],
)

# ---- PktLineParser: complete frames are handed over in order, the tail is what is left ---------------
class_spec(file=F, cls="PktLineParser", fields={"_readahead": "obj:BytesIO", "delivered": "int", "last": "bytes?"})
contract(
    prop=["C19"], file="<abstract>", func="PktLineParser.handle_pkt", trusted=True,
    params={"self": "obj:PktLineParser", "pkt": "bytes?"}, returns="None",
    modifies=["self.delivered", "self.last"],
    ensures=["self.delivered == old(self.delivered) + (4 if pkt is None else len(pkt) + 4)"],
    note="callback; ghost `delivered` counts the raw bytes of the frames handed over",
)
RA = "self._readahead.pos == len(self._readahead.content)"
INP = "(old(self._readahead.content) + data)"
contract(
    prop=["C19", "C04"], file=F, func="PktLineParser.parse",
    params={"self": "obj:PktLineParser", "data": "bytes"}, modifies=['self._readahead', 'self.delivered', 'self.last'], returns="None",
    requires=[RA, "self.delivered == 0"],
    raises={"GitProtocolError": ["True"]},
    ensures=[
        RA,
        # what was not handed over is kept, in order: input == delivered frames ++ tail
        f"self._readahead.content == {INP}[self.delivered:]",
        f"0 <= self.delivered and self.delivered <= len({INP})",
        # and no complete frame is left in the tail
        "len(self._readahead.content) < 4 or hex4val(self._readahead.content, 0) > len(self._readahead.content)",
    ],
    loops={1: dict(
        invariant=[
            f"0 <= self.delivered and self.delivered <= len({INP})",
            f"buf == {INP}[self.delivered:]",
        ],
        decreases="len(buf)",
    )},
)

# ---- ReceivableProtocol.read / recv under ANY chunking of the wire ------------------------------------
class_spec(file=F, cls="ReceivableProtocol", bases=["Protocol"],
           fields={"_rbuf": "obj:BytesIO", "_rbufsize": "int", "wire": "bytes"})
contract(
    prop=["C19"], file="<abstract>", func="ReceivableProtocol._recv", trusted=True,
    params={"self": "obj:ReceivableProtocol", "n": "int"}, returns="bytes",
    requires=["n > 0"],
    modifies=["self.wire"],
    ensures=[
        "len(result) <= n",
        "len(result) >= 1 or len(old(self.wire)) == 0",      # empty only at end of stream
        "result == old(self.wire)[:len(result)]",
        "self.wire == old(self.wire)[len(result):]",
    ],
    note="socket recv(): ANY non-empty prefix of what is still on the wire, of length <= n - this universally "
         "quantified callee is the chunking quantifier of C19",
)
UNREAD0 = "(old(self._rbuf.content)[old(self._rbuf.pos):] + old(self.wire))"
UNREAD = "(self._rbuf.content[self._rbuf.pos:] + self.wire)"
contract(
    prop=["C19"], file=F, func="ReceivableProtocol.read",
    params={"self": "obj:ReceivableProtocol", "size": "int"}, modifies=['self._rbuf', 'self.wire'], returns="bytes",
    requires=["size >= 0", "self._rbuf.pos <= len(self._rbuf.content)"],
    ensures=[
        f"result == {UNREAD0}[:size]",
        f"{UNREAD} == {UNREAD0}[len(result):]",
        "self._rbuf.pos <= len(self._rbuf.content)",
    ],
    loops={1: dict(
        invariant=[
            "0 <= buf_len and buf_len < size",
            "start == old(self._rbuf.pos) and start <= len(buf.content)",
            "buf.pos == len(buf.content)",
            "buf_len == len(buf.content) - start",
            # definitional form (plain array on the left): what was received so far was appended to buf
            "len(buf.content) >= len(old(self._rbuf.content)) and len(self.wire) == len(old(self.wire)) - (len(buf.content) - len(old(self._rbuf.content)))",
            "buf.content == old(self._rbuf.content) + old(self.wire)[:len(buf.content) - len(old(self._rbuf.content))]",
            "self.wire == old(self.wire)[len(buf.content) - len(old(self._rbuf.content)):]",
            "len(self._rbuf.content) == 0 and self._rbuf.pos == 0",
        ],
        decreases="len(self.wire) + (size - buf_len)",
    )},
)
contract(
    prop=["C19"], file=F, func="ReceivableProtocol.recv",
    params={"self": "obj:ReceivableProtocol", "size": "int"}, modifies=['self._rbuf', 'self.wire'], returns="bytes",
    requires=["size > 0", "self._rbuf.pos <= len(self._rbuf.content)", "self._rbufsize > 0"],
    ensures=[
        "len(result) <= size or len(result) == size",
        f"result == {UNREAD0}[:len(result)]",
        f"{UNREAD} == {UNREAD0}[len(result):]",
        f"len(result) >= 1 or len({UNREAD0}) == 0",
        "self._rbuf.pos <= len(self._rbuf.content)",
    ],
)


# Refinement: ReceivableProtocol passes its own read() to Protocol as the transport read callable, so the
# concrete method must accept everything the abstract Protocol.read contract promises callers they may ask
# for (n >= 0, e.g. read(0) for the empty payload of a "0004" packet) and deliver what it promises.
lemma(
    prop=["C19"], name="receivable_read_refines_protocol_read", file=F,
    forall={"p": "obj:ReceivableProtocol", "n": "int"},
    assume=["n >= 0", "p._rbuf.pos <= len(p._rbuf.content)"],
    steps=[("unread0", "p._rbuf.content[p._rbuf.pos:] + p.wire"), ("got", (F, "ReceivableProtocol.read"), ["p", "n"])],
    show=["got == unread0[:n]", "p._rbuf.content[p._rbuf.pos:] + p.wire == unread0[len(got):]"],
)


# ---- capability lists / ref advertisement lines / command packets (writers and the NUL-free reader arm) ------------
contract(
    prop=["C19"], file=F, func="format_ref_line#nocaps",
    params={"ref": "bytes", "sha": "bytes", "capabilities": "None"}, returns="bytes", raises_any=False,
    ensures=["result == sha + b' ' + ref + b'\\n'"],
)
contract(
    prop=["C19"], file=F, func="extract_capabilities#nonul",
    params={"text": "bytes"}, returns="tuple", raises_any=False,
    requires=["all(text[k] != 0 for k in range(0, len(text)))"],
    ensures=["result[0] == text", "len(result[1]) == 0"],
    note="a ref line without NUL carries no capability list and is returned untouched (lines after the first of an advertisement)",
)
contract(
    prop=["C19"], file=F, func="extract_capabilities#caps",
    params={"text": "bytes"}, returns="tuple",
    ghost_params={"p": "int"},
    requires=["0 <= p and p < len(text) and text[p] == 0",                                   # the NUL that ends the ref name ...
              "all(text[k] != 0 for k in range(0, p))", "all(text[k] != 0 for k in range(p + 1, len(text)))"],   # ... is the only one
    raises={},                                                                               # total on such lines
    options={"exact_split_unpack": True},      # `a, b = x.split(b"\\0")`: exactly one separator or ValueError; a, b the two slices
    ensures=["result[0] == text[:p]"],
    note="a first advertisement line `<name> NUL <capabilities>`: the name is returned exactly (no byte of it is "
         "stripped or lost), whatever the capability list holds; the list itself is the bounded stand-in's subject",
)
contract(
    prop=["C19"], file=F, func="parse_cmd_pkt",
    params={"line": "bytes"}, returns="tuple",
    ghost_params={"p": "int"},
    requires=["0 <= p and p < len(line) - 1 and line[p] == 32", "all(line[k] != 32 for k in range(0, p))",   # first blank at p
              "line[len(line) - 1] == 0"],                                                                   # NUL-terminated arguments
    raises={},
    ensures=["result[0] == line[:p]"],
    note="command packet `<cmd> SP <arg> NUL ...`: the command is everything before the FIRST blank (arguments may contain blanks); "
         "the argument list is the bounded stand-in's subject",
)
# format_capability_line / format_ref_line with a capability list: `b"".join([b" " + c for c in capabilities])` is a list
# comprehension over an untracked iterable - outside the engine's subset (tried: the comprehension and the join stay opaque);
# covered by the bounded stand-in c19_roundtrip part (e) only.

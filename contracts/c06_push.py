"""C06 — a push reports success exactly for the refs it changed (dulwich/server.py).
DESIGN.md section 7 C06 / A.10.  The refs backend and the object store are abstract objects with
the RefsContainer contract (C16/C08 carry the backends); ghost fields on the refs object record the
last conditional update: which ref, whether it took effect, and how many were attempted."""
from pyvc.contract import class_spec, contract

S = "dulwich/server.py"
ANY = "Exception"

class_spec(file="<abstract>", cls="RefsAbs", fields={"last_ref": "opaque", "last_ok": "bool", "ncalls": "int"})
class_spec(file="<abstract>", cls="StoreAbs", fields={})
class_spec(file="<abstract>", cls="RepoAbs", fields={"refs": "obj:RefsAbs", "object_store": "obj:StoreAbs"})
class_spec(file=S, cls="ReceivePackHandler", fields={"repo": "obj:RepoAbs"})

GHOST = ["self.last_ref", "self.last_ok", "self.ncalls"]
for _m, _req in (("set_if_equals", ["upred('in_store', new_ref)"]), ("remove_if_equals", [])):
    contract(
        prop=["C06"], file="<abstract>", func=f"RefsAbs.{_m}", trusted=True,
        params=({"self": "obj:RefsAbs", "name": "opaque", "old_ref": "opaque", "new_ref": "opaque"} if _m == "set_if_equals"
                else {"self": "obj:RefsAbs", "name": "opaque", "old_ref": "opaque"}),
        returns="bool",
        # a server never ends up with a ref naming an object it does not have
        requires=_req,
        modifies=GHOST,
        raises={ANY: ["self.ncalls == old(self.ncalls) + 1", "self.last_ref is name", "not self.last_ok"]},
        ensures=["self.ncalls == old(self.ncalls) + 1", "self.last_ref is name", "self.last_ok == result"],
        note="RefsContainer contract: returns True iff the conditional update took effect; a failing call changes nothing",
    )
contract(prop=["C06"], file="<abstract>", func="RefsAbs.__getitem__", trusted=True,
         params={"self": "obj:RefsAbs", "name": "opaque"}, returns="opaque",
         # ghost view of a read: KeyError exactly for a missing ref, otherwise THE current value of that ref
         raises={"KeyError": ["upred('ref_missing', name)"], ANY: None},
         ensures=["not upred('ref_missing', name)", "result is uf('ref_value', name)"])
contract(prop=["C06"], file="<abstract>", func="StoreAbs.__contains__", trusted=True,
         params={"self": "obj:StoreAbs", "sha": "opaque"}, returns="bool", raises={ANY: None},
         ensures=["result == upred('in_store', sha)"],
         note="object presence; the store only grows during receive-pack")
contract(prop=["C06"], file="<abstract>", func="StoreAbs.add_thin_pack", trusted=True,
         params={"self": "obj:StoreAbs", "read_all": "opaque", "read_some": "opaque", "max_input_size": "opaque"},
         returns="opaque", raises={ANY: None})
contract(
    prop=["C06"], file=S, func="ReceivePackHandler._on_update", trusted=True,
    params={"self": "obj:ReceivePackHandler", "ref_name": "opaque", "old_sha": "opaque", "new_sha": "opaque"},
    returns="bytes?", raises={ANY: None},
    ensures=["result is None or result != b'ok'"],
    note="assumed: an update hook's error text is never the two bytes 'ok'; the hook does not touch refs",
)
contract(
    prop=["C06"], file=S, func="ReceivePackHandler._ref_is_stale",
    params={"self": "obj:ReceivePackHandler", "ref": "opaque", "oldsha": "opaque", "zero_sha": "opaque"}, returns="bool",
    raises={ANY: None},
    # stale <=> the ref's current value - the zero id for a missing ref - differs from the value the client named
    ensures=["result == (not ((zero_sha if upred('ref_missing', ref) else uf('ref_value', ref)) == oldsha))"],
)

contract(
    prop=["C06"], file="<abstract>", func="_ref_is_stale@ghost", trusted=True,
    params={"self": "obj:ReceivePackHandler", "ref": "opaque", "oldsha": "opaque", "zero_sha": "opaque"}, returns="bool",
    raises={"KeyError": None, ANY: None},
    ensures=["result == (not upred('fresh', ref, oldsha))"],
    note="ghost view of _ref_is_stale: False establishes that the ref currently holds the value the client expects",
)
R = "self.repo.refs"
CMD_FRESH = "upred('fresh', field(elem(refs, j), 2, 3), field(elem(refs, j), 0, 3))"
TRUTHFUL = [
    # reported ok  <=>  exactly one conditional update was attempted for this command, on this ref, and took effect
    f"(ref_status == b'ok') == ({R}.ncalls == n0 + 1 and {R}.last_ok and {R}.last_ref is ref)",
    f"{R}.ncalls <= n0 + 1",
]
UNTOUCHED = [f"{R}.ncalls == old({R}.ncalls)"]
contract(
    prop=["C06"], file=S, func="ReceivePackHandler._apply_pack",
    params={"self": "obj:ReceivePackHandler", "refs": "opaque"}, returns="opaque",
    modifies=["self.repo.refs", "self.repo.object_store"],
    raises={ANY: None},
    loops={
        # atomic: the validation phase touches no ref, and unless it records a failure every command seen so far was
        # validated against the current value of its ref (deletes as well as updates)
        2: dict(invariant=UNTOUCHED + [f"has_failure or all({CMD_FRESH} for j in range(0, _it2))"]),
        3: dict(invariant=UNTOUCHED),                               # atomic: failure report
        4: dict(snapshot={"n0": f"{R}.ncalls"}),                    # atomic: application phase
        5: dict(snapshot={"n0": f"{R}.ncalls"}),                    # non-atomic
    },
    options={"yields": "any", "faults": "caught",
             "callee_contracts": {"ReceivePackHandler._ref_is_stale": ("<abstract>", "_ref_is_stale@ghost")},
             "asserts": [
        # all-or-none (sequentially): in atomic mode nothing is applied unless EVERY command was validated
        ("atomic-validated-set", "if not self.repo.refs.set_if_equals(ref, oldsha, sha):", ["not atomic or upred('fresh', ref, oldsha)"]),
        ("atomic-validated-remove", "if not self.repo.refs.remove_if_equals(ref, oldsha):", ["not atomic or upred('fresh', ref, oldsha)"]),
        ("status-truthful", "yield (ref, ref_status)", TRUTHFUL),
        ("atomic-none-applied-1", 'yield (ref, b"atomic push failed")', UNTOUCHED),
        ("atomic-none-applied-2", "yield (ref, status)", UNTOUCHED + ["status != b'ok'"]),
    ]},
)


# ---- the in-process push path: every ref update is CONDITIONAL on the value the client saw ------------------------
contract(
    prop=["C06", "C08"], file="dulwich/client.py", func="LocalGitClient.send_pack", returns="opaque",
    raises={"Exception": None, "BaseException": None},
    options={"default_param": "opaque", "faults": "caught", "focus": ["old_sha1", "new_sha1", "refname", "old_refs", "new_refs", "ref_status", "target"],
             "asserts": [
                 # None would mean "unconditional" to the refs API: a push never overwrites a value it has not seen
                 # ... and the value it is conditioned on is the one the ref listing showed the client (old_refs.get(refname, ZERO)):
                 # every .get(name, default) in this function is a look-up in that listing (assumed marker by method name), a value
                 # re-read from the target just before the update is not
                 ("cas-set", "if not target.refs.set_if_equals(refname, old_sha1, new_sha1):", ["old_sha1 is not None", "old_sha1 is uf('seen_value', refname)"]),
                 ("cas-remove", "if not target.refs.remove_if_equals(refname, old_sha1):", ["old_sha1 is not None", "old_sha1 is uf('seen_value', refname)"]),
             ],
             "opaque_posts": {"get": ["result is uf('seen_value', arg0)"]}},
    cover=False, verify_paths_limit=100000,
)

"""C04 — hostile input is contained (decoders on the ingestion path).  DESIGN.md section 7 C04.
Decoder totality and the delta/offset/varint bounds are carried by contracts that also serve C02/C03/C11/C19/C20
(prop lists there include C04).  Here: the zlib size bound and the trailer check."""
from pyvc.contract import class_spec, contract

P = "dulwich/pack.py"

# zlib.decompressobj(): documented contract of decompress(data, max_length)
class_spec(file="<stdlib>", cls="ZObj", fields={"unconsumed_tail": "bytes", "unused_data": "bytes"})
contract(prop=["C04"], file="<stdlib>", func="zlib.decompressobj", trusted=True, params={}, returns="obj:ZObj",
         ensures=["len(result.unconsumed_tail) == 0", "len(result.unused_data) == 0"])
contract(
    prop=["C04"], file="<stdlib>", func="ZObj.decompress", trusted=True,
    params={"self": "obj:ZObj", "data": "bytes", "max_length": "int"}, returns="bytes",
    # the size-bounding obligation of C04: never call zlib with max_length 0 ("no limit")
    requires=["max_length >= 1"],
    modifies=["self.unconsumed_tail", "self.unused_data"],
    raises={"error": None},
    ensures=["len(result) <= max_length", "len(self.unused_data) <= len(data)", "len(self.unconsumed_tail) <= len(data)"],
    note="zlib documentation: with max_length > 0 at most max_length bytes are returned and the rest of the input is left "
         "in unconsumed_tail; max_length == 0 means unlimited output",
)
class_spec(file=P, cls="UnpackedObject", fields={"decomp_len": "int?", "decomp_chunks": "chunks", "crc32": "int?", "comp_chunks": "opaque"})
contract(prop=["C04"], file="<stdlib>", func="binascii.crc32", trusted=True,
         params={"data": "bytes", "value": "int"}, returns="int",
         # ghost accounting (C02): crc_fed(v) = number of bytes accumulated in the running checksum v.  CRC values are
         # treated as abstract tokens (the code under contract never compares them)
         ensures=["0 <= result and result < 2 ** 32", "ufi('crc_fed', result) == ufi('crc_fed', value) + len(data)"],
         note="running CRC-32: crc32(b, crc32(a, v)) == crc32(a + b, v); only the byte count is tracked")
contract(prop=["C04"], file="<abstract>", func="read_some", trusted=True,
         params={"n": "int"}, returns="bytes", raises={"Exception": None}, ensures=["len(result) <= n or n < 0"],
         note="the caller-supplied read callable: returns at most n bytes")

BOUND = "chunks_length(unpacked.decomp_chunks) <= old(chunks_length(unpacked.decomp_chunks)) + max_decomp"
for _f, _params, _ret in (
        ("read_zlib_chunks", {"read_some": "func:read_some", "unpacked": "obj:UnpackedObject", "include_comp": "bool", "buffer_size": "int"}, "bytes"),
        ("read_zlib_chunks_at", {"contents": "bytes", "offset": "int", "unpacked": "obj:UnpackedObject", "include_comp": "bool", "buffer_size": "int"}, "int")):
    contract(
        prop=["C04", "C02"], file=P, func=_f, params=_params, returns=_ret,
        requires=["buffer_size >= 1"] + (["0 <= offset"] if _f.endswith("_at") else []),
        modifies=["unpacked.decomp_chunks", "unpacked.crc32", "unpacked.comp_chunks"],
        raises={"ValueError": None, "error": None, "Exception": None},
        ensures=[
            # what was inflated is exactly the declared size: a stream cannot make us hold more than it declares
            "unpacked.decomp_len is not None",
            "chunks_length(unpacked.decomp_chunks) == old(chunks_length(unpacked.decomp_chunks)) + unpacked.decomp_len",
        ] + ([
            # C02: the recorded CRC covers exactly the bytes contents[offset:result] (every byte consumed, none twice)
            "old(unpacked.crc32) is None or ufi('crc_fed', unpacked.crc32) == ufi('crc_fed', old(unpacked.crc32)) + (result - offset)",
            "(old(unpacked.crc32) is None) == (unpacked.crc32 is None)",
        ] if _f.endswith("_at") else []),
        loops={1: dict(
            invariant=[
                "max_decomp >= 0 and 0 <= decomp_len and decomp_len <= max_decomp",
                "chunks_length(decomp_chunks) == old(chunks_length(unpacked.decomp_chunks)) + decomp_len",
            ] + (["offset <= pos and (pos <= len(contents) or pos == offset)",
                  "(old(unpacked.crc32) is None) == (crc32 is None)",
                  "crc32 is None or ufi('crc_fed', crc32) == ufi('crc_fed', old(unpacked.crc32)) + (pos - offset)"] if _f.endswith("_at") else []),
            types={"comp_chunks": "list[opaque]", "crc32": "int?", "unused": "bytes"},
        )},
        options={"yields": "any"},
    )

# ---- loose objects: the inflated size is bounded by the caller's limit, the header scan by its 8 KiB window ---------
O = "dulwich/objects.py"
contract(prop=["C04"], file="<stdlib>", func="ZObj.flush", trusted=True, params={"self": "obj:ZObj"}, returns="bytes",
         raises={"error": None}, ensures=["len(result) <= 32768 + 258"],
         note="zlib keeps at most one window (32 KiB) plus one match of pending output once all input has been consumed")
contract(
    prop=["C04"], file=O, func="_decompress",
    params={"string": "bytes", "max_size": "int"}, returns="bytes",
    requires=["max_size >= 0"],
    raises={"error": None},
    ensures=["len(result) <= max_size"],
)
contract(
    prop=["C04"], file=O, func="ShaFile._parse_legacy_object_header",
    params={"magic": "bytes"}, returns="opaque",
    raises={"error": None, "ObjectFormatException": None, "ValueError": None, "Exception": None},
    # the call-site obligation of ZObj.decompress (max_length >= 1: never "unlimited") is the property; the
    # invariant keeps the inflated prefix inside the 8 KiB window
    loops={1: dict(invariant=["header_max == 8192", "len(header) <= header_max"],
                   types={"header": "bytes", "end": "int", "start": "int"})},
    options={"yields": "any"},
)

# ---- index entries: the NUL scan for long names terminates on every input (damaged / truncated index files) ----------
IX = "dulwich/index.py"
contract(
    prop=["C04", "C11"], file=IX, func="read_cache_entry",
    params={"f": "obj:BytesIO", "version": "int", "previous_path": "bytes"}, returns="opaque",
    modifies=["f.pos", "f.content"],
    raises={"Exception": None},
    # totality: ordinary errors only, and the byte-by-byte scan for the terminator of a saturated name consumes input on
    # every iteration (variant: bytes left in the stream), so a file without that NUL cannot make the reader spin
    loops={1: dict(invariant=["True"], decreases="max(len(f.content) - f.pos, 0)",
                   types={"name": "opaque", "name_end": "opaque", "char": "bytes"})},
    options={"default_param": "opaque"},
)

# ---- a pack that fails its post-install validation is removed again, whatever the failure is (mode C) ----------------
# ghost fields on the store: `validating` is set when the Pack object over the installed files is created, `removed`
# counts the unlink calls.  Every exceptional exit after that point (any call may raise any BaseException) must have
# unlinked both the pack and its index.
from pyvc.contract import CLASS_SPECS, REGISTRY
import contracts.c09_crash  # noqa: F401,E402  (extends the C07/C09 contract of _complete_pack)

OSF = "dulwich/object_store.py"
_cs = CLASS_SPECS["DiskObjectStore"]
_cs.fields = dict(_cs.fields, validating="bool", removed="int", removal_failed="bool")
_cs.stable = list(_cs.stable) + ["validating", "removed", "removal_failed"]
contract(prop=["C04"], file="<abstract>", func="Pack@ghost", trusted=True, params={}, free={"self": "obj:DiskObjectStore"},
         returns="opaque", modifies=["self.validating"], raises={"BaseException": ["self.validating == old(self.validating)"]},
         ensures=["self.validating"], options={"default_param": "opaque"},
         note="ghost marker: the Pack object over the freshly installed files exists (validation is about to start)")
contract(prop=["C04"], file="<stdlib>", func="os.remove@rollback", trusted=True, params={"path": "opaque"},
         free={"self": "obj:DiskObjectStore"}, returns="None", modifies=["self.removed", "self.removal_failed"],
         raises={"FileNotFoundError": ["self.removed == old(self.removed) + 1", "self.removal_failed == old(self.removal_failed)"],
                 "BaseException": ["self.removal_failed"]},
         ensures=["self.removed == old(self.removed) + 1", "self.removal_failed == old(self.removal_failed)"],
         note="after os.remove(path) returns, or raises FileNotFoundError, the path does not exist")
contract(prop=["C04"], file="<abstract>", func="DiskObjectStore._add_cached_pack@ghost", trusted=True,
         params={"self": "obj:DiskObjectStore", "base_name": "opaque", "pack": "opaque"}, returns="None", modifies=["self.validating"],
         raises={"BaseException": ["not self.validating"]}, ensures=["not self.validating"],
         note="ghost marker: validation is over (the pack was accepted) when the pack is handed to the cache")
_c = REGISTRY[(OSF, "DiskObjectStore._complete_pack")]
_c.prop = sorted(set(_c.prop) | {"C04"})
_c.requires = list(_c.requires) + ["not self.validating", "self.removed == 0", "not self.removal_failed"]
_c.modifies = list(_c.modifies) + ["self.validating", "self.removed", "self.removal_failed"]
# (an unlink that itself fails with something else than FileNotFoundError is the one excuse)
_c.raises = {"BaseException": ["(not self.validating) or self.removed >= 2 or self.removal_failed"]}
_c.options = dict(_c.options, primitives=dict(_c.options.get("primitives", {}), **{"os.remove": "os.remove@rollback"}),
                  callee_contracts=dict(_c.options.get("callee_contracts", {}), **{"Pack": ("<abstract>", "Pack@ghost"),
                                                                              "DiskObjectStore._add_cached_pack": ("<abstract>", "DiskObjectStore._add_cached_pack@ghost")}))


# ---- loose objects, new-style and legacy body: what is handed to set_raw_string is bounded by the CALLER's limit ---------------
# (core.bigFileThreshold / loose_object_size_limit / an explicit max_size), never by a size the file itself declares
class_spec(file="<abstract>", cls="LooseObjAbs4", fields={"limit": "int"})
contract(prop=["C04"], file="<abstract>", func="LooseObjAbs4.set_raw_string@bounded", trusted=True,
         params={"self": "obj:LooseObjAbs4", "text": "bytes", "sha": "opaque"}, returns="None", raises={"Exception": None},
         requires=["len(text) <= self.limit"], note="call-site obligation: the inflated payload respects the caller's limit")
contract(
    prop=["C04"], file=O, func="ShaFile._parse_object",
    params={"self": "obj:LooseObjAbs4", "map": "bytes", "max_size": "int"}, returns="None",
    requires=["max_size >= 0", "self.limit == max_size"],
    raises={"error": None, "TypeError": None, "Exception": None},
    loops={1: dict(invariant=["1 <= used"], types={"byte": "int", "used": "int"})},
    options={"callee_contracts": {"LooseObjAbs4.set_raw_string": ("<abstract>", "LooseObjAbs4.set_raw_string@bounded")}},
)

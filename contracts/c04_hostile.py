"""C04 — hostile input is contained (decoders on the ingestion path).  DESIGN.md section 7 C04.
Decoder totality and the delta/offset/varint bounds are carried by contracts that also serve C02/C03/C11/C19/C20
(prop lists there include C04).  Here: the zlib size bound and the trailer check."""
from pyvc.contract import class_spec, contract

P = "dulwich/pack.py"

# zlib.decompressobj(): documented contract of decompress(data, max_length)
class_spec(file="<stdlib>", cls="ZObj", fields={"unconsumed_tail": "bytes", "unused_data": "bytes"})
contract(prop=["C04"], file="<stdlib>", func="zlib.decompressobj", trusted=True, params={}, returns="obj:ZObj",
         ensures=["len(result.unconsumed_tail) == 0", "len(result.unused_data) == 0"])
contract(
    prop=["C04"], file="<stdlib>", func="ZObj.decompress", trusted=True,
    params={"self": "obj:ZObj", "data": "bytes", "max_length": "int"}, returns="bytes",
    # the size-bounding obligation of C04: never call zlib with max_length 0 ("no limit")
    requires=["max_length >= 1"],
    modifies=["self.unconsumed_tail", "self.unused_data"],
    raises={"error": None},
    ensures=["len(result) <= max_length", "len(self.unused_data) <= len(data)", "len(self.unconsumed_tail) <= len(data)"],
    note="zlib documentation: with max_length > 0 at most max_length bytes are returned and the rest of the input is left "
         "in unconsumed_tail; max_length == 0 means unlimited output",
)
class_spec(file=P, cls="UnpackedObject", fields={"decomp_len": "int?", "decomp_chunks": "chunks", "crc32": "int?", "comp_chunks": "opaque"})
contract(prop=["C04"], file="<stdlib>", func="binascii.crc32", trusted=True,
         params={"data": "bytes", "value": "int"}, returns="int",
         # ghost accounting (C02): crc_fed(v) = number of bytes accumulated in the running checksum v.  CRC values are
         # treated as abstract tokens (the code under contract never compares them)
         ensures=["0 <= result and result < 2 ** 32", "ufi('crc_fed', result) == ufi('crc_fed', value) + len(data)"],
         note="running CRC-32: crc32(b, crc32(a, v)) == crc32(a + b, v); only the byte count is tracked")
contract(prop=["C04"], file="<abstract>", func="read_some", trusted=True,
         params={"n": "int"}, returns="bytes", raises={"Exception": None}, ensures=["len(result) <= n or n < 0"],
         note="the caller-supplied read callable: returns at most n bytes")

BOUND = "chunks_length(unpacked.decomp_chunks) <= old(chunks_length(unpacked.decomp_chunks)) + max_decomp"
for _f, _params, _ret in (
        ("read_zlib_chunks", {"read_some": "func:read_some", "unpacked": "obj:UnpackedObject", "include_comp": "bool", "buffer_size": "int"}, "bytes"),
        ("read_zlib_chunks_at", {"contents": "bytes", "offset": "int", "unpacked": "obj:UnpackedObject", "include_comp": "bool", "buffer_size": "int"}, "int")):
    contract(
        prop=["C04", "C02"], file=P, func=_f, params=_params, returns=_ret,
        requires=["buffer_size >= 1"] + (["0 <= offset"] if _f.endswith("_at") else []),
        modifies=["unpacked.decomp_chunks", "unpacked.crc32", "unpacked.comp_chunks"],
        raises={"ValueError": None, "error": None, "Exception": None},
        ensures=[
            # what was inflated is exactly the declared size: a stream cannot make us hold more than it declares
            "unpacked.decomp_len is not None",
            "chunks_length(unpacked.decomp_chunks) == old(chunks_length(unpacked.decomp_chunks)) + unpacked.decomp_len",
        ] + ([
            # C02: the recorded CRC covers exactly the bytes contents[offset:result] (every byte consumed, none twice)
            "old(unpacked.crc32) is None or ufi('crc_fed', unpacked.crc32) == ufi('crc_fed', old(unpacked.crc32)) + (result - offset)",
            "(old(unpacked.crc32) is None) == (unpacked.crc32 is None)",
        ] if _f.endswith("_at") else []),
        loops={1: dict(
            invariant=[
                "max_decomp >= 0 and 0 <= decomp_len and decomp_len <= max_decomp",
                "chunks_length(decomp_chunks) == old(chunks_length(unpacked.decomp_chunks)) + decomp_len",
            ] + (["offset <= pos and (pos <= len(contents) or pos == offset)",
                  "(old(unpacked.crc32) is None) == (crc32 is None)",
                  "crc32 is None or ufi('crc_fed', crc32) == ufi('crc_fed', old(unpacked.crc32)) + (pos - offset)"] if _f.endswith("_at") else []),
            types={"comp_chunks": "list[opaque]", "crc32": "int?", "unused": "bytes"},
        )},
        options={"yields": "any"},
    )

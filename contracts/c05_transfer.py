"""C05 — transfers carry a complete closure.  DESIGN.md section 7 C05 / 12.2.
The closure statement itself is bounded only (bounded/c05_transfer.py).  Under contract here: the STEP of the
MissingObjectFinder worklist.  Closure of the objects sent follows from the worklist invariant "every object marked
done had all its children handed to add_todo" (meta-lemma, stated, assumed: add_todo queues every entry that is not
done yet, and the walk ends only when the queue is empty).  The obligation proved on the real __next__, for every
object and every tree:  when __next__ marks `sha` done (self.sha_done.add(sha)) and the object was loaded (not a leaf),
 - a commit's tree, a tag's target, and EVERY non-gitlink entry of a tree have been passed to add_todo
   (ghost marker `queued`, set only by add_todo for the first component of each entry it is given)."""
from pyvc.contract import class_spec, contract

OS = "dulwich/object_store.py"
ANY = "BaseException"

class_spec(file="<abstract>", cls="FinderAbs", fields={})
contract(
    prop=["C05"], file="<abstract>", func="FinderAbs.add_todo@ghost", trusted=True,
    params={"self": "obj:FinderAbs", "entries": "list[opaque]"}, returns="None", raises={ANY: None},
    ensures=["all(upred('queued', field(entries[r], 0, 4)) for r in range(0, len(entries)))"],
    note="ghost marker; the real add_todo adds every entry whose id is not in sha_done to objects_to_send (set update): ASSUMED",
)
contract(prop=["C05"], file="<abstract>", func="S_ISGITLINK@abs", trusted=True, params={"m": "opaque"}, returns="bool",
         ensures=["result == upred('gitlink', m)"], note="pure predicate of the mode")
I = "_seq2"
S = f"field(elem({I}, j), 2, 3)"
M = f"field(elem({I}, j), 1, 3)"
contract(
    prop=["C05"], file=OS, func="MissingObjectFinder.__next__",
    params={"self": "obj:FinderAbs"}, returns="opaque", raises={ANY: None},
    loops={
        2: dict(
            invariant=[
                # every entry seen so far that is not a gitlink sits in `todos` (witness w) with its id as first component
                f"all(upred('gitlink', {M}) or (0 <= w(j) and w(j) < len(todos) and field(todos[w(j)], 0, 4) is {S}) for j in range(0, _it2))",
            ],
            types={"todos": "list[opaque]"},
            witness={"w": ("j", "0", "len(todos) - 1 if j == _it2 - 1 else old_w(j)")},
            snapshot={"tree_items": I},
        ),
    },
    options={
        "default_param": "opaque",
        "callee_contracts": {"FinderAbs.add_todo": ("<abstract>", "FinderAbs.add_todo@ghost"), "S_ISGITLINK": ("<abstract>", "S_ISGITLINK@abs")},
        "asserts": [("children-queued-before-done", "self.sha_done.add(sha)", [
            "leaf or not isinstance(o, Commit) or upred('queued', o.tree)",
            "leaf or isinstance(o, Commit) or isinstance(o, Tree) or not isinstance(o, Tag) or upred('queued', o.object[1])",
            "leaf or isinstance(o, Commit) or not isinstance(o, Tree) or "
            "all(upred('gitlink', field(elem(tree_items, j), 1, 3)) or upred('queued', field(elem(tree_items, j), 2, 3)) for j in range(0, len_of(tree_items)))",
        ])],
    },
)


# ---- what the receiver is assumed to have: only tree and blob ids of the walked trees, never a gitlink's target -----------
# (_collect_filetree_revs fills the `remote_has` set from the trees of the common commits; a gitlink entry names a commit of
#  ANOTHER history - possibly one stored in the same repository and wanted in the same transfer - and says nothing about
#  what the receiver holds)
contract(prop=["C05"], file="<abstract>", func="_collect_filetree_revs@rec", trusted=True,
         params={"obj_store": "opaque", "tree_sha": "opaque", "kset": "set[opaque]"}, returns="None", raises={ANY: None}, modifies=["kset"],
         note="the recursive call: same obligation on its own add sites (modular), may add anything it proves there")
contract(
    prop=["C05"], file=OS, func="_collect_filetree_revs",
    params={"obj_store": "opaque", "tree_sha": "opaque", "kset": "set[opaque]"}, returns="None", raises={ANY: None}, modifies=["kset"],
    loops={1: dict(invariant=["True"], types={"kset": "set[opaque]"})},
    options={"callee_contracts": {"S_ISGITLINK": ("<abstract>", "S_ISGITLINK@abs"), "_collect_filetree_revs": ("<abstract>", "_collect_filetree_revs@rec")},
             "asserts": [("only-non-gitlink-entries-enter-the-have-set", "kset.add(sha)", ["not upred('gitlink', mode)"])]},
)


# ---- the server accepts a want only for an id it advertised ------------------------------------------------------------------
# _ProtocolGraphWalker.determine_wants: every id that ends up in the returned want list was checked against `values`, the set
# of the advertised ref values (membership ghost on a set the function never mutates).  Protocol I/O is abstract.
SV = "dulwich/server.py"
class_spec(file="<abstract>", cls="WalkerAbs", fields={"advertise_refs": "bool", "stateless_rpc": "bool", "proto": "opaque", "handler": "opaque"})
contract(prop=["C05"], file="<abstract>", func="ObjectID@id", trusted=True, params={"x": "opaque"}, returns="opaque", raises={}, ensures=["result is x"],
         note="typing.NewType: the identity at run time")
contract(prop=["C05"], file="<abstract>", func="WalkerAbs.read_proto_line@abs", trusted=True, params={"self": "obj:WalkerAbs", "allowed": "opaque"}, returns="tuple[opaque,opaque]", raises={ANY: None})
contract(prop=["C05"], file="<abstract>", func="_split_proto_line@abs", trusted=True, params={"line": "opaque", "allowed": "opaque"}, returns="tuple[opaque,opaque]", raises={ANY: None})
for _m, _ps in (("get_symrefs", []), ("get_peeled", ["ref"]), ("set_ack_type", ["t"]), ("set_wants", ["wants"]), ("unread_proto_line", ["command", "value"]), ("_handle_shallow_request", ["wants"])):
    contract(prop=["C05"], file="<abstract>", func=f"WalkerAbs.{_m}@abs", trusted=True, params=dict({"self": "obj:WalkerAbs"}, **{p_: "opaque" for p_ in _ps}), returns="opaque", raises={ANY: None},
             note="protocol / bookkeeping: abstract; receives the want list but cannot change which ids were accepted")
contract(
    prop=["C05"], file=SV, func="_ProtocolGraphWalker.determine_wants",
    params={"self": "obj:WalkerAbs", "heads": "opaque", "depth": "opaque"}, returns="list[opaque]", raises={ANY: None},
    modifies=["self.advertise_refs", "self.stateless_rpc", "self.proto", "self.handler"],      # (no frame claim: bookkeeping methods are abstract)
    loops={1: dict(invariant=["True"]),
           2: dict(invariant=["all(want_revs[r] in values for r in range(0, len(want_revs)))"], types={"want_revs": "list[opaque]"}, keep=["values"])},
    ensures=["all(result[r] in values for r in range(0, len(result)))"],
    options={"default_param": "opaque",
             "callee_contracts": dict({"ObjectID": ("<abstract>", "ObjectID@id"), "_split_proto_line": ("<abstract>", "_split_proto_line@abs"),
                                       "WalkerAbs.read_proto_line": ("<abstract>", "WalkerAbs.read_proto_line@abs")},
                                      **{f"WalkerAbs.{m_}": ("<abstract>", f"WalkerAbs.{m_}@abs") for m_ in ("get_symrefs", "get_peeled", "set_ack_type", "set_wants", "unread_proto_line", "_handle_shallow_request")})},
)

"""C05 — transfers carry a complete closure.  DESIGN.md section 7 C05 / 12.2.
The closure statement itself is bounded only (bounded/c05_transfer.py).  Under contract here: the STEP of the
MissingObjectFinder worklist.  Closure of the objects sent follows from the worklist invariant "every object marked
done had all its children handed to add_todo" (meta-lemma, stated, assumed: add_todo queues every entry that is not
done yet, and the walk ends only when the queue is empty).  The obligation proved on the real __next__, for every
object and every tree:  when __next__ marks `sha` done (self.sha_done.add(sha)) and the object was loaded (not a leaf),
 - a commit's tree, a tag's target, and EVERY non-gitlink entry of a tree have been passed to add_todo
   (ghost marker `queued`, set only by add_todo for the first component of each entry it is given)."""
from pyvc.contract import class_spec, contract

OS = "dulwich/object_store.py"
ANY = "BaseException"

class_spec(file="<abstract>", cls="FinderAbs", fields={})
contract(
    prop=["C05"], file="<abstract>", func="FinderAbs.add_todo@ghost", trusted=True,
    params={"self": "obj:FinderAbs", "entries": "list[opaque]"}, returns="None", raises={ANY: None},
    ensures=["all(upred('queued', field(entries[r], 0, 4)) for r in range(0, len(entries)))"],
    note="ghost marker; the real add_todo adds every entry whose id is not in sha_done to objects_to_send (set update): ASSUMED",
)
contract(prop=["C05"], file="<abstract>", func="S_ISGITLINK@abs", trusted=True, params={"m": "opaque"}, returns="bool",
         ensures=["result == upred('gitlink', m)"], note="pure predicate of the mode")
I = "_seq2"
S = f"field(elem({I}, j), 2, 3)"
M = f"field(elem({I}, j), 1, 3)"
contract(
    prop=["C05"], file=OS, func="MissingObjectFinder.__next__",
    params={"self": "obj:FinderAbs"}, returns="opaque", raises={ANY: None},
    loops={
        2: dict(
            invariant=[
                # every entry seen so far that is not a gitlink sits in `todos` (witness w) with its id as first component
                f"all(upred('gitlink', {M}) or (0 <= w(j) and w(j) < len(todos) and field(todos[w(j)], 0, 4) is {S}) for j in range(0, _it2))",
            ],
            types={"todos": "list[opaque]"},
            witness={"w": ("j", "0", "len(todos) - 1 if j == _it2 - 1 else old_w(j)")},
            snapshot={"tree_items": I},
        ),
    },
    options={
        "default_param": "opaque",
        "callee_contracts": {"FinderAbs.add_todo": ("<abstract>", "FinderAbs.add_todo@ghost"), "S_ISGITLINK": ("<abstract>", "S_ISGITLINK@abs")},
        "asserts": [("children-queued-before-done", "self.sha_done.add(sha)", [
            "leaf or not isinstance(o, Commit) or upred('queued', o.tree)",
            "leaf or isinstance(o, Commit) or isinstance(o, Tree) or not isinstance(o, Tag) or upred('queued', o.object[1])",
            "leaf or isinstance(o, Commit) or not isinstance(o, Tree) or "
            "all(upred('gitlink', field(elem(tree_items, j), 1, 3)) or upred('queued', field(elem(tree_items, j), 2, 3)) for j in range(0, len_of(tree_items)))",
        ])],
    },
)

"""C16 — ref-name validity and ref backends (dulwich/refs.py).  DESIGN.md section 7 C16 / A.7."""
from pyvc.contract import contract, lemma

R = "dulwich/refs.py"

contract(
    prop=["C16"], file=R, func="check_ref_format",
    params={"refname": "bytes"}, returns="bool",
    requires=["all(refname[k] != 0 for k in range(0, len(refname)))"],       # git cannot be asked about NUL
    # agrees with git check-ref-format on EVERY byte string (spec transcribed from refs.c)
    ensures=["result == git_check_refname_format(refname)"],
    loops={
        1: dict(invariant=["all(refname[k] >= 32 and ref_char_ok(refname[k]) for k in range(0, _it1))"]),
        2: dict(invariant=[
            "all(not (k == 0 or refname[k - 1] == 47) or (k < len(refname) and refname[k] != 47 and refname[k] != 46) for k in range(0, _lo2))",
            "all(not (k == len(refname) or refname[k] == 47) or not is_dotlock_before(refname, k) for k in range(0, _lo2))",
        ]),
    },
)

"""C16 — ref-name validity and ref backends (dulwich/refs.py).  DESIGN.md section 7 C16 / A.7."""
from pyvc.contract import contract, lemma

R = "dulwich/refs.py"

contract(
    prop=["C16"], file=R, func="check_ref_format",
    params={"refname": "bytes"}, returns="bool",
    requires=["all(refname[k] != 0 for k in range(0, len(refname)))"],       # git cannot be asked about NUL
    # agrees with git check-ref-format on EVERY byte string (spec transcribed from refs.c)
    ensures=["result == git_check_refname_format(refname)"],
    loops={
        1: dict(invariant=["all(refname[k] >= 32 and ref_char_ok(refname[k]) for k in range(0, _it1))"]),
        2: dict(invariant=[
            "all(not (k == 0 or refname[k - 1] == 47) or (k < len(refname) and refname[k] != 47 and refname[k] != 46) for k in range(0, _lo2))",
            "all(not (k == len(refname) or refname[k] == 47) or not is_dotlock_before(refname, k) for k in range(0, _lo2))",
        ]),
    },
)

# ---- deleting a ref removes its packed copy as well (otherwise the packed value reappears) ------------------------
# ghost: upred('unpacked', name) is established only by _remove_packed_ref(name); a successful remove_if_equals must
# have made that call whatever it found in the loose file (mode C; the file contents themselves: bounded stand-in)
from pyvc.contract import REGISTRY
from contracts.c07_file import ANY
import contracts.c08_refs  # noqa: F401  (the mutators' C07/C08 contracts are extended here)

contract(prop=["C16"], file="<abstract>", func="DiskRefsContainer._remove_packed_ref@ghost", trusted=True,
         params={"self": "obj:DiskRefsContainer", "name": "opaque"}, returns="None", raises={ANY: None},
         ensures=["upred('unpacked', name)"],
         note="ghost marker of the call; the body of _remove_packed_ref is verified for C07/C08 only (lock discipline)")
_c = REGISTRY[(R, "DiskRefsContainer.remove_if_equals")]
_c.prop = sorted(set(_c.prop) | {"C16"})
_c.ensures = list(_c.ensures) + ["result is False or upred('unpacked', name)"]
_c.options = dict(_c.options, callee_contracts=dict(_c.options.get("callee_contracts", {}),
                  **{"DiskRefsContainer._remove_packed_ref": ("<abstract>", "DiskRefsContainer._remove_packed_ref@ghost")}))

# ---- the in-memory backend IS the map model: every mutator as a function of the whole map ----------------------------
# (the postconditions speak about the whole dict - keys other than `name` are untouched - not only about the touched entry)
from pyvc.contract import class_spec
class_spec(file=R, cls="DictRefsContainer", fields={"_refs": "dict[opaque,opaque]"}, stable=["_refs"],
           mutators=["set_if_equals", "add_if_new", "remove_if_equals"])
UNCH = ["dict_same(old(self._refs), self._refs)"]
CUR = "(dict_get(old(self._refs), name) if dict_has(old(self._refs), name) else ZERO_SHA)"
DOPT = {"default_param": "opaque", "eq_symmetric": True}      # `==` between untracked values is symmetric (stated axiom)
contract(
    prop=["C16"], file=R, func="DictRefsContainer.set_if_equals",
    params={"self": "obj:DictRefsContainer", "name": "opaque", "old_ref": "opaque?", "new_ref": "opaque"}, returns="bool",
    # on failure (value check, name check, or a reflog / watcher error AFTER the write) the map is the old one or the intended new one
    modifies=["self._refs"], raises={ANY: ["dict_same(old(self._refs), self._refs) or dict_set(old(self._refs), self._refs, name, new_ref)"]},
    ensures=[f"result == (old_ref is None or {CUR} == old_ref)",
             "dict_set(old(self._refs), self._refs, name, new_ref) if result else dict_same(old(self._refs), self._refs)"],
    options=DOPT,
)
contract(
    prop=["C16"], file=R, func="DictRefsContainer.add_if_new",
    params={"self": "obj:DictRefsContainer", "name": "opaque", "ref": "opaque"}, returns="bool",
    modifies=["self._refs"], raises={ANY: ["dict_same(old(self._refs), self._refs) or dict_set(old(self._refs), self._refs, name, ref)"]},
    ensures=["result == (not dict_has(old(self._refs), name))",
             "dict_set(old(self._refs), self._refs, name, ref) if result else dict_same(old(self._refs), self._refs)"],
    options=DOPT,
)
contract(
    prop=["C16"], file=R, func="DictRefsContainer.remove_if_equals",
    params={"self": "obj:DictRefsContainer", "name": "opaque", "old_ref": "opaque?"}, returns="bool",
    modifies=["self._refs"], raises={ANY: ["dict_same(old(self._refs), self._refs) or dict_del(old(self._refs), self._refs, name)"]},
    ensures=[f"result == (old_ref is None or {CUR} == old_ref)",
             "dict_del(old(self._refs), self._refs, name) if result else dict_same(old(self._refs), self._refs)"],
    options=DOPT,
)


# ---- reftable backend: the conditional update contract (None = unconditionally, ZERO_SHA = must not exist) ------------------
# read_loose_ref and _write_ref_update are abstract: the first yields the ghost current value `cur` or raises KeyError exactly
# when the ghost flag `missing` is set, the second records what was written in ghost fields.
RT = "dulwich/reftable.py"
class_spec(file="<abstract>", cls="ReftableAbs", fields={"written": "bool", "w_type": "int", "w_value": "bytes", "missing": "bool", "cur": "bytes"})
contract(prop=["C16"], file="<abstract>", func="ReftableAbs.read_loose_ref@abs", trusted=True, params={"self": "obj:ReftableAbs", "name": "opaque"},
         returns="bytes", raises={"KeyError": ["self.missing"]}, ensures=["not self.missing", "len(result) == len(self.cur) and all(result[k] == self.cur[k] for k in range(0, len(result)))"])
contract(prop=["C16"], file="<abstract>", func="ReftableAbs._write_ref_update@ghost", trusted=True,
         params={"self": "obj:ReftableAbs", "name": "opaque", "value_type": "int", "value": "bytes"}, returns="None", raises={ANY: None},
         modifies=["self.written", "self.w_type", "self.w_value"],
         ensures=["self.written", "self.w_type == value_type", "len(self.w_value) == len(value) and all(self.w_value[k] == value[k] for k in range(0, len(value)))"])
_RT_CC = {"ReftableAbs.read_loose_ref": ("<abstract>", "ReftableAbs.read_loose_ref@abs"), "ReftableAbs._write_ref_update": ("<abstract>", "ReftableAbs._write_ref_update@ghost")}
_SAME = "(len(old_ref) == len(self.cur) and all(old_ref[k] == self.cur[k] for k in range(0, len(old_ref))))"
_ZERO = "(len(old_ref) == 40 and all(old_ref[k] == 48 for k in range(0, 40)))"
_COND = f"(old_ref is None or ({_ZERO} if self.missing else {_SAME}))"
contract(
    prop=["C16"], file=RT, func="ReftableRefsContainer.set_if_equals",
    params={"self": "obj:ReftableAbs", "name": "bytes", "old_ref": "bytes|None", "new_ref": "bytes", "committer": "opaque", "timestamp": "opaque", "timezone": "opaque", "message": "opaque"},
    returns="bool", raises={ANY: None}, requires=["not self.written"], modifies=["self.written", "self.w_type", "self.w_value"],
    ensures=[f"result == {_COND}", "self.written == result",
             "(not result) or (self.w_type == 1 and len(self.w_value) == len(new_ref) and all(self.w_value[k] == new_ref[k] for k in range(0, len(new_ref))))"],
    options={"callee_contracts": _RT_CC},
)
contract(
    prop=["C16"], file=RT, func="ReftableRefsContainer.remove_if_equals",
    params={"self": "obj:ReftableAbs", "name": "bytes", "old_ref": "bytes|None", "committer": "opaque", "timestamp": "opaque", "timezone": "opaque", "message": "opaque"},
    returns="bool", raises={ANY: None}, requires=["not self.written"], modifies=["self.written", "self.w_type", "self.w_value"],
    ensures=[f"result == {_COND}", "self.written == result", "(not result) or self.w_type == 0"],
    options={"callee_contracts": _RT_CC},
)


# ---- import_refs: what is deleted afterwards is exactly "pruned names that were not imported" plus "names imported as None" ---
# loop invariant over the import loop: no name that was imported with a value is left in the deletion set, every name imported
# as None is in it (names are the keys of `other`, iterated through .items(): untracked pairs, ghost projections)
class_spec(file="<abstract>", cls="RefsAbs16", fields={})
contract(prop=["C16"], file="<abstract>", func="RefsAbs16.subkeys@abs", trusted=True, params={"self": "obj:RefsAbs16", "base": "opaque"}, returns="opaque", raises={ANY: None})
contract(prop=["C16"], file="<abstract>", func="RefsAbs16.set_if_equals@abs", trusted=True,
         params={"self": "obj:RefsAbs16", "name": "opaque", "old_ref": "opaque", "new_ref": "opaque", "message": "opaque"}, returns="bool", raises={ANY: None})
contract(prop=["C16"], file="<abstract>", func="RefsAbs16.remove_if_equals@abs", trusted=True,
         params={"self": "obj:RefsAbs16", "name": "opaque", "old_ref": "opaque", "message": "opaque"}, returns="bool", raises={ANY: None})
_NM = "field(elem(_seq1, j), 0, 2)"
_VL = "field(elem(_seq1, j), 1, 2)"
contract(
    prop=["C16"], file=R, func="RefsContainer.import_refs",
    params={"self": "obj:RefsAbs16", "base": "bytes", "other": "opaque", "committer": "opaque", "timestamp": "opaque", "timezone": "opaque", "message": "opaque", "prune": "bool"},
    returns="None", raises={ANY: None},
    loops={1: dict(invariant=[f"all(({_NM} in to_delete) == ({_VL} is None) or any(jj > j and field(elem(_seq1, jj), 0, 2) is {_NM} for jj in range(0, _it1)) for j in range(0, _it1))"],
                   types={"to_delete": "set[opaque]"}),
           2: dict(invariant=["True"], types={"to_delete": "set[opaque]"})},
    options={"callee_contracts": {"RefsAbs16.subkeys": ("<abstract>", "RefsAbs16.subkeys@abs"), "RefsAbs16.set_if_equals": ("<abstract>", "RefsAbs16.set_if_equals@abs"),
                                  "RefsAbs16.remove_if_equals": ("<abstract>", "RefsAbs16.remove_if_equals@abs")}},
)


# ---- get_symrefs lists EVERY symbolic ref: whatever name allkeys() yields whose stored value parses as 'ref: <target>' is a key
# of the result (a loose symbolic ref that shadows a packed entry of the same name included)
contract(prop=["C16"], file="<abstract>", func="RefsAbs16.allkeys@abs", trusted=True, params={"self": "obj:RefsAbs16"}, returns="opaque", raises={ANY: None})
contract(prop=["C16"], file="<abstract>", func="RefsAbs16.read_ref@abs", trusted=True, params={"self": "obj:RefsAbs16", "refname": "opaque"}, returns="opaque", raises={"KeyError": None, "OSError": None},
         ensures=["result is uf('stored_text', refname)"], note="ghost view of a read: THE stored text of that name")
contract(prop=["C16"], file="<abstract>", func="parse_symref_value@abs", trusted=True, params={"contents": "opaque"}, returns="opaque",
         raises={"ValueError": ["not upred('symref_text', contents)"]}, ensures=["upred('symref_text', contents)"],
         note="parse_symref_value raises ValueError exactly for texts that are not 'ref: <target>'")
contract(prop=["C16"], file="<abstract>", func="Ref@id", trusted=True, params={"x": "opaque"}, returns="opaque", raises={}, ensures=["result is x"], note="typing.NewType")
contract(
    prop=["C16"], file=R, func="RefsContainer.get_symrefs",
    params={"self": "obj:RefsAbs16"}, returns="dict[opaque,opaque]", raises={ANY: None},
    loops={1: dict(invariant=["all((not upred('symref_text', uf('stored_text', elem(_seq1, j)))) or dict_has(ret, elem(_seq1, j)) for j in range(0, _it1))"],
                   types={"ret": "dict[opaque,opaque]"})},
    # (the claim about the result is the invariant at loop exit; `return ret` follows the loop directly)
    options={"callee_contracts": {"RefsAbs16.allkeys": ("<abstract>", "RefsAbs16.allkeys@abs"), "RefsAbs16.read_ref": ("<abstract>", "RefsAbs16.read_ref@abs"),
                                  "parse_symref_value": ("<abstract>", "parse_symref_value@abs"), "Ref": ("<abstract>", "Ref@id")}},
)


# ---- NamespacedRefsContainer: the name translation of the view (every operation of the view goes through these two) ----
from pyvc.contract import class_spec  # noqa: E402
F = "dulwich/refs.py"
class_spec(file="<abstract>", cls="NsInnerRefs", fields={"stored": "bytes?"})      # the wrapped container (see read_loose_ref below)
class_spec(file=F, cls="NamespacedRefsContainer", fields={"_namespace_prefix": "bytes", "_refs": "obj:NsInnerRefs"})
_NS_SPECIAL = "(name == b'HEAD' or not (len(name) >= 5 and name[:5] == b'refs/'))"
contract(
    prop=["C16"], file=F, func="NamespacedRefsContainer._apply_namespace",
    params={"self": "obj:NamespacedRefsContainer", "name": "bytes"}, returns="bytes", raises_any=False,
    ensures=[f"not {_NS_SPECIAL} or result == name",
             f"{_NS_SPECIAL} or result == self._namespace_prefix + name"],
)
contract(
    prop=["C16"], file=F, func="NamespacedRefsContainer._strip_namespace",
    params={"self": "obj:NamespacedRefsContainer", "name": "bytes"}, returns="bytes?", raises_any=False,
    ensures=[f"not {_NS_SPECIAL} or result == name",
             f"{_NS_SPECIAL} or result is None or (len(name) >= len(self._namespace_prefix) and name[:len(self._namespace_prefix)] == self._namespace_prefix and result == name[len(self._namespace_prefix):])",
             f"{_NS_SPECIAL} or result is not None or not (len(name) >= len(self._namespace_prefix) and name[:len(self._namespace_prefix)] == self._namespace_prefix)"],
)
lemma(
    prop=["C16"], name="namespace_strip_undoes_apply", file=F,
    forall={"c": "obj:NamespacedRefsContainer", "name": "bytes"},
    assume=["len(c._namespace_prefix) >= 16 and c._namespace_prefix[:16] == b'refs/namespaces/'"],
    steps=[("full", (F, "NamespacedRefsContainer._apply_namespace"), ["c", "name"]),
           ("back", (F, "NamespacedRefsContainer._strip_namespace"), ["c", "full"])],
    show=["back is not None", "back == name"],
    note="a name written through the view is found again under the same name: stripping undoes prefixing for every name and every namespace",
)

# read_loose_ref of the view: the stored target of a symbolic ref is presented relative to the namespace, everything else
# is handed through unchanged.  The underlying container is abstract: ghost field `stored` = what it returns (any bytes or None).
contract(prop=["C16"], file="<abstract>", func="NsInnerRefs.read_loose_ref@abs", trusted=True,
         params={"self": "obj:NsInnerRefs", "name": "bytes"}, returns="bytes?", raises={ANY: None},
         ensures=["(result is None) == (self.stored is None)", "result is None or result == self.stored"],
         note="the wrapped container: returns the universally quantified ghost value `stored`")
contract(prop=["C16"], file="<abstract>", func="Ref@idb", trusted=True, params={"x": "bytes"}, returns="bytes", raises={}, ensures=["result == x"],
         note="typing.NewType: the identity at run time")
_PFX = "self._namespace_prefix"
_ST = "self._refs.stored"
_INNS = f"(len({_ST}) >= 5 + len({_PFX}) and {_ST}[:5] == b'ref: ' and {_ST}[5:5 + len({_PFX})] == {_PFX})"
contract(
    prop=["C16"], file=F, func="NamespacedRefsContainer.read_loose_ref",
    params={"self": "obj:NamespacedRefsContainer", "name": "bytes"}, returns="bytes?", raises={ANY: None},
    requires=[f"len({_PFX}) >= 16 and {_PFX}[:16] == b'refs/namespaces/'"],
    ensures=[
        f"(result is None) == ({_ST} is None)",
        # a symbolic target inside the namespace comes back with the prefix removed exactly once, so that following it
        # through the view (which prefixes again) reaches the stored target; everything else is handed through
        f"{_ST} is None or not {_INNS} or result == b'ref: ' + {_ST}[5 + len({_PFX}):]",
        f"{_ST} is None or {_INNS} or result == {_ST}",
    ],
    options={"callee_contracts": {"Ref": ("<abstract>", "Ref@idb"), "NsInnerRefs.read_loose_ref": ("<abstract>", "NsInnerRefs.read_loose_ref@abs")}},
)

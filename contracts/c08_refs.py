"""C08 — ref updates are atomic compare-and-swap; no lost commits (dulwich/refs.py, worktree.py, repo.py).
DESIGN.md section 5.2 / 7 C08.  Obligations (M2): (i) every mutation of a loose ref file is performed
while this actor holds the lock of exactly that path; (ii) the value compared in a conditional update is
read while that lock is held.  (M3): the value a commit's compare-and-swap expects is its first parent."""
from pyvc.contract import class_spec, contract
from contracts.c07_file import ANY, F as FILE_PY

R = "dulwich/refs.py"

class_spec(file=R, cls="DiskRefsContainer", fields={})

contract(
    prop=["C08", "C09"], file="<abstract>", func="DiskRefsContainer.refpath", trusted=True,
    params={"self": "obj:DiskRefsContainer", "name": "opaque"}, returns="opaque",
    raises={ANY: None},
    ensures=["result is uf('refpath', name)"],
    note="refpath() is a pure function of the ref name (path of its loose file)",
)
contract(
    prop=["C08"], file="<abstract>", func="DiskRefsContainer.read_loose_ref", trusted=True,
    params={"self": "obj:DiskRefsContainer", "name": "opaque"}, returns="opaque",
    # (ii): inside a mutator the loose value is (re-)read under the lock of that very ref
    requires=["holds_lock(uf('refpath', name))"],
    raises={ANY: None},
    # ghost marker on what a read performed NOW returns (used by locked_ref.get: the compared value is never one remembered
    # from before the lock was taken)
    ensures=["result is None or upred('read_under_lock', result)"],
    note="call-site obligation only; the body (a plain file read) is not verified",
)
contract(
    prop=["C08", "C09"], file="<stdlib>", func="os.remove@ref", trusted=True,
    params={"path": "opaque"}, returns="None",
    # (i): a loose ref file is removed only while holding the lock on exactly that path
    requires=["holds_lock(path)"],
    raises={ANY: None},
)
PRIMS = {"os.remove": "os.remove@ref", "os.unlink": "os.remove@ref"}
# the ref mutators are already under contract for C07 (contracts/c07_file.py: WRITERS); the same
# verification run also generates the C08 call-site obligations once `self` is a tracked object and
# the unlink primitive carries its ghost precondition
from pyvc.contract import REGISTRY
for _func in ("DiskRefsContainer.set_if_equals", "DiskRefsContainer.add_if_new", "DiskRefsContainer.remove_if_equals",
              "DiskRefsContainer.set_symbolic_ref", "DiskRefsContainer._add_packed_refs", "DiskRefsContainer._prune_loose_ref",
              "DiskRefsContainer._remove_packed_ref"):
    _c = REGISTRY[(R, _func)]
    _c.prop = sorted(set(_c.prop) | {"C08"})
    _c.params = dict(_c.params, self="obj:DiskRefsContainer")
    _c.options = dict(_c.options, primitives=PRIMS)

# ---- M3: the compare-and-swap that installs a commit expects exactly the commit's first parent ----------
class_spec(file="dulwich/objects.py", cls="Commit", fields={}, constructible=True)
M3 = "old_head is c.parents[0]"
contract(
    prop=["C08"], file="dulwich/worktree.py", func="WorkTree.commit", returns="opaque", raises={ANY: None}, verify_paths_limit=400000,
    options={"default_param": "opaque", "faults": "caught", "focus": ["old_head", "c", "ref", "ok", "merge_heads"],
             "asserts": [("cas-expects-first-parent", "ok = self._repo.refs.set_if_equals(", [M3])]},
    cover=False,
)
contract(
    prop=["C08"], file="dulwich/repo.py", func="MemoryRepo.do_commit", returns="opaque", raises={ANY: None},
    options={"default_param": "opaque", "faults": "caught", "focus": ["old_head", "c", "ref", "ok", "merge_heads"],
             "asserts": [("cas-expects-first-parent", "ok = self.refs.set_if_equals(", [M3])]},
    cover=False,
)

# ---- locked_ref: publishes only a value that was actually staged ------------------------------------------
class_spec(file=R, cls="locked_ref", fields={
    "_refs_container": "obj:DiskRefsContainer", "_refname": "opaque", "_file": "obj:_GitFile", "_realname": "opaque",
    "_deleted": "bool", "_modified": "bool"})
LOCKED = ["self._file._closed == (not self._file.owns)", "self._file.owns", "not self._file.committed",
          "self._file._filename is uf('refpath', self._realname)"]
LOPTS = {"primitives": PRIMS, "faults": "base"}
contract(
    prop=["C08", "C07"], file=R, func="locked_ref.__exit__",
    params={"self": "obj:locked_ref", "exc_type": "opaque?", "exc_value": "opaque", "traceback": "opaque"}, returns="None",
    requires=LOCKED,
    modifies=["self._file._closed", "self._file.owns", "self._file.committed", "self._file.stuck",
              "self._file._file.flushed", "self._file._file.synced"],
    raises={ANY: ["not self._file.owns or self._file.stuck", "not self._file.committed"]},
    ensures=["not self._file.owns",
             # the ref is replaced only by a value that was staged, and never on failure or after delete()
             "(not self._file.committed) or (self._modified and not self._deleted and exc_type is None)"],
    options=LOPTS,
)
contract(
    prop=["C08"], file=R, func="locked_ref.set",
    params={"self": "obj:locked_ref", "new_ref": "opaque"}, returns="None",
    requires=LOCKED, modifies=["self._deleted", "self._modified"], raises={ANY: LOCKED},
    ensures=LOCKED + ["self._modified", "not self._deleted"], options=LOPTS,
)
contract(
    prop=["C08"], file=R, func="locked_ref.delete",
    params={"self": "obj:locked_ref"}, returns="None",
    requires=LOCKED, modifies=["self._deleted"], raises={ANY: LOCKED},
    ensures=LOCKED + ["self._deleted"], options=LOPTS,
)
contract(
    prop=["C08"], file=R, func="locked_ref.get",
    params={"self": "obj:locked_ref"}, returns="opaque",
    requires=LOCKED, raises={ANY: LOCKED},
    # the value handed to ensure_equals() was read after the lock was taken: from the loose file (read_loose_ref) or from the
    # packed table consulted now (the .get() on it; assumed marker by method name), never a value kept from before
    ensures=LOCKED + ["result is None or upred('read_under_lock', result)"],
    options=dict(LOPTS, opaque_posts={"get": ["result is None or upred('read_under_lock', result)"]}),
)

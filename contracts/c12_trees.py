"""C12 — tree building / diffing (dulwich/diff_tree.py, dulwich/index.py).  DESIGN.md section 7 C12.
Under contract: _merge_entries, the two-pointer merge every tree diff is built on.  For ALL pairs of entry lists that
are strictly sorted by path (what Tree.iteritems(name_order=True) yields; assumed contract of _tree_entries) the result
 (1) pairs an entry of the first list with an entry of the second only when their paths are equal, never (None, None);
 (2) contains every entry of either list (completeness) and nothing else (soundness);
 (3) is strictly sorted by path - so every path is mentioned at most once.
The canonical order of stored trees is C01's lemma tree_order_is_gits (prop list there includes C12).  The recursive
walk (walk_trees), tree_changes' classification, commit_tree / commit_tree_changes and rename detection are bounded
stand-ins (bounded/c12_trees.py)."""
from pyvc.contract import contract

D = "dulwich/diff_tree.py"
ANY = "BaseException"

SORTED = "all({e}[k].path < {e}[k + 1].path for k in range(0, len({e}) - 1))"
contract(
    prop=["C12"], file="<abstract>", func="_tree_entries@spec", trusted=True,
    params={"path": "bytes", "tree": "opaque"}, returns="list[opaque]", raises={ANY: None},
    ensures=[SORTED.format(e="result"), "all(result[k] is not None for k in range(0, len(result)))"],
    note="ASSUMED: Tree.iteritems(name_order=True) yields the entries strictly sorted by name, in_path() prepends the same "
         "prefix to all of them (bounded stand-in c12_trees; sorted_tree_items is C01/C15's subject)",
)

A = "field(result[r], 0, 2)"
B = "field(result[r], 1, 2)"


def key(r):
    a, b = A.replace("[r]", f"[{r}]"), B.replace("[r]", f"[{r}]")
    return f"({a}.path if {a} is not None else {b}.path)"


def inv(i1, i2):
    return [
        f"0 <= {i1} and {i1} <= len(entries1) and 0 <= {i2} and {i2} <= len(entries2) and len1 == len(entries1) and len2 == len(entries2)",
        SORTED.format(e="entries1"), SORTED.format(e="entries2"),
        "all(entries1[k] is not None for k in range(0, len(entries1)))", "all(entries2[k] is not None for k in range(0, len(entries2)))",
        # (1)+(2 soundness)
        f"all(({A} is not None or {B} is not None)"
        f" and ({A} is None or any({A} is entries1[i] for i in range(0, {i1})))"
        f" and ({B} is None or any({B} is entries2[j] for j in range(0, {i2})))"
        f" and ({A} is None or {B} is None or {A}.path == {B}.path)"
        " for r in range(0, len(result)))",
        # (2 completeness) of the consumed prefixes; w1/w2 are ghost witness functions: entry number i sits at result[w(i)]
        f"all(0 <= w1(i) and w1(i) < len(result) and field(result[w1(i)], 0, 2) is entries1[i] for i in range(0, {i1}))",
        f"all(0 <= w2(j) and w2(j) < len(result) and field(result[w2(j)], 1, 2) is entries2[j] for j in range(0, {i2}))",
        # (3) strictly sorted, and below everything not yet consumed
        f"all({key('r')} < {key('r + 1')} for r in range(0, len(result) - 1))",
        f"len(result) == 0 or {i1} >= len(entries1) or {key('len(result) - 1')} < entries1[{i1}].path",
        f"len(result) == 0 or {i2} >= len(entries2) or {key('len(result) - 1')} < entries2[{i2}].path",
    ]


FINAL = inv("len(entries1)", "len(entries2)")[5:9]
# the appended pair is always the last one: the witness of a newly consumed entry is the new last index
W1 = ("i", "0", "old_w1(i) if i < {n} else len(result) - 1")
W2 = ("j", "0", "old_w2(j) if j < {n} else len(result) - 1")
contract(
    prop=["C12"], file=D, func="_merge_entries",
    params={"path": "bytes", "tree1": "opaque", "tree2": "opaque"}, returns="list[opaque]", raises={ANY: None},
    loops={
        # (the update is evaluated after the body: an entry is newly consumed iff its index is i1 - 1 / i2 - 1 there and
        #  was not below the old bound; `old_w(i) if <already witnessed> else last`: already witnessed <=> result[old_w(i)] is it)
        1: dict(invariant=inv("i1", "i2"), types={"result": "list[opaque]"},
                witness={"w1": ("i", "0", "len(result) - 1 if (i == i1 - 1 and field(result[len(result) - 1], 0, 2) is entries1[i]) else old_w1(i)"),
                         "w2": ("j", "0", "len(result) - 1 if (j == i2 - 1 and field(result[len(result) - 1], 1, 2) is entries2[j]) else old_w2(j)")}),
        2: dict(invariant=["i1 >= len1 or i2 >= len2"] + inv("(i1 + _it2)", "i2"), types={"result": "list[opaque]"},
                witness={"w1": ("i", "old_w1(i)", "len(result) - 1 if i == i1 + _it2 - 1 else old_w1(i)"), "w2": ("j", "old_w2(j)", "old_w2(j)")}),
        3: dict(invariant=["i2 <= len2"] + inv("len(entries1)", "(i2 + _it3)"), types={"result": "list[opaque]"},
                witness={"w1": ("i", "old_w1(i)", "old_w1(i)"), "w2": ("j", "old_w2(j)", "len(result) - 1 if j == i2 + _it3 - 1 else old_w2(j)")}),
    },
    options={"callee_contracts": {"_tree_entries": ("<abstract>", "_tree_entries@spec")}, "total_order": True,
             "asserts": [("merge-spec", "return result", FINAL)]},
    note="assumes `<` on the entry paths is a strict total order whose equality is `==` (they are byte strings)",
)

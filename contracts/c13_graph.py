"""C13 — merge-base / ancestry (dulwich/graph.py).  DESIGN.md section 7 C13.
The priority-queue walk _find_lcas itself is beyond the engine (whole-algorithm invariant over a heap and a flag map):
its exactness is a bounded stand-in (bounded/c13_graphs.py: all DAGs <= 4/5 commits x all clock assignments).
Under contract here, modularly against the ASSUMED specification of _find_lcas (maximal common ancestors):
can_fast_forward is the ancestor test, for every graph and every clock; plus the syntactic guard that no caller
hands a commit-time cut-off to _find_lcas (no cut-off by time is sound when clocks may run backwards)."""
from pyvc.contract import class_spec, contract

G = "dulwich/graph.py"
ANY = "BaseException"

class_spec(file="<abstract>", cls="ParentsProviderAbs", fields={"shallows": "None"})
class_spec(file="<abstract>", cls="GraphRepoAbs", fields={})
contract(prop=["C13"], file="<abstract>", func="GraphRepoAbs.parents_provider", trusted=True,
         params={"self": "obj:GraphRepoAbs"}, returns="obj:ParentsProviderAbs", raises={ANY: None})
contract(
    prop=["C13"], file="<abstract>", func="_find_lcas@spec", trusted=True,
    params={"lookup_parents": "opaque", "c1": "opaque", "c2s": "list[opaque]", "lookup_stamp": "opaque", "min_stamp": "opaque", "shallows": "opaque"},
    returns="list[opaque]", raises={ANY: None},
    # consequence of "the result is the set of maximal common ancestors of c1 and c2" for a single c2: c1 is a common
    # ancestor iff it is an ancestor of c2, and then it is the only maximal one
    # (no time cut-off: enforced syntactically by guard_no_time_cutoff, the parameter is not bound at call sites that omit it)
    ensures=["len(c2s) != 1 or ((len(result) == 1 and result[0] is c1) == upred('is_ancestor', c1, c2s[0]))"],
    note="ASSUMED (bounded stand-in c13_graphs): _find_lcas returns exactly the maximal common ancestors; requires: no time cut-off",
)
contract(
    prop=["C13"], file=G, func="can_fast_forward",
    params={"repo": "obj:GraphRepoAbs", "c1": "opaque", "c2": "opaque"}, returns="bool", raises={ANY: None},
    requires=["upred('is_ancestor', c1, c1)"],
    ensures=["result == upred('is_ancestor', c1, c2) or (c1 == c2 and result)"],
    options={"callee_contracts": {"_find_lcas": ("<abstract>", "_find_lcas@spec")}, "default_param": "opaque"},
)


def guard_no_time_cutoff(root):
    """no call of _find_lcas passes min_stamp (a commit-time cut-off is unsound under clock skew)"""
    import ast, os
    problems = []
    tree = ast.parse(open(os.path.join(root, G), "rb").read())
    for n in ast.walk(tree):
        if isinstance(n, ast.Call) and isinstance(n.func, ast.Name) and n.func.id == "_find_lcas":
            if any(k.arg == "min_stamp" for k in n.keywords) or len(n.args) > 4:
                problems.append(f"time-cutoff: {G}:{n.lineno} passes a commit-time cut-off to _find_lcas")
    return problems


GUARDS = {"C13": [guard_no_time_cutoff]}

# ---- independent(): modular against the assumed specification of find_merge_base for two commits -------------------
ANC = "upred('is_ancestor', commit_ids[{a}], commit_ids[{b}])"
contract(
    prop=["C13"], file="<abstract>", func="find_merge_base@spec", trusted=True,
    params={"repo": "obj:GraphRepoAbs", "commit_ids": "list[opaque]"}, returns="list[opaque]", raises={ANY: None},
    ensures=["len(commit_ids) != 2 or ((len(result) == 1 and result[0] is commit_ids[0]) == upred('is_ancestor', commit_ids[0], commit_ids[1]))"],
    note="ASSUMED (bounded stand-in c13_graphs): find_merge_base([a, b]) == [a] exactly when a is an ancestor of b",
)
DEP = "any(j != {i} and " + ANC.format(a="{i}", b="j") + " for j in range(0, len(commit_ids)))"
contract(
    prop=["C13"], file=G, func="independent",
    params={"repo": "obj:GraphRepoAbs", "commit_ids": "list[opaque]"}, returns="list[opaque]", raises={ANY: None},
    ensures=[
        # soundness: everything returned is one of the given commits and is not an ancestor of another given commit
        "all(any(result[r] is commit_ids[i] and not " + DEP.format(i="i") + " for i in range(0, len(commit_ids))) for r in range(0, len(result)))",
        # completeness: every given commit that is not an ancestor of another one is returned
        "len(commit_ids) < 2 or all(" + DEP.format(i="i") + " or any(result[r] is commit_ids[i] for r in range(0, len(result))) for i in range(0, len(commit_ids)))",
    ],
    loops={
        1: dict(invariant=[
            "all(any(independent_commits[r] is commit_ids[i] and i < _it1 and not " + DEP.format(i="i") + " for i in range(0, len(commit_ids))) for r in range(0, len(independent_commits)))",
            "all(" + DEP.format(i="i") + " or any(independent_commits[r] is commit_ids[i] for r in range(0, len(independent_commits))) for i in range(0, _it1))",
        ], types={"independent_commits": "list[opaque]"}),
        2: dict(invariant=[
            "is_independent == (not any(j != i and " + ANC.format(a="i", b="j") + " for j in range(0, _it2)))",
            "commit_id is commit_ids[i]",
        ], keep=["independent_commits"]),
    },
    options={"callee_contracts": {"find_merge_base": ("<abstract>", "find_merge_base@spec")}},
)

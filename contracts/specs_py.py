"""Executable spec functions in straight-line Python (see pyvc/specs.py: register_pyspecs).

Allowed: assignments of expressions, conditional expressions, all()/any() over range(), one return.
Indexing is total in the symbolic reading; concretely every index is guarded by its condition.
"""


def copy_op_fields(b, i):
    """Decode the delta copy instruction whose command byte is b[i] (git patch-delta.c):
    returns (offset, size, index after the instruction)."""
    cmd = b[i]
    p0 = i + 1
    o0 = b[p0] if cmd & 0x01 else 0
    p1 = p0 + (1 if cmd & 0x01 else 0)
    o1 = b[p1] if cmd & 0x02 else 0
    p2 = p1 + (1 if cmd & 0x02 else 0)
    o2 = b[p2] if cmd & 0x04 else 0
    p3 = p2 + (1 if cmd & 0x04 else 0)
    o3 = b[p3] if cmd & 0x08 else 0
    p4 = p3 + (1 if cmd & 0x08 else 0)
    s0 = b[p4] if cmd & 0x10 else 0
    p5 = p4 + (1 if cmd & 0x10 else 0)
    s1 = b[p5] if cmd & 0x20 else 0
    p6 = p5 + (1 if cmd & 0x20 else 0)
    s2 = b[p6] if cmd & 0x40 else 0
    p7 = p6 + (1 if cmd & 0x40 else 0)
    size = s0 + 256 * s1 + 65536 * s2
    return (o0 + 256 * o1 + 65536 * o2 + 16777216 * o3, 0x10000 if size == 0 else size, p7)

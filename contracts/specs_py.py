"""Executable spec functions in straight-line Python (see pyvc/specs.py: register_pyspecs).

Allowed: assignments of expressions, conditional expressions, all()/any() over range(), one return.
Indexing is total in the symbolic reading; concretely every index is guarded by its condition.
"""


def copy_op_fields(b, i):
    """Decode the delta copy instruction whose command byte is b[i] (git patch-delta.c):
    returns (offset, size, index after the instruction)."""
    cmd = b[i]
    p0 = i + 1
    o0 = b[p0] if cmd & 0x01 else 0
    p1 = p0 + (1 if cmd & 0x01 else 0)
    o1 = b[p1] if cmd & 0x02 else 0
    p2 = p1 + (1 if cmd & 0x02 else 0)
    o2 = b[p2] if cmd & 0x04 else 0
    p3 = p2 + (1 if cmd & 0x04 else 0)
    o3 = b[p3] if cmd & 0x08 else 0
    p4 = p3 + (1 if cmd & 0x08 else 0)
    s0 = b[p4] if cmd & 0x10 else 0
    p5 = p4 + (1 if cmd & 0x10 else 0)
    s1 = b[p5] if cmd & 0x20 else 0
    p6 = p5 + (1 if cmd & 0x20 else 0)
    s2 = b[p6] if cmd & 0x40 else 0
    p7 = p6 + (1 if cmd & 0x40 else 0)
    size = s0 + 256 * s1 + 65536 * s2
    return (o0 + 256 * o1 + 65536 * o2 + 16777216 * o3, 0x10000 if size == 0 else size, p7)


def is_hex1(c):
    """c is an ASCII hexadecimal digit."""
    return (48 <= c and c <= 57) or (65 <= c and c <= 70) or (97 <= c and c <= 102)


def is_lhex1(c):
    """c is a lower-case ASCII hexadecimal digit (what git emits in pkt-line lengths)."""
    return (48 <= c and c <= 57) or (97 <= c and c <= 102)


def hexval1(c):
    """value of the hexadecimal digit c."""
    return c - 48 if c <= 57 else (c - 55 if c <= 70 else c - 87)


def is_hex4(s, i):
    """s[i:i+4] are four hexadecimal digits."""
    return is_hex1(s[i]) and is_hex1(s[i + 1]) and is_hex1(s[i + 2]) and is_hex1(s[i + 3])


def is_lhex4(s, i):
    return is_lhex1(s[i]) and is_lhex1(s[i + 1]) and is_lhex1(s[i + 2]) and is_lhex1(s[i + 3])


def hex4val(s, i):
    """value of the four hexadecimal digits s[i:i+4] (git's packet_length())."""
    return 4096 * hexval1(s[i]) + 256 * hexval1(s[i + 1]) + 16 * hexval1(s[i + 2]) + hexval1(s[i + 3])


def ref_char_ok(c):
    """git check-ref-format: no ASCII control character, DEL, space, ~ ^ : ? * [ (refname_disposition)."""
    return c >= 32 and c != 127 and c != 32 and c != 126 and c != 94 and c != 58 and c != 63 and c != 42 and c != 91


def is_dotlock_before(s, e):
    """s[e-5:e] == b'.lock'"""
    return e >= 5 and s[e - 5] == 46 and s[e - 4] == 108 and s[e - 3] == 111 and s[e - 2] == 99 and s[e - 1] == 107


def git_check_refname_format(s):
    """git's check_refname_format(refname, 0) (refs.c), for byte strings without NUL:
    at least two components; no empty component (no leading/trailing '/', no '//'); no component starts with '.'
    or ends with '.lock'; no '..', no '@{', no backslash, no forbidden character; does not end with '.';
    is not '@'."""
    n = len(s)
    has_slash = any(s[k] == 47 for k in range(0, n))
    chars_ok = all(ref_char_ok(s[k]) and s[k] != 92 for k in range(0, n))
    no_dotdot = all(not (s[k] == 46 and s[k + 1] == 46) for k in range(0, n - 1))
    no_at_brace = all(not (s[k] == 64 and s[k + 1] == 123) for k in range(0, n - 1))
    starts_ok = all(not (k == 0 or s[k - 1] == 47) or (k < n and s[k] != 47 and s[k] != 46) for k in range(0, n + 1))
    ends_ok = all(not (k == n or s[k] == 47) or not is_dotlock_before(s, k) for k in range(0, n + 1))
    return n > 0 and has_slash and chars_ok and no_dotdot and no_at_brace and starts_ok and ends_ok and s[n - 1] != 46


def lower1(c):
    """ASCII lower-casing of one byte (bytes.lower())."""
    return c + 32 if (65 <= c and c <= 90) else c


def comp_end_is(s, e):
    """position e ends a component of s: end of string or a '/'."""
    return e == len(s) or s[e] == 47


def bad_component_at(s, k):
    """the '/'-separated component of s starting at k is one git refuses to check out on any platform
    (verify_path): empty, '.', '..' or '.git' in any ASCII case."""
    n = len(s)
    empty = comp_end_is(s, k)
    dot = k < n and s[k] == 46 and comp_end_is(s, k + 1)
    dotdot = k + 1 < n and s[k] == 46 and s[k + 1] == 46 and comp_end_is(s, k + 2)
    dotgit = (k + 3 < n and s[k] == 46 and lower1(s[k + 1]) == 103 and lower1(s[k + 2]) == 105 and lower1(s[k + 3]) == 116
              and comp_end_is(s, k + 4))
    return empty or dot or dotdot or dotgit


def bad_element(e):
    """a single path element (no '/') that git refuses: empty, '.', '..', '.git' in any ASCII case."""
    n = len(e)
    return (n == 0 or (n == 1 and e[0] == 46) or (n == 2 and e[0] == 46 and e[1] == 46)
            or (n == 4 and e[0] == 46 and lower1(e[1]) == 103 and lower1(e[2]) == 105 and lower1(e[3]) == 116))


def path_is_safe(s):
    """every '/'-separated component of s is acceptable (no component is empty, '.', '..' or '.git')."""
    return all(not (k == 0 or s[k - 1] == 47) or not bad_component_at(s, k) for k in range(0, len(s) + 1))


def ntfs_head_len(s):
    """length of the leading '.git' / 'git~1' spelling of s (any ASCII case), or 0 if there is none."""
    n = len(s)
    dotgit = n >= 4 and s[0] == 46 and lower1(s[1]) == 103 and lower1(s[2]) == 105 and lower1(s[3]) == 116
    short = (n >= 5 and lower1(s[0]) == 103 and lower1(s[1]) == 105 and lower1(s[2]) == 116 and s[3] == 126 and s[4] == 49)
    return 4 if dotgit else (5 if short else 0)


def ntfs_dotgit(s):
    """git's is_ntfs_dotgit for one path segment: a '.git' / 'git~1' spelling followed only by dots and spaces
    up to the end of the segment or up to a ':' (alternate data stream)."""
    h = ntfs_head_len(s)
    n = len(s)
    return h > 0 and any((e == n or s[e] == 58) and all(s[k] == 46 or s[k] == 32 for k in range(h, e)) for e in range(h, n + 1))


def is_ws1(c):
    """bytes.strip() whitespace: space, \\t, \\n, \\r, VT, FF."""
    return c == 32 or (9 <= c and c <= 13)


def needs_quotes(v):
    """the config writer must quote v: leading or trailing whitespace, a comment character (# or ;), or CR/VT/FF anywhere."""
    n = len(v)
    return (n > 0 and (is_ws1(v[0]) or is_ws1(v[n - 1]))) or any(v[k] == 35 or v[k] == 59 or v[k] == 13 or v[k] == 11 or v[k] == 12 for k in range(0, n))


def is_dir_mode(m):
    """stat.S_ISDIR(m)"""
    return (m // 4096) % 16 == 4


def base_name_lt(a, adir, b, bdir):
    """git's base_name_compare(a, mode_a, b, mode_b) < 0 (tree.c): memcmp on the common length, then the next
    character, where a directory's name is followed by '/' and any other name by NUL."""
    la = len(a)
    lb = len(b)
    m = la if la < lb else lb
    differs = any(a[k] < b[k] and all(a[j] == b[j] for j in range(0, k)) for k in range(0, m))
    common = all(a[j] == b[j] for j in range(0, m))
    c1 = a[m] if m < la else (47 if adir else 0)
    c2 = b[m] if m < lb else (47 if bdir else 0)
    return differs or (common and c1 < c2)


def file_type(m):
    """stat.S_IFMT(m) >> 12"""
    return (m // 4096) % 16


def clean_mode(m):
    """dulwich.index.cleanup_mode: the mode git stores for a work tree object with st_mode m"""
    t = file_type(m)
    return 40960 if t == 10 else (16384 if t == 4 else (57344 if t == 14 else (33261 if (m // 64) % 2 == 1 else 33188)))


def cfg_special(c):
    """bytes that dulwich.config._escape_value replaces by a two-byte escape"""
    return c == 92 or c == 10 or c == 9 or c == 34


def cfg_code(c):
    """second byte of the escape of a special byte: \\\\ \\n \\t \\\" """
    return 92 if c == 92 else (110 if c == 10 else (116 if c == 9 else 34))

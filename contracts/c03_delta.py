"""C03 — delta codec (dulwich/pack.py).  See DESIGN.md section 7 / A.1."""
from pyvc.contract import contract, lemma

P = "dulwich/pack.py"

contract(
    prop=["C03", "C02", "C15"], file=P, func="_delta_encode_size",
    params={"size": "int"}, returns="bytes",
    requires=["size >= 0"],
    ensures=[
        "len(result) >= 1",
        "le128(result, 0, len(result)) == size",
        "all(result[k] >= 128 for k in range(0, len(result) - 1))",
        "result[len(result) - 1] < 128",
    ],
    loops={1: dict(
        invariant=[
            "size >= 0 and 0 <= c and c < 128",
            "old(size) == le128(ret, 0, len(ret)) + (c + 128 * size) * 2 ** (7 * len(ret))",
            "all(ret[k] >= 128 for k in range(0, len(ret)))",
        ],
        decreases="size",
    )},
)

HDR_REQ = ["delta_length == len(delta)", "0 <= index"]

contract(
    prop=["C03", "C04"], file=P, func="apply_delta.get_delta_header_size",
    params={"delta": "bytes", "index": "int"}, free={"delta_length": "int"},
    returns="tuple[int,int]",
    requires=HDR_REQ,
    raises={"ApplyDeltaError": ["all(delta[k] >= 128 for k in range(index, delta_length))"]},
    ensures=[
        "index < result[1] and result[1] <= delta_length",
        "result[1] == msb_end(delta, index)",
        "result[0] == le128(delta, index, result[1])",
        "result[0] >= 0",
        "all(delta[k] >= 128 for k in range(index, result[1] - 1))",
        "delta[result[1] - 1] < 128",
    ],
    loops={1: dict(
        invariant=[
            "old(index) <= index and (index <= delta_length or index == old(index))",
            "i == 7 * (index - old(index))",
            "size == le128(delta, old(index), index)",
            "0 <= size and size < 2 ** i",
            "all(delta[k] >= 128 for k in range(old(index), index))",
            "msb_end(delta, old(index)) == msb_end(delta, index)",
        ],
        decreases="max(delta_length - index + 1, 0)",
    )},
)

contract(
    prop=["C03", "C04"], file=P, func="apply_delta.read_byte",
    params={"delta": "bytes"}, free={"index": "int", "delta_length": "int"}, modifies=["index"],
    returns="int",
    requires=HDR_REQ,
    raises={"ApplyDeltaError": ["old(index) >= delta_length", "index == old(index)"]},
    ensures=[
        "old(index) < delta_length",
        "index == old(index) + 1",
        "result == delta[old(index)]",
        "0 <= result and result <= 255",
    ],
)

DECL_DEST = "le128(join(delta), msb_end(join(delta), 0), msb_end(join(delta), msb_end(join(delta), 0)))"

contract(
    prop=["C03", "C04", "C15"], file=P, func="apply_delta",
    params={"src_buf": "bytes|chunks", "delta": "bytes|chunks"},
    returns="chunks",
    raises={"ApplyDeltaError": None},      # and nothing else: TypeError / IndexError are failures
    ensures=[
        # length of the output equals the size the delta declares
        f"chunks_length(result) == {DECL_DEST}",
        # the delta was made for this base
        "le128(join(delta), 0, msb_end(join(delta), 0)) == len(join(src_buf))",
    ],
    loops={1: dict(
        invariant=[
            "0 <= index and index <= delta_length",
            "dest_size >= 0",
            # resource clause of C03: never hold more output than the delta declares
            "chunks_length(out) <= dest_size",
            # how the code maintains it (after the fix: commit in /repo): remaining output budget
            "remaining == dest_size - chunks_length(out)",
        ],
        decreases="delta_length - index",
        types={"out": "chunks"},
    )},
    verify_paths_limit=20000,
    # "consists only of slices of the base and literal inserts": provenance of every appended chunk
    options={"chunk_origins": ["src_buf", "delta"]},
)

contract(
    prop=["C03", "C15"], file=P, func="_encode_copy_operation",
    params={"start": "int", "length": "int"}, returns="bytes",
    requires=["0 <= start and start < 2 ** 32", "0 < length and length <= 0xFFFF"],
    ensures=[
        "1 <= len(result) and len(result) <= 7",
        "result[0] >= 128",
        "copy_op_fields(result, 0) == (start, length, len(result))",
    ],
)

contract(
    prop=["C03", "C02", "C04"], file=P, func="chunks_length",
    params={"chunks": "bytes|chunks"}, returns="int",
    ensures=["result == len(join(chunks))"],
)

# ---- lemma library for le128 (facts that pyvc/specs.py assumes are proved here, by induction) ----
lemma(
    prop=["C03", "C02", "C04", "C11"], name="le128_store_frame", proves_fact="le128_frame",
    forall={"a": "bytes", "n": "int", "x": "int", "lo": "int", "hi": "int"},
    assume=["hi <= n"],
    show=["le128(store(a, n, x), lo, hi) == le128(a, lo, hi)"],
    induction=("hi", "lo"),
)
lemma(
    prop=["C03", "C02", "C04", "C11"], name="le128_bound", proves_fact="le128_bound",
    forall={"a": "bytes", "lo": "int", "hi": "int"},
    assume=["lo <= hi"],
    show=["0 <= le128(a, lo, hi)", "le128(a, lo, hi) < 2 ** (7 * (hi - lo))"],
    induction=("hi", "lo"),
)
lemma(
    prop=["C03", "C02", "C04", "C11"], name="le128_ext",
    forall={"a": "bytes", "b": "bytes", "lo": "int", "hi": "int"},
    assume=["all(a[k] == b[k] for k in range(lo, hi))"],
    show=["le128(a, lo, hi) == le128(b, lo, hi)"],
    induction=("hi", "lo"),
)
# round trip of the size header: decoding what _delta_encode_size produced gives the size back and
# stops exactly at its end, whatever follows (prefix-freeness)
lemma(
    prop=["C03", "C02"], name="delta_size_header_roundtrip",
    forall={"size": "int", "rest": "bytes"},
    assume=["size >= 0"],
    file=P,
    steps=[("enc", (P, "_delta_encode_size"), ["size"]), ("delta", "enc + rest"), ("delta_length", "len(delta)"),
           ("dec", (P, "apply_delta.get_delta_header_size"), ["delta", "0"])],
    uses=[("le128_ext", {"a": "enc", "b": "delta", "lo": "0", "hi": "len(enc)"})],
    show=["dec[0] == size", "dec[1] == len(enc)"],
)


# ---- encoder: well-formedness of every emitted instruction (pure-Python create_delta) -------------------
from pyvc.contract import class_spec
class_spec(file="<stdlib>", cls="SequenceMatcher", fields={"a": "bytes", "b": "bytes"})
contract(
    prop=["C03", "C15"], file="<stdlib>", func="difflib.SequenceMatcher", trusted=True,
    params={"isjunk": "opaque", "a": "bytes", "b": "bytes"}, returns="obj:SequenceMatcher",
    ensures=["result.a == a", "result.b == b"],
)
contract(
    prop=["C03", "C15"], file="<stdlib>", func="SequenceMatcher.get_opcodes", trusted=True,
    params={"self": "obj:SequenceMatcher"}, returns="iter:tuple[str,int,int,int,int]",
    options={"item_ensures": [
        "0 <= item[1] and item[1] <= item[2] and item[2] <= len(self.a)",
        "0 <= item[3] and item[3] <= item[4] and item[4] <= len(self.b)",
        # difflib never reports an empty replace / insert block (checked at run time by the bounded round trip)
        "not (item[0] == 'replace' or item[0] == 'insert') or item[4] > item[3]",
        "not (item[0] == 'equal') or item[2] - item[1] == item[4] - item[3]",
    ]},
    note="assumed contract of difflib.SequenceMatcher.get_opcodes(): blocks lie inside a and b, equal blocks have equal lengths",
)
contract(
    prop=["C03", "C15"], file=P, func="_create_delta_py",
    params={"base_buf": "bytes", "target_buf": "bytes"}, returns="chunks",
    requires=["len(base_buf) < 2 ** 32"],         # copy offsets are encoded in at most four bytes (bound found from the encoder)
    loops={
        2: dict(invariant=["copy_len >= 0", "i1 <= copy_start and copy_start + copy_len == i2"], decreases="copy_len"),
        3: dict(invariant=["s >= 1", "j1 <= o and o + s == j2"], decreases="s"),
    },
    options={"asserts": [
        # an insert instruction is 1..127 followed by exactly that many literal bytes of the target
        ("insert-header", "yield bytes([s])", ["1 <= s and s <= 127"]),
        ("insert-literal", "yield bytes(memoryview(target_buf)[o : o + s])", ["0 <= o and o + s <= len(target_buf)"]),
        ("insert-literal-127", "yield bytes(memoryview(target_buf)[o : o + 127])", ["0 <= o and o + 127 <= len(target_buf)"]),
    ]},
)

"""C02 — pack and pack-index primitives (dulwich/pack.py).  DESIGN.md section 7 C02 / A.2."""
from pyvc.contract import contract, lemma

P = "dulwich/pack.py"
BYTES_OK = "all(0 <= raw[k] and raw[k] <= 255 for k in range(0, len(raw)))"

contract(
    prop=["C02", "C04"], file=P, func="_decode_object_header",
    params={"raw": "list[int]"}, returns="tuple[int,int]",
    requires=["len(raw) >= 1", BYTES_OK],
    ensures=[
        "result[0] == (raw[0] // 16) % 8",
        "result[1] == raw[0] % 16 + 16 * le128(raw, 1, len(raw))",
        "result[1] >= 0",
    ],
    loops={1: dict(invariant=["size == raw[0] % 16 + 16 * le128(raw, 1, 1 + _it1)"])},
)
contract(
    prop=["C02", "C04"], file=P, func="_decode_delta_base_offset",
    params={"raw": "list[int]"}, returns="int",
    requires=["len(raw) >= 1", BYTES_OK],
    raises={"AssertionError": ["raw[len(raw) - 1] >= 128"],
            "ApplyDeltaError": ["ofsval(raw, 0, len(raw)) == 0"]},
    ensures=[
        "result == ofsval(raw, 0, len(raw))",
        "result >= 1",        # an offset delta always points strictly backwards (C04: no self reference)
    ],
    loops={1: dict(invariant=["delta_base_offset == ofsval(raw, 0, 1 + _it1)", "delta_base_offset >= 0"])},
)
contract(
    prop=["C02", "C04"], file=P, func="take_msb_bytes_at",
    params={"contents": "bytes", "offset": "int", "crc32": "None"}, returns="tuple[list[byte],int,None]",
    requires=["0 <= offset"],
    raises={"AssertionError": ["all(contents[k] >= 128 for k in range(offset, len(contents)))"]},
    ensures=[
        # exactly the maximal MSB-continued run starting at offset: no over-read, no under-read
        "result[1] == msb_end(contents, offset)",
        "offset < result[1] and result[1] <= len(contents)",
        "len(result[0]) == result[1] - offset",
        "all(result[0][k] == contents[offset + k] for k in range(0, len(result[0])))",
        "all(contents[k] >= 128 for k in range(offset, result[1] - 1))",
        "contents[result[1] - 1] < 128",
    ],
    loops={1: dict(
        invariant=[
            "offset <= pos and (pos <= len(contents) or pos == offset)",
            "len(ret) == pos - offset",
            "all(ret[k] == contents[offset + k] for k in range(0, len(ret)))",
            "all(contents[k] >= 128 for k in range(offset, pos - 1))",
            "msb_end(contents, offset) == (pos if (pos > offset and contents[pos - 1] < 128) else msb_end(contents, pos))",
        ],
        decreases="max(len(contents) - pos, 0) + (1 if (len(ret) == 0 or ret[len(ret) - 1] >= 128) else 0)",
        types={"ret": "list[byte]", "crc32": "None"},
    )},
)
contract(
    prop=["C02", "C15"], file=P, func="bisect_find_sha",
    params={"start": "int", "end": "int", "sha": "int", "unpack_name": "func:names"}, returns="int?",
    ghost_params={"nm": "list[int]"},
    requires=[
        "start <= end",
        # names strictly increasing on [start, end] (equal-length names: lexicographic order == numeric order)
        "all(all(nm[i] < nm[j] for j in range(i + 1, end + 1)) for i in range(start, end + 1))",
    ],
    ensures=[
        "result is not None or all(nm[i] != sha for i in range(start, end + 1))",
        "result is None or (start <= result and result <= end and nm[result] == sha)",
    ],
    loops={1: dict(
        invariant=[
            "old(start) <= start and end <= old(end)",
            "all(nm[i] < sha for i in range(old(start), start))",
            "all(nm[i] > sha for i in range(end + 1, old(end) + 1))",
        ],
        decreases="end - start + 1",
    )},
    assumptions=["equal-length object names are modelled by their big-endian integer value; bytes comparison of "
                 "equal-length strings is numeric comparison of those values"],
)
contract(
    prop=["C02", "C15"], file="<abstract>", func="names", trusted=True,
    params={"i": "int"}, free={"nm": "list[int]"}, returns="int",
    ensures=["result == nm[i]"],
    note="the index's name table as a ghost sequence",
)

NONDELTA = "1 <= type_num and type_num <= 4"
contract(
    prop=["C02"], file=P, func="pack_object_header",
    params={"type_num": "int", "delta_base": "None", "size": "int", "object_format": "opaque"}, returns="bytearray",
    requires=[NONDELTA, "size >= 0"],
    ensures=[
        # non-delta objects: type in bits 4-6 of the first byte, size = low nibble + 16 * little-endian base-128 rest,
        # continuation bits exactly on all but the last byte  (decoded back by _decode_object_header: lemma below)
        "len(result) >= 1",
        "(result[0] // 16) % 8 == type_num",
        "result[0] % 16 + 16 * le128(result, 1, len(result)) == size",
        "all(result[k] >= 128 for k in range(0, len(result) - 1))",
        "result[len(result) - 1] < 128",
    ],
    loops={1: dict(
        invariant=[
            "size >= 0 and 0 <= c and c < 128",
            "all(header[k] >= 128 and header[k] <= 255 for k in range(0, len(header)))",
            "(len(header) == 0 and c == type_num * 16 + old(size) % 16 and size == old(size) // 16) or "
            "(len(header) >= 1 and header[0] == 128 + type_num * 16 + old(size) % 16 and c < 128 and "
            " old(size) // 16 == le128(header, 1, len(header)) + (c + 128 * size) * 2 ** (7 * (len(header) - 1)))",
        ],
        decreases="size",
        types={"header": "list[int]"},
    )},
    dead=[24, 25, 26, 27, 28, 29, 30, 31, 33, 34, 35],
    note="delta types (OFS/REF) are covered by the bounded header round trip; the OFS prepend loop needs the "
         "ofsval prepend/shift lemmas that are not yet in the lemma library",
)
# decoding what the encoder produced gives (type, size) back
lemma(
    prop=["C02"], name="object_header_roundtrip", file=P,
    forall={"type_num": "int", "size": "int", "fmt": "opaque"},
    assume=[NONDELTA, "size >= 0"],
    steps=[("hdr", (P, "pack_object_header"), ["type_num", "None", "size", "fmt"]),
           ("raw", "list(hdr)"),
           ("dec", (P, "_decode_object_header"), ["raw"])],
    show=["dec[0] == type_num", "dec[1] == size"],
)

# ---- the same encoder for OFS_DELTA objects: size part as above, then the base offset in git's offset code ----------
# (second contract on the same function: "#ofs" names the input class type_num == 6, delta_base an int >= 1)
H = "(len(result) - len(ret))"
contract(
    prop=["C02"], file=P, func="pack_object_header#ofs",
    params={"type_num": "int", "delta_base": "int", "size": "int", "object_format": "opaque"}, returns="bytearray",
    requires=["type_num == 6", "size >= 0", "delta_base >= 1"],
    ghost_params={},
    ensures=[
        "len(result) >= 2",
        "(result[0] // 16) % 8 == 6",
        # H = len(result) - len(ret) is the end of the size part: continuation bits on all its bytes but the last (so the
        # decoders' take_msb_bytes_at stops exactly there: msb_end(result, 0) == H), the rest is the offset code of delta_base
        f"{H} >= 1 and {H} < len(result)",
        f"all(result[k] >= 128 for k in range(0, {H} - 1))",
        f"result[{H} - 1] < 128",
        f"result[0] % 16 + 16 * le128(result, 1, {H}) == size",
        f"ofsval(result, {H}, len(result)) == delta_base",
        f"all(result[k] >= 128 for k in range({H}, len(result) - 1))",
        "result[len(result) - 1] < 128",
    ],
    loops={
        1: dict(
            invariant=[
                "size >= 0 and 0 <= c and c < 128",
                "all(header[k] >= 128 and header[k] <= 255 for k in range(0, len(header)))",
                "(len(header) == 0 and c == type_num * 16 + old(size) % 16 and size == old(size) // 16) or "
                "(len(header) >= 1 and header[0] == 128 + type_num * 16 + old(size) % 16 and c < 128 and "
                " old(size) // 16 == le128(header, 1, len(header)) + (c + 128 * size) * 2 ** (7 * (len(header) - 1)))",
            ],
            decreases="size", types={"header": "list[int]"}),
        2: dict(
            invariant=[
                "delta_base >= 0 and len(ret) >= 1",
                "all(ret[k] >= 128 and ret[k] <= 255 for k in range(0, len(ret) - 1))",
                "0 <= ret[len(ret) - 1] and ret[len(ret) - 1] < 128",
                # value so far: what is still to be encoded, shifted past the bytes already produced
                "old(delta_base) == delta_base * 2 ** (7 * len(ret)) + ofsval(ret, 0, len(ret))",
            ],
            decreases="delta_base", types={"ret": "list[int]"}, keep=["header"]),
    },
)

"""C14 — optional acceleration data never changes an answer.  DESIGN.md section 7 C14.
Transparency is a relation between two runs over all histories: decided by a bounded differential stand-in
(bounded/c14_accel.py).  Under contract here: the trust sites, i.e. the places where an accelerator's answer is
returned WITHOUT consulting the authoritative data.  Obligation: a multi-pack-index hit is believed only after the pack
it names has been found alive (ghost marker set by _get_pack_by_name), in contains_packed as in get_raw."""
from pyvc.contract import class_spec, contract

OS = "dulwich/object_store.py"
ANY = "BaseException"

class_spec(file="<abstract>", cls="MidxStoreAbs", fields={})
contract(prop=["C14"], file="<abstract>", func="DiskObjectStore._get_pack_by_name@ghost", trusted=True,
         params={"self": "obj:MidxStoreAbs", "pack_name": "opaque"}, returns="opaque", raises={"KeyError": None, ANY: None},
         ensures=["upred('pack_alive', pack_name)"],
         note="ghost marker: returns only when the named pack exists (the body is a cache lookup plus os.path.exists)")
contract(
    prop=["C14"], file=OS, func="DiskObjectStore.contains_packed",
    params={"self": "obj:MidxStoreAbs", "sha": "opaque"}, returns="opaque", raises={ANY: None},
    options={"default_param": "opaque",
             "callee_contracts": {"MidxStoreAbs._get_pack_by_name": ("<abstract>", "DiskObjectStore._get_pack_by_name@ghost")},
             "asserts": [("midx-hit-needs-live-pack", "=return True", ["upred('pack_alive', result[0])"])]},
    note="`return True` is the MIDX arm; the per-pack fallback (super().contains_packed) reads the pack indexes themselves",
)

"""C14 — optional acceleration data never changes an answer.  DESIGN.md section 7 C14.
Transparency is a relation between two runs over all histories: decided by a bounded differential stand-in
(bounded/c14_accel.py).  Under contract here: the trust sites, i.e. the places where an accelerator's answer is
returned WITHOUT consulting the authoritative data.  Obligation: a multi-pack-index hit is believed only after the pack
it names has been found alive (ghost marker set by _get_pack_by_name), in contains_packed as in get_raw."""
from pyvc.contract import class_spec, contract

OS = "dulwich/object_store.py"
ANY = "BaseException"

class_spec(file="<abstract>", cls="MidxStoreAbs", fields={})
class_spec(file="<abstract>", cls="PackAbs14", fields={})
class_spec(file="<abstract>", cls="PackStoreParentAbs14", fields={})
contract(prop=["C14"], file="<abstract>", func="DiskObjectStore._get_pack_by_name@ghost", trusted=True,
         params={"self": "obj:MidxStoreAbs", "pack_name": "opaque"}, returns="obj:PackAbs14", raises={"KeyError": None, ANY: None},
         ensures=["upred('pack_alive', pack_name)"],
         note="ghost marker: returns only when the named pack exists (the body is a cache lookup plus os.path.exists)")
contract(
    prop=["C14"], file=OS, func="DiskObjectStore.contains_packed",
    params={"self": "obj:MidxStoreAbs", "sha": "opaque"}, returns="opaque", raises={ANY: None},
    options={"default_param": "opaque",
             "callee_contracts": {"MidxStoreAbs._get_pack_by_name": ("<abstract>", "DiskObjectStore._get_pack_by_name@ghost")},
             "asserts": [("midx-hit-needs-live-pack", "=return True", ["upred('pack_alive', result[0])"])]},
    note="`return True` is the MIDX arm; the per-pack fallback (super().contains_packed) reads the pack indexes themselves",
)


# ---- get_raw: whatever is returned was looked up in a pack's OWN index (Pack.get_raw) or by the accelerator-free parent class;
# the offset recorded in the multi-pack-index is never used to read the pack (a stale MIDX may name a pack that was rewritten
# under the same name with another layout)
contract(prop=["C14"], file="<abstract>", func="PackAbs14.get_raw@ghost", trusted=True, params={"self": "obj:PackAbs14", "sha1": "opaque"},
         returns="opaque", raises={"KeyError": None, ANY: None}, ensures=["upred('authoritative', result)"],
         note="Pack.get_raw looks the id up in the pack's own index and resolves deltas: the authoritative read")
contract(prop=["C14"], file="<abstract>", func="PackStoreParentAbs14.get_raw@ghost", trusted=True, params={"self": "obj:PackStoreParentAbs14", "name": "opaque"},
         returns="opaque", raises={"KeyError": None, ANY: None}, ensures=["upred('authoritative', result)"],
         note="PackBasedObjectStore.get_raw: per-pack index lookups and loose objects, no accelerator involved")
contract(
    prop=["C14"], file=OS, func="DiskObjectStore.get_raw",
    params={"self": "obj:MidxStoreAbs", "name": "bytes"}, returns="opaque", raises={ANY: None},
    ensures=["upred('authoritative', result)"],
    options={"default_param": "opaque", "super_obj": "PackStoreParentAbs14",
             "callee_contracts": {"MidxStoreAbs._get_pack_by_name": ("<abstract>", "DiskObjectStore._get_pack_by_name@ghost"),
                                  "PackAbs14.get_raw": ("<abstract>", "PackAbs14.get_raw@ghost"),
                                  "PackStoreParentAbs14.get_raw": ("<abstract>", "PackStoreParentAbs14.get_raw@ghost")},
             "asserts": [("midx-hit-needs-live-pack", "=return pack.get_raw(sha)", ["upred('pack_alive', pack_name)"])]},
)


# ---- ParentsProvider.get_parents: grafts and the shallow set win over the commit-graph (and over the commit object) -----------
class_spec(file="<abstract>", cls="ParentsProviderAbs14", fields={"grafts": "dict[opaque,opaque]", "shallows": "set[opaque]", "commit_graph": "opaque", "store": "opaque"})
_NOT_OVERRIDDEN = ["not dict_has(self.grafts, commit_id)", "not (commit_id in self.shallows)"]
contract(
    prop=["C14"], file="dulwich/repo.py", func="ParentsProvider.get_parents",
    params={"self": "obj:ParentsProviderAbs14", "commit_id": "opaque", "commit": "opaque"}, returns="opaque", raises={ANY: None},
    options={"asserts": [("graph-answer-only-if-no-graft-and-not-shallow", "=return parents", _NOT_OVERRIDDEN),
                         ("object-answer-only-if-no-graft-and-not-shallow", "=return result", _NOT_OVERRIDDEN)]},
    note="the accelerator's (and the commit object's) parents are returned only for commits without a graft entry that are not shallow",
)
contract(
    prop=["C14", "C05"], file=OS, func="_collect_ancestors",
    params={"store": "opaque", "heads": "opaque", "common": "set[opaque]", "shallow": "set[opaque]", "get_parents": "opaque"}, returns="opaque", raises={ANY: None},
    loops={1: dict(invariant=["True"], types={"queue": "list[opaque]", "commits": "set[opaque]", "bases": "set[opaque]"})},
    options={"asserts": [("parents-queued-only-below-non-shallow-non-common-commits", "queue.extend(parents)", ["not (e in shallow)", "not (e in common)"])]},
    note="whatever supplies the parents (commit-graph or commit object), the walk never descends below a shallow or a common commit",
)

"""C11 — index file codec (dulwich/index.py).  DESIGN.md section 7 C11 / A.6."""
from pyvc.contract import class_spec, contract, lemma

I = "dulwich/index.py"

# ---- lemma library for ofsval (git's varint / OFS_DELTA offset code); proved by induction on hi ----------
lemma(
    prop=["C11", "C02"], name="ofsval_store_frame", proves_fact="ofsval_frame",
    forall={"a": "bytes", "n": "int", "x": "int", "lo": "int", "hi": "int"},
    assume=["lo < hi", "n >= hi or n < lo"],
    show=["ofsval(store(a, n, x), lo, hi) == ofsval(a, lo, hi)"],
    induction=("hi", "lo + 1"),
)
lemma(
    prop=["C11", "C02"], name="ofsval_prepend", proves_fact="ofsval_prepend",
    forall={"a": "bytes", "lo": "int", "hi": "int"},
    assume=["lo + 1 < hi"],
    show=["ofsval(a, lo, hi) == (a[lo] % 128 + 1) * 2 ** (7 * (hi - lo - 1)) + ofsval(a, lo + 1, hi)"],
    induction=("hi", "lo + 2"),
)
lemma(
    prop=["C11", "C02"], name="ofsval_bound", proves_fact="ofsval_bound",
    forall={"a": "bytes", "lo": "int", "hi": "int"},
    assume=["lo < hi"],
    show=["0 <= ofsval(a, lo, hi)"],
    induction=("hi", "lo + 1"),
)

lemma(
    prop=["C11", "C02", "C03"], name="ofsval_shift_ext", proves_fact="ofsval_shift_ext",
    forall={"a": "bytes", "b": "bytes", "lo": "int", "hi": "int", "d": "int"},
    assume=["lo < hi", "all(a[k] == b[k + d] for k in range(lo, hi))"],
    show=["ofsval(a, lo, hi) == ofsval(b, lo + d, hi + d)"],
    induction=("hi", "lo + 1"),
)
lemma(
    prop=["C11", "C02", "C03"], name="le128_shift_ext", proves_fact="le128_shift_ext",
    forall={"a": "bytes", "b": "bytes", "lo": "int", "hi": "int", "d": "int"},
    assume=["all(a[k] == b[k + d] for k in range(lo, hi))"],
    show=["le128(a, lo, hi) == le128(b, lo + d, hi + d)"],
    induction=("hi", "lo"),
)
lemma(
    prop=["C11", "C02", "C03"], name="msb_run_end", proves_fact="msb_run_end",
    forall={"a": "bytes", "e": "int", "j": "int"},
    assume=["j >= 1", "all(a[k] >= 128 for k in range(e - j, e - 1))", "a[e - 1] < 128"],
    show=["msb_end(a, e - j) == e"],
    induction=("j", "1"),
)
# round trip and prefix-freeness: decoding an encoded value followed by anything gives the value and stops after it
lemma(
    prop=["C11"], name="varint_roundtrip", file=I,
    forall={"value": "int", "rest": "bytes"},
    assume=["value >= 0"],
    steps=[("enc", (I, "_encode_varint"), ["value"]), ("data", "enc + rest"), ("dec", (I, "_decode_varint"), ["data", "0"])],
    cuts=[("data", "data[len(enc) - 1] < 128"),
          ("data", "all(data[k] >= 128 for k in range(0, len(enc) - 1))"),
          ("data", "msb_run(data, 0, len(enc))"),
          ("data", "ofsval(data, 0, len(enc)) == ofsval(enc, 0, len(enc))"),
          ("dec", "any(data[k] < 128 for k in range(0, len(data)))")],
    show=["dec[1] == len(enc)", "dec[0] == value"],
)

contract(
    prop=["C11"], file=I, func="_encode_varint",
    params={"value": "int"}, returns="bytes",
    requires=["value >= 0"],
    ensures=[
        "len(result) >= 1",
        "ofsval(result, 0, len(result)) == value",          # git's varint.c
        "all(result[k] >= 128 for k in range(0, len(result) - 1))",
        "result[len(result) - 1] < 128",
    ],
    loops={1: dict(
        invariant=[
            "value >= 0 and len(result) >= 1",
            "old(value) == value * 2 ** (7 * len(result)) + ofsval(result, 0, len(result))",
            "all(result[k] >= 128 and result[k] <= 255 for k in range(0, len(result) - 1))",
            "0 <= result[len(result) - 1] and result[len(result) - 1] < 128",
        ],
        decreases="value",
        types={"result": "list[int]"},
    )},
)
contract(
    prop=["C11", "C04"], file=I, func="_decode_varint",
    params={"data": "bytes", "offset": "int"}, returns="tuple[int,int]",
    requires=["0 <= offset"],
    ensures=[
        # on a complete varint: its value and the position just after it; never reads past the end
        "offset >= len(data) or result[1] <= len(data)",
        "not any(data[k] < 128 for k in range(offset, len(data))) or "
        "(result[1] == msb_end(data, offset) and offset < result[1] and result[0] == ofsval(data, offset, result[1]))",
        "result[0] >= 0",
        "result[1] >= offset",
    ],
    loops={1: dict(
        invariant=[
            "offset <= pos and (pos <= len(data) or pos == offset)",
            "first == (pos == offset)",
            "value >= 0",
            "first or value == ofsval(data, offset, pos)",
            "first or data[pos - 1] >= 128",
            "all(data[k] >= 128 for k in range(offset, pos))",
            "msb_end(data, offset) == msb_end(data, pos)",
        ],
        decreases="max(len(data) - pos, 0)",
    )},
)

# ---- index v4 path compression: remove-count varint + suffix + NUL, relative to the previous path --------------------
NO_NUL = "all({p}[k] != 0 for k in range(0, len({p})))"
# shape of an encoding `r` of `path` against `prev` with common prefix length c; e = length of the varint
E = "(len(result) - 1 - (len(path) - c))"
SHAPE = (f"0 <= c and c <= len(path) and c <= len(previous_path) and all(path[k] == previous_path[k] for k in range(0, c)) and "
         f"{E} >= 1 and ofsval(result, 0, {E}) == len(previous_path) - c and all(result[k] >= 128 for k in range(0, {E} - 1)) and result[{E} - 1] < 128 and "
         f"all(result[{E} + k] == path[c + k] for k in range(0, len(path) - c)) and result[len(result) - 1] == 0")
contract(
    prop=["C11"], file=I, func="_compress_path",
    params={"path": "bytes", "previous_path": "bytes"}, returns="bytes",
    ensures=[f"any({SHAPE} for c in range(0, len(path) + 1))",
             # git's prefix is the MAXIMAL common prefix (byte-identical files)
             "common_len == len(path) or common_len == len(previous_path) or path[common_len] != previous_path[common_len]"],
    loops={1: dict(invariant=["common_len == _it1 or True", "0 <= common_len and common_len <= _it1 and common_len <= min_len",
                              "all(path[k] == previous_path[k] for k in range(0, common_len))", "common_len == _it1"],
                   types={"common_len": "int"})},
    options={"witness": {"c": "common_len"}},
)
COMPLETE = "any(data[k] < 128 for k in range(offset, len(data)))"
S_ = "msb_end(data, offset)"
REM = f"ofsval(data, offset, {S_})"
E_ = "(result[1] - 1)"
KEEP = f"(len(previous_path) - {REM})"
contract(
    prop=["C11", "C04"], file=I, func="_decompress_path",
    params={"data": "bytes", "offset": "int", "previous_path": "bytes"}, returns="tuple[bytes,int]",
    requires=["0 <= offset"],
    raises={"ValueError": None},
    ensures=[
        # on a complete varint: suffix = bytes up to the first NUL after it; result = kept prefix of the previous path ++ suffix
        f"not {COMPLETE} or ({S_} <= {E_} and {E_} < len(data) and data[{E_}] == 0 and all(data[k] != 0 for k in range({S_}, {E_})))",
        f"not {COMPLETE} or ({REM} <= len(previous_path) and len(result[0]) == {KEEP} + ({E_} - {S_}))",
        f"not {COMPLETE} or all(result[0][k] == previous_path[k] for k in range(0, {KEEP}))",
        f"not {COMPLETE} or all(result[0][{KEEP} + k] == data[{S_} + k] for k in range(0, {E_} - {S_}))",
    ],
    loops={1: dict(invariant=["suffix_start <= suffix_end and (suffix_end <= len(data) or suffix_end == suffix_start)",
                              "all(data[k] != 0 for k in range(suffix_start, suffix_end))"],
                   decreases="max(len(data) - suffix_end, 0)")},
)
# (a mechanised round-trip lemma over these two contracts was tried and left undecided by all solvers within the budget:
#  the two functional specifications compose - the decoder's (remove count, suffix) is exactly what the encoder's shape
#  fixes - but the composition is checked by the bounded stand-in c11_roundtrip only)

# ---- the stream variant used by read_cache_entry: same function of (content from the current position, previous path) --
import contracts.c19_protocol  # noqa: F401,E402  (class spec of io.BytesIO: content, pos)
D_ = "f.content"
O_ = "old(f.pos)"
COMPLETE_S = f"any({D_}[k] < 128 for k in range({O_}, len({D_})))"
SS = f"msb_end({D_}, {O_})"
REM_S = f"ofsval({D_}, {O_}, {SS})"
ES = f"({O_} + result[1] - 1)"
KEEP_S = f"(len(previous_path) - {REM_S})"
contract(
    prop=["C11", "C04"], file=I, func="_decompress_path_from_stream",
    params={"f": "obj:BytesIO", "previous_path": "bytes"}, returns="tuple[bytes,int]",
    # (no precondition: a position beyond the end simply hits end-of-file -> ValueError)
    modifies=["f.pos"],
    raises={"ValueError": None},
    ensures=[
        "f.pos == old(f.pos) + result[1] and result[1] >= 2",
        f"{SS} <= {ES} and {ES} < len({D_}) and {D_}[{ES}] == 0",
        f"all({D_}[k] != 0 for k in range({SS}, {ES}))",
        f"{REM_S} <= len(previous_path) and len(result[0]) == {KEEP_S} + ({ES} - {SS})",
        f"all(result[0][k] == previous_path[k] for k in range(0, {KEEP_S}))",
        f"all(result[0][{KEEP_S} + k] == {D_}[{SS} + k] for k in range(0, {ES} - {SS}))",
    ],
    loops={
        1: dict(invariant=[
            "old(f.pos) <= f.pos and (f.pos <= len(f.content) or f.pos == old(f.pos)) and bytes_consumed == f.pos - old(f.pos)",
            "first == (f.pos == old(f.pos))",
            "remove_len >= 0",
            "first or remove_len == ofsval(f.content, old(f.pos), f.pos)",
            "all(f.content[k] >= 128 for k in range(old(f.pos), f.pos))",
            "msb_end(f.content, old(f.pos)) == msb_end(f.content, f.pos)",
        ], decreases="max(len(f.content) - f.pos, 0)", types={"byte_data": "bytes", "byte": "int"}),
        2: dict(invariant=[
            "f.pos <= len(f.content) and bytes_consumed == f.pos - old(f.pos)",
            "f.pos - len(suffix) == msb_end(f.content, old(f.pos)) and msb_end(f.content, old(f.pos)) > old(f.pos)",
            "remove_len == ofsval(f.content, old(f.pos), msb_end(f.content, old(f.pos)))",
            "all(suffix[k] == f.content[f.pos - len(suffix) + k] and suffix[k] != 0 for k in range(0, len(suffix)))",
            "all(f.content[k] != 0 for k in range(msb_end(f.content, old(f.pos)), f.pos))",
        ], decreases="len(f.content) - f.pos", types={"byte_data": "bytes", "byte": "int", "suffix": "bytes"}, keep=["remove_len", "first"]),
    },
)


# ---- write_cache_entry: the flags word keeps every bit of entry.flags above the 12-bit name length field (stage bits, the
# extended marker, assume-valid 0x8000) and stores min(len(name), 0xFFF) in the field
class_spec(file="<abstract>", cls="SerEntryAbs11", fields={"ctime": "opaque", "mtime": "opaque", "dev": "nat", "ino": "nat", "mode": "nat", "uid": "nat", "gid": "nat",
                                                            "size": "nat", "sha": "opaque", "flags": "nat", "extended_flags": "nat", "name": "bytes"})
contract(prop=["C11"], file="<abstract>", func="write_cache_time@abs", trusted=True, params={"f": "opaque", "t": "opaque"}, returns="None", raises={"Exception": None})
contract(prop=["C11"], file="<abstract>", func="_compress_path@abs11", trusted=True, params={"path": "bytes", "previous_path": "bytes"}, returns="bytes", raises={"Exception": None})
contract(
    prop=["C11"], file=I, func="write_cache_entry",
    params={"f": "opaque", "entry": "obj:SerEntryAbs11", "version": "int", "previous_path": "bytes"}, returns="None", raises={"Exception": None},
    requires=["entry.flags < 65536"],
    options={"callee_contracts": {"write_cache_time": ("<abstract>", "write_cache_time@abs"), "_compress_path": ("<abstract>", "_compress_path@abs11")},
             "asserts": [("flags-word-keeps-the-upper-bits", ">flags = min(len(entry.name), FLAG_NAMEMASK) |",
                          ["flags // 4096 == entry.flags // 4096", "flags % 4096 == min(len(entry.name), 4095)"])]},
)

"""C11 — index file codec (dulwich/index.py).  DESIGN.md section 7 C11 / A.6."""
from pyvc.contract import contract, lemma

I = "dulwich/index.py"

# ---- lemma library for ofsval (git's varint / OFS_DELTA offset code); proved by induction on hi ----------
lemma(
    prop=["C11", "C02"], name="ofsval_store_frame", proves_fact="ofsval_frame",
    forall={"a": "bytes", "n": "int", "x": "int", "lo": "int", "hi": "int"},
    assume=["lo < hi", "n >= hi or n < lo"],
    show=["ofsval(store(a, n, x), lo, hi) == ofsval(a, lo, hi)"],
    induction=("hi", "lo + 1"),
)
lemma(
    prop=["C11", "C02"], name="ofsval_prepend", proves_fact="ofsval_prepend",
    forall={"a": "bytes", "lo": "int", "hi": "int"},
    assume=["lo + 1 < hi"],
    show=["ofsval(a, lo, hi) == (a[lo] % 128 + 1) * 2 ** (7 * (hi - lo - 1)) + ofsval(a, lo + 1, hi)"],
    induction=("hi", "lo + 2"),
)
lemma(
    prop=["C11", "C02"], name="ofsval_bound", proves_fact="ofsval_bound",
    forall={"a": "bytes", "lo": "int", "hi": "int"},
    assume=["lo < hi"],
    show=["0 <= ofsval(a, lo, hi)"],
    induction=("hi", "lo + 1"),
)

lemma(
    prop=["C11", "C02", "C03"], name="ofsval_shift_ext", proves_fact="ofsval_shift_ext",
    forall={"a": "bytes", "b": "bytes", "lo": "int", "hi": "int", "d": "int"},
    assume=["lo < hi", "all(a[k] == b[k + d] for k in range(lo, hi))"],
    show=["ofsval(a, lo, hi) == ofsval(b, lo + d, hi + d)"],
    induction=("hi", "lo + 1"),
)
lemma(
    prop=["C11", "C02", "C03"], name="le128_shift_ext", proves_fact="le128_shift_ext",
    forall={"a": "bytes", "b": "bytes", "lo": "int", "hi": "int", "d": "int"},
    assume=["all(a[k] == b[k + d] for k in range(lo, hi))"],
    show=["le128(a, lo, hi) == le128(b, lo + d, hi + d)"],
    induction=("hi", "lo"),
)
lemma(
    prop=["C11", "C02", "C03"], name="msb_run_end", proves_fact="msb_run_end",
    forall={"a": "bytes", "e": "int", "j": "int"},
    assume=["j >= 1", "all(a[k] >= 128 for k in range(e - j, e - 1))", "a[e - 1] < 128"],
    show=["msb_end(a, e - j) == e"],
    induction=("j", "1"),
)
# round trip and prefix-freeness: decoding an encoded value followed by anything gives the value and stops after it
lemma(
    prop=["C11"], name="varint_roundtrip", file=I,
    forall={"value": "int", "rest": "bytes"},
    assume=["value >= 0"],
    steps=[("enc", (I, "_encode_varint"), ["value"]), ("data", "enc + rest"), ("dec", (I, "_decode_varint"), ["data", "0"])],
    cuts=[("data", "data[len(enc) - 1] < 128"),
          ("data", "all(data[k] >= 128 for k in range(0, len(enc) - 1))"),
          ("data", "msb_run(data, 0, len(enc))"),
          ("data", "ofsval(data, 0, len(enc)) == ofsval(enc, 0, len(enc))"),
          ("dec", "any(data[k] < 128 for k in range(0, len(data)))")],
    show=["dec[1] == len(enc)", "dec[0] == value"],
)

contract(
    prop=["C11"], file=I, func="_encode_varint",
    params={"value": "int"}, returns="bytes",
    requires=["value >= 0"],
    ensures=[
        "len(result) >= 1",
        "ofsval(result, 0, len(result)) == value",          # git's varint.c
        "all(result[k] >= 128 for k in range(0, len(result) - 1))",
        "result[len(result) - 1] < 128",
    ],
    loops={1: dict(
        invariant=[
            "value >= 0 and len(result) >= 1",
            "old(value) == value * 2 ** (7 * len(result)) + ofsval(result, 0, len(result))",
            "all(result[k] >= 128 and result[k] <= 255 for k in range(0, len(result) - 1))",
            "0 <= result[len(result) - 1] and result[len(result) - 1] < 128",
        ],
        decreases="value",
        types={"result": "list[int]"},
    )},
)
contract(
    prop=["C11", "C04"], file=I, func="_decode_varint",
    params={"data": "bytes", "offset": "int"}, returns="tuple[int,int]",
    requires=["0 <= offset"],
    ensures=[
        # on a complete varint: its value and the position just after it; never reads past the end
        "offset >= len(data) or result[1] <= len(data)",
        "not any(data[k] < 128 for k in range(offset, len(data))) or "
        "(result[1] == msb_end(data, offset) and offset < result[1] and result[0] == ofsval(data, offset, result[1]))",
        "result[0] >= 0",
    ],
    loops={1: dict(
        invariant=[
            "offset <= pos and (pos <= len(data) or pos == offset)",
            "first == (pos == offset)",
            "value >= 0",
            "first or value == ofsval(data, offset, pos)",
            "first or data[pos - 1] >= 128",
            "all(data[k] >= 128 for k in range(offset, pos))",
            "msb_end(data, offset) == msb_end(data, pos)",
        ],
        decreases="max(len(data) - pos, 0)",
    )},
)

"""C01 — object names are content hashes; canonical tree order (dulwich/objects.py).  DESIGN.md section 7 C01 / A.3."""
from pyvc.contract import class_spec, contract, lemma

O = "dulwich/objects.py"

# ---- canonical tree order: the sort key agrees with git's base_name_compare ----------------------------------
contract(
    prop=["C01", "C12", "C15"], file=O, func="key_entry",
    params={"entry": "tuple[bytes,tuple[int,opaque]]"}, returns="bytes",
    ensures=["result == (entry[0] + b'/' if is_dir_mode(entry[1][0]) else entry[0])"],
)
NAME_OK = "all({n}[k] != 0 and {n}[k] != 47 for k in range(0, len({n})))"
lemma(
    prop=["C01", "C12"], name="tree_order_is_gits", file=O,
    forall={"a": "bytes", "ma": "int", "b": "bytes", "mb": "int", "sa": "opaque", "sb": "opaque"},
    assume=[NAME_OK.format(n="a"), NAME_OK.format(n="b"), "ma >= 0 and mb >= 0"],
    steps=[("ka", (O, "key_entry"), ["(a, (ma, sa))"]), ("kb", (O, "key_entry"), ["(b, (mb, sb))"])],
    # both directions: Python's bytes order on the keys is exactly git's order on (name, mode)
    show=["(not (ka < kb)) or base_name_lt(a, is_dir_mode(ma), b, is_dir_mode(mb))",
          "(ka < kb) or not base_name_lt(a, is_dir_mode(ma), b, is_dir_mode(mb))"],
)

# ---- the cached name: well-formedness of the (serialisation, sha) cache is preserved by every operation ----------
class_spec(file="<stdlib>", cls="HashObj", fields={"data": "bytes"})
class_spec(file=O, cls="ShaFile", fields={
    "_sha": "obj:HashObj?", "_needs_serialization": "bool", "_chunked_text": "chunks?", "type_num": "int",
    "ser": "bytes", "trusted": "bool"})
HDR = "uf_bytes('object_header', self.type_num, len(self.ser))"
WF = [
    # when not dirty the stored chunks ARE the serialisation of the fields (ghost `ser`)
    "self._needs_serialization or (self._chunked_text is not None and join(self._chunked_text) == self.ser)",
    # a cached sha that is not dirty (and was not supplied by the caller) was computed over header ++ serialisation
    f"self._sha is None or self._needs_serialization or self.trusted or self._sha.data == {HDR} + self.ser",
]
contract(prop=["C01"], file="<abstract>", func="ShaFile._serialize", trusted=True,
         params={"self": "obj:ShaFile"}, returns="chunks", ensures=["join(result) == self.ser"],
         note="the class's serialiser, abstractly: produces the serialisation `ser` of the current field values")
contract(prop=["C01"], file=O, func="object_header", trusted=True,
         params={"num_type": "int", "length": "int"}, returns="bytes", raises={"AssertionError": None},
         ensures=["result == uf_bytes('object_header', num_type, length)"],
         note="'<type> <decimal length>\\\\0' as an uninterpreted function of (type, length)")
contract(
    prop=["C01"], file=O, func="ShaFile.as_raw_chunks",
    params={"self": "obj:ShaFile"}, returns="chunks",
    requires=WF, modifies=["self._sha", "self._chunked_text", "self._needs_serialization"],
    ensures=WF + ["not self._needs_serialization", "join(result) == self.ser", "result is self._chunked_text"],
    options={"result_is": "self._chunked_text"},
)
contract(
    prop=["C01"], file=O, func="ShaFile.raw_length",
    params={"self": "obj:ShaFile"}, returns="int",
    requires=WF, modifies=["self._sha", "self._chunked_text", "self._needs_serialization"],
    ensures=WF + ["not self._needs_serialization", "result == len(self.ser)"],
)
contract(
    prop=["C01"], file=O, func="ShaFile._header",
    params={"self": "obj:ShaFile"}, returns="bytes",
    requires=WF, modifies=["self._sha", "self._chunked_text", "self._needs_serialization"], raises={"AssertionError": None},
    ensures=WF + ["not self._needs_serialization", f"result == {HDR}"],
)
contract(
    prop=["C01"], file=O, func="ShaFile.sha",
    params={"self": "obj:ShaFile", "object_format": "None"}, returns="obj:HashObj",
    requires=WF, modifies=["self._sha", "self._chunked_text", "self._needs_serialization"], raises={"AssertionError": None},
    # THE property: the name is the hash of header(type, length) ++ serialisation of the current field values
    ensures=WF + [f"self.trusted or result.data == {HDR} + self.ser", "result is self._sha"],
    loops={1: dict(invariant=[
        "not self._needs_serialization and self._chunked_text is not None and join(self._chunked_text) == self.ser",
        f"new_sha.data == {HDR} + join(self._chunked_text)[:_pre1]",
    ]), 2: dict(invariant=[
        "not self._needs_serialization and self._chunked_text is not None and join(self._chunked_text) == self.ser",
        f"new_sha.data == {HDR} + join(self._chunked_text)[:_pre2]",
    ])},
    dead=[9, 10, 11, 12, 13],
)
contract(
    prop=["C01"], file=O, func="Blob.chunked", options={"setter": True},
    params={"self": "obj:ShaFile", "chunks": "chunks"}, returns="None",
    requires=WF + ["not self._needs_serialization"],
    # for a blob the serialisation IS the chunk list: replacing it replaces `ser`
    modifies=["self._chunked_text", "self._sha", "self.ser"],
    assigns={"self._chunked_text": "chunks"},
    ensures=["self._sha is None or self._sha.data == " + HDR + " + join(chunks)"],
    note="verified against WF with ser := join(chunks): the cached sha must not survive",
)

contract(
    prop=["C01"], file=O, func="serializable_property.set",
    params={"obj": "obj:ShaFile", "value": "opaque"}, free={"name": "str"}, returns="None",
    modifies=["obj._needs_serialization", "obj.ser"],
    # every generated field setter marks the object dirty, which re-establishes WF whatever the new serialisation is
    ensures=["obj._needs_serialization"],
    note="setattr(obj, '_' + name, value) writes a data field: by guard_property_names none of the generated names is a cache field",
)

CACHE_FIELDS = {"_sha", "_needs_serialization", "_chunked_text"}
SHA_CLASSES = ("ShaFile", "Blob", "Tree", "Commit", "Tag")
EXEMPT = {"__init__", "_deserialize", "_serialize", "set_raw_string", "set_raw_chunks", "as_raw_chunks", "sha", "_parse_file", "_parse_legacy_object",
          "_parse_object", "check", "_check_has_member"}


def guard_property_names(root):
    """no serializable_property is generated for a cache field name"""
    import ast, os
    tree = ast.parse(open(os.path.join(root, O), "rb").read())
    problems = []
    for n in ast.walk(tree):
        if isinstance(n, ast.Call) and isinstance(n.func, ast.Name) and n.func.id == "serializable_property":
            if not n.args or not isinstance(n.args[0], ast.Constant):
                problems.append(f"serializable_property with a non-literal name at line {n.lineno}")
            elif "_" + n.args[0].value in CACHE_FIELDS:
                problems.append(f"serializable_property('{n.args[0].value}') shadows a cache field")
    return problems


def guard_mutators_mark_dirty(root):
    """uncontracted-mutator: every method of the object classes that writes a data field (self._x = ..., or mutates
    self._x[...] / self._x.append/.insert/...) also marks the object dirty (self._needs_serialization = True) or
    replaces the raw text through set_raw_string / set_raw_chunks; Blob.chunked is under contract instead."""
    import ast, os
    tree = ast.parse(open(os.path.join(root, O), "rb").read())
    problems = []
    contracted = {("Blob", "chunked")}
    for cls in tree.body:
        if not (isinstance(cls, ast.ClassDef) and cls.name in SHA_CLASSES):
            continue
        for fn in cls.body:
            if not isinstance(fn, ast.FunctionDef) or fn.name in EXEMPT or (cls.name, fn.name) in contracted:
                continue
            if any(isinstance(d, ast.Name) and d.id == "classmethod" for d in fn.decorator_list):
                continue
            writes, dirty = [], False
            for n in ast.walk(fn):
                tgt = None
                if isinstance(n, (ast.Assign, ast.AugAssign, ast.Delete)):
                    tgts = n.targets if isinstance(n, (ast.Assign, ast.Delete)) else [n.target]
                    for t in tgts:
                        base = t
                        while isinstance(base, ast.Subscript):
                            base = base.value
                        if isinstance(base, ast.Attribute) and isinstance(base.value, ast.Name) and base.value.id == "self" and base.attr.startswith("_"):
                            if base.attr == "_needs_serialization":
                                dirty = dirty or (isinstance(n, ast.Assign) and isinstance(n.value, ast.Constant) and n.value.value is True)
                            elif base.attr not in CACHE_FIELDS:
                                writes.append((base.attr, n.lineno))
                if isinstance(n, ast.Call) and isinstance(n.func, ast.Attribute):
                    f = n.func
                    if f.attr in ("set_raw_string", "set_raw_chunks") and isinstance(f.value, ast.Name) and f.value.id == "self":
                        dirty = True
                    if f.attr in ("append", "insert", "extend", "pop", "remove", "clear", "sort", "update", "setdefault") and isinstance(f.value, ast.Attribute) \
                            and isinstance(f.value.value, ast.Name) and f.value.value.id == "self" and f.value.attr.startswith("_") and f.value.attr not in CACHE_FIELDS:
                        writes.append((f.value.attr, n.lineno))
            if writes and not dirty:
                problems.append(f"uncontracted-mutator: {cls.name}.{fn.name} writes {sorted(set(w for w, _ in writes))} (line {writes[0][1]}) without marking the object dirty")
    return problems


GUARDS = {"C01": [guard_property_names, guard_mutators_mark_dirty]}

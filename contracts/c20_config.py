"""C20 — configuration value codec (dulwich/config.py).  DESIGN.md section 7 C20 / A.5."""
from pyvc.contract import contract

F = "dulwich/config.py"

contract(
    prop=["C20"], file=F, func="_escape_value", trusted=True,
    params={"value": "bytes"}, returns="bytes",
    ensures=["len(result) >= len(value)"],
    note="the replace chain itself is not modelled (bytes.replace with growing replacements); covered by the exhaustive bounded round trip",
)
contract(
    prop=["C20"], file=F, func="_format_string",
    params={"value": "bytes"}, returns="bytes",
    ensures=[
        # the writer quotes exactly the values a reader (dulwich's or git's) would otherwise alter: leading/trailing
        # whitespace, either comment character, CR / VT / FF anywhere
        "not needs_quotes(value) or (len(result) >= len(value) + 2 and result[0] == 34 and result[len(result) - 1] == 34)",
        "len(result) >= len(value)",
    ],
    # the two shapes the reader-side contracts below (_parse_string#quoted / #unquoted) take as their inputs, and exactly when
    options={"asserts": [("quoted-shape-iff-needs-quotes", "=return b'\"' + _escape_value(value) + b'\"'", ["needs_quotes(value)"]),
                         ("bare-shape-iff-not", "=return _escape_value(value)", ["not needs_quotes(value)"])]},
)
contract(
    prop=["C20", "C04"], file=F, func="_parse_string",
    params={"value": "bytes"}, returns="bytes",
    raises={"ValueError": None},        # every byte string yields a value or ValueError: no IndexError / KeyError escapes
    ensures=["len(result) <= len(value)"],
    loops={1: dict(
        invariant=["0 <= i and i <= len(value_array) + 1", "len(ret) + len(whitespace) <= i and len(ret) + len(whitespace) <= len(value_array)", "len(value_array) <= len(value)"],
        decreases="2 * (len(value_array) - i) + (1 if (i < len(value_array) and value_array[i] == 92) else 0)",
        types={"ret": "bytearray", "whitespace": "bytearray", "value_array": "bytearray"},
    )},
)

# ---- the reader undoes the writer's escaping: quoted form ---------------------------------------------------------------
# Ghost inputs: plain (the original value; called v in the comments below), E (its escaped form) and a position map epos (uninterpreted, constrained by the
# precondition): E is v with every special byte replaced by backslash + code, epos(k) the position of v[k]'s image in E.
# That _escape_value produces such an E for every v is the ASSUMED contract of the replace chain (bounded-checked);
# what is proved here, for all v: _parse_string(b'"' + E + b'"') == v.
EPOS = "ufi('epos', {k})"
ESC_SPEC = [
    f"{EPOS.format(k='0')} == 0 and len(E) == {EPOS.format(k='len(plain)')}",
    f"all({EPOS.format(k='k + 1')} == {EPOS.format(k='k')} + (2 if cfg_special(plain[k]) else 1) for k in range(0, len(plain)))",
    f"all((E[{EPOS.format(k='k')}] == 92 and E[{EPOS.format(k='k')} + 1] == cfg_code(plain[k])) if cfg_special(plain[k]) else E[{EPOS.format(k='k')}] == plain[k] for k in range(0, len(plain)))",
    f"all(0 <= {EPOS.format(k='k')} and {EPOS.format(k='k')} <= len(E) for k in range(0, len(plain) + 1))",
    f"all({EPOS.format(k='k')} < len(E) for k in range(0, len(plain)))",
]
contract(
    prop=["C20"], file=F, func="_parse_string#quoted",
    params={"value": "bytes"}, ghost_params={"plain": "bytes", "E": "bytes"}, returns="bytes",
    requires=ESC_SPEC + ["len(value) == len(E) + 2 and value[0] == 34 and value[len(value) - 1] == 34",
                         "all(value[j] == E[j - 1] for j in range(1, len(value) - 1))"],
    raises={},
    ensures=["len(result) == len(plain)", "all(result[k] == plain[k] for k in range(0, len(plain)))"],
    loops={1: dict(
        invariant=[
            "len(value_array) == len(value) and all(value_array[k] == value[k] for k in range(0, len(value)))",
            "len(whitespace) == 0 and len(ret) <= len(plain) and all(ret[j] == plain[j] for j in range(0, len(ret)))",
            f"(i == 0 and not in_quotes and len(ret) == 0) or (in_quotes and i == 1 + {EPOS.format(k='len(ret)')}) or "
            f"(not in_quotes and i == len(value_array) and len(ret) == len(plain))",
        ],
        decreases="len(value_array) - i",
        types={"ret": "bytearray", "whitespace": "bytearray", "value_array": "bytearray"},
    )},
)

# ---- the same for the unquoted form: _format_string leaves a value unquoted only if it has no leading/trailing whitespace
# (Python's bytes.strip() set) and none of # ; CR VT FF; for every such value, _parse_string(E) == plain.
contract(
    prop=["C20"], file=F, func="_parse_string#unquoted",
    params={"value": "bytes"}, ghost_params={"plain": "bytes", "E": "bytes"}, returns="bytes",
    requires=ESC_SPEC + ["len(value) == len(E) and all(value[j] == E[j] for j in range(0, len(value)))",
                         "not needs_quotes(plain)"],
    raises={},
    ensures=["len(result) == len(plain)", "all(result[k] == plain[k] for k in range(0, len(plain)))"],
    loops={1: dict(
        invariant=[
            "len(value_array) == len(value) and all(value_array[k] == value[k] for k in range(0, len(value)))",
            "not in_quotes and len(ret) + len(whitespace) <= len(plain) and all(ret[j] == plain[j] for j in range(0, len(ret)))",
            "all(whitespace[j] == 32 and plain[len(ret) + j] == 32 for j in range(0, len(whitespace)))",
            f"i == {EPOS.format(k='len(ret) + len(whitespace)')}",
        ],
        decreases="len(value_array) - i",
        types={"ret": "bytearray", "whitespace": "bytearray", "value_array": "bytearray"},
    )},
)

# ---- subsection names: _unescape_subsection undoes _escape_subsection (same ghost relation; specials are \\ and ", code = the byte)
def _sub_spec():
    sp = "(plain[k] == 92 or plain[k] == 34)"
    return [
        f"{EPOS.format(k='0')} == 0 and len(E) == {EPOS.format(k='len(plain)')}",
        f"all({EPOS.format(k='k + 1')} == {EPOS.format(k='k')} + (2 if {sp} else 1) for k in range(0, len(plain)))",
        f"all((E[{EPOS.format(k='k')}] == 92 and E[{EPOS.format(k='k')} + 1] == plain[k]) if {sp} else E[{EPOS.format(k='k')}] == plain[k] for k in range(0, len(plain)))",
        f"all(0 <= {EPOS.format(k='k')} and {EPOS.format(k='k')} <= len(E) for k in range(0, len(plain) + 1))",
        f"all({EPOS.format(k='k')} < len(E) for k in range(0, len(plain)))",
    ]
contract(
    prop=["C20"], file=F, func="_unescape_subsection#roundtrip",
    params={"name": "bytes"}, ghost_params={"plain": "bytes", "E": "bytes"}, returns="bytes",
    requires=_sub_spec() + ["len(name) == len(E) and all(name[j] == E[j] for j in range(0, len(name)))"],
    raises={},
    ensures=["len(result) == len(plain)", "all(result[k] == plain[k] for k in range(0, len(plain)))"],
    loops={1: dict(
        invariant=["len(out) <= len(plain) and all(out[j] == plain[j] for j in range(0, len(out)))", f"i == {EPOS.format(k='len(out)')}"],
        decreases="len(name) - i",
        types={"out": "bytearray"},
    )},
)


# ---- line level: the comment stripper leaves a written value line intact ---------------------------------------------------
# line = P ++ F ++ S where P ("\tname = ") and S (the line end) contain no quote, backslash or comment character and F is
# the written value: quote ++ E ++ quote, or the bare E when the value needs no quotes.  What _strip_comments needs to know
# about E is that it is WELL ESCAPED: reading it with the one-bit automaton st ("the previous byte was an unescaped
# backslash"; st is DEFINED by the first two clauses) there is no unescaped quote, no dangling backslash at the end, and - in
# the bare form - no unescaped comment character.  That _escape_value produces such an E (for the bare form: from a value
# that needs no quotes) is the ASSUMED part, checked exhaustively by the bounded stand-in together with ESC_SPEC.
ST = "ufi('esc_st', {j})"
WELL_ESC = [
    f"{ST.format(j='0')} == 0 and {ST.format(j='len(E)')} == 0",
    f"all({ST.format(j='j + 1')} == (1 if ({ST.format(j='j')} == 0 and E[j] == 92) else 0) for j in range(0, len(E)))",
    f"all({ST.format(j='j')} != 0 or E[j] != 34 for j in range(0, len(E)))",
]
NO_BARE_COMMENT = f"all({ST.format(j='j')} != 0 or (E[j] != 35 and E[j] != 59) for j in range(0, len(E)))"
_NOSPECIAL = "all({s}[t] != 34 and {s}[t] != 92 and {s}[t] != 35 and {s}[t] != 59 for t in range(0, len({s})))"
def _strip_contract(tag, q, shape, extra_req, open_inv):
    jj = f"(_it1 - len(P) - {q})"
    contract(
        prop=["C20"], file=F, func=f"_strip_comments#{tag}",
        params={"line": "bytes"}, ghost_params={"E": "bytes", "P": "bytes", "S": "bytes"}, returns="bytes",
        requires=WELL_ESC + [_NOSPECIAL.format(s="P"), _NOSPECIAL.format(s="S")] + shape + extra_req,
        raises={},
        ensures=["len(result) == len(line)", "all(result[t] == line[t] for t in range(0, len(line)))"],
        loops={1: dict(invariant=[open_inv, f"escaped == (0 <= {jj} and {jj} <= len(E) and {ST.format(j=jj)} == 1)"])},
    )
# (shape facts are indexed by the position in `line`, so that they instantiate at line[i] without arithmetic matching)
_strip_contract("quoted", 1,
                ["len(line) == len(P) + len(E) + 2 + len(S)", "all(line[t] == P[t] for t in range(0, len(P)))", "line[len(P)] == 34",
                 "all(line[t] == E[t - len(P) - 1] for t in range(len(P) + 1, len(P) + 1 + len(E)))", "line[len(P) + 1 + len(E)] == 34",
                 "all(line[t] == S[t - len(P) - len(E) - 2] for t in range(len(P) + len(E) + 2, len(line)))"],
                [], "string_open == (len(P) < _it1 and _it1 <= len(P) + 1 + len(E))")
_strip_contract("bare", 0,
                ["len(line) == len(P) + len(E) + len(S)", "all(line[t] == P[t] for t in range(0, len(P)))",
                 "all(line[t] == E[t - len(P)] for t in range(len(P), len(P) + len(E)))", "all(line[t] == S[t - len(P) - len(E)] for t in range(len(P) + len(E), len(line)))"],
                [NO_BARE_COMMENT], "not string_open")

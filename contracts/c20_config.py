"""C20 — configuration value codec (dulwich/config.py).  DESIGN.md section 7 C20 / A.5."""
from pyvc.contract import contract

F = "dulwich/config.py"

contract(
    prop=["C20"], file=F, func="_escape_value", trusted=True,
    params={"value": "bytes"}, returns="bytes",
    ensures=["len(result) >= len(value)"],
    note="the replace chain itself is not modelled (bytes.replace with growing replacements); covered by the exhaustive bounded round trip",
)
contract(
    prop=["C20"], file=F, func="_format_string",
    params={"value": "bytes"}, returns="bytes",
    ensures=[
        # the writer quotes exactly the values a reader (dulwich's or git's) would otherwise alter: leading/trailing
        # whitespace, either comment character, CR / VT / FF anywhere
        "not needs_quotes(value) or (len(result) >= len(value) + 2 and result[0] == 34 and result[len(result) - 1] == 34)",
        "len(result) >= len(value)",
    ],
    # the two shapes the reader-side contracts below (_parse_string#quoted / #unquoted) take as their inputs, and exactly when
    options={"asserts": [("quoted-shape-iff-needs-quotes", "=return b'\"' + _escape_value(value) + b'\"'", ["needs_quotes(value)"]),
                         ("bare-shape-iff-not", "=return _escape_value(value)", ["not needs_quotes(value)"])]},
)
contract(
    prop=["C20", "C04"], file=F, func="_parse_string",
    params={"value": "bytes"}, returns="bytes",
    raises={"ValueError": None},        # every byte string yields a value or ValueError: no IndexError / KeyError escapes
    ensures=["len(result) <= len(value)"],
    loops={1: dict(
        invariant=["0 <= i and i <= len(value_array) + 1", "len(ret) + len(whitespace) <= i and len(ret) + len(whitespace) <= len(value_array)", "len(value_array) <= len(value)"],
        decreases="2 * (len(value_array) - i) + (1 if (i < len(value_array) and value_array[i] == 92) else 0)",
        types={"ret": "bytearray", "whitespace": "bytearray", "value_array": "bytearray"},
    )},
)

# ---- the reader undoes the writer's escaping: quoted form ---------------------------------------------------------------
# Ghost inputs: plain (the original value; called v in the comments below), E (its escaped form) and a position map epos (uninterpreted, constrained by the
# precondition): E is v with every special byte replaced by backslash + code, epos(k) the position of v[k]'s image in E.
# That _escape_value produces such an E for every v is the ASSUMED contract of the replace chain (bounded-checked);
# what is proved here, for all v: _parse_string(b'"' + E + b'"') == v.
EPOS = "ufi('epos', {k})"
ESC_SPEC = [
    f"{EPOS.format(k='0')} == 0 and len(E) == {EPOS.format(k='len(plain)')}",
    f"all({EPOS.format(k='k + 1')} == {EPOS.format(k='k')} + (2 if cfg_special(plain[k]) else 1) for k in range(0, len(plain)))",
    f"all((E[{EPOS.format(k='k')}] == 92 and E[{EPOS.format(k='k')} + 1] == cfg_code(plain[k])) if cfg_special(plain[k]) else E[{EPOS.format(k='k')}] == plain[k] for k in range(0, len(plain)))",
    f"all(0 <= {EPOS.format(k='k')} and {EPOS.format(k='k')} <= len(E) for k in range(0, len(plain) + 1))",
    f"all({EPOS.format(k='k')} < len(E) for k in range(0, len(plain)))",
]
contract(
    prop=["C20"], file=F, func="_parse_string#quoted",
    params={"value": "bytes"}, ghost_params={"plain": "bytes", "E": "bytes"}, returns="bytes",
    requires=ESC_SPEC + ["len(value) == len(E) + 2 and value[0] == 34 and value[len(value) - 1] == 34",
                         "all(value[j] == E[j - 1] for j in range(1, len(value) - 1))"],
    raises={},
    ensures=["len(result) == len(plain)", "all(result[k] == plain[k] for k in range(0, len(plain)))"],
    loops={1: dict(
        invariant=[
            "len(value_array) == len(value) and all(value_array[k] == value[k] for k in range(0, len(value)))",
            "len(whitespace) == 0 and len(ret) <= len(plain) and all(ret[j] == plain[j] for j in range(0, len(ret)))",
            f"(i == 0 and not in_quotes and len(ret) == 0) or (in_quotes and i == 1 + {EPOS.format(k='len(ret)')}) or "
            f"(not in_quotes and i == len(value_array) and len(ret) == len(plain))",
        ],
        decreases="len(value_array) - i",
        types={"ret": "bytearray", "whitespace": "bytearray", "value_array": "bytearray"},
    )},
)

# ---- the same for the unquoted form: _format_string leaves a value unquoted only if it has no leading/trailing whitespace
# (Python's bytes.strip() set) and none of # ; CR VT FF; for every such value, _parse_string(E) == plain.
contract(
    prop=["C20"], file=F, func="_parse_string#unquoted",
    params={"value": "bytes"}, ghost_params={"plain": "bytes", "E": "bytes"}, returns="bytes",
    requires=ESC_SPEC + ["len(value) == len(E) and all(value[j] == E[j] for j in range(0, len(value)))",
                         "not needs_quotes(plain)"],
    raises={},
    ensures=["len(result) == len(plain)", "all(result[k] == plain[k] for k in range(0, len(plain)))"],
    loops={1: dict(
        invariant=[
            "len(value_array) == len(value) and all(value_array[k] == value[k] for k in range(0, len(value)))",
            "not in_quotes and len(ret) + len(whitespace) <= len(plain) and all(ret[j] == plain[j] for j in range(0, len(ret)))",
            "all(whitespace[j] == 32 and plain[len(ret) + j] == 32 for j in range(0, len(whitespace)))",
            f"i == {EPOS.format(k='len(ret) + len(whitespace)')}",
        ],
        decreases="len(value_array) - i",
        types={"ret": "bytearray", "whitespace": "bytearray", "value_array": "bytearray"},
    )},
)

# ---- subsection names: _unescape_subsection undoes _escape_subsection (same ghost relation; specials are \\ and ", code = the byte)
def _sub_spec():
    sp = "(plain[k] == 92 or plain[k] == 34)"
    return [
        f"{EPOS.format(k='0')} == 0 and len(E) == {EPOS.format(k='len(plain)')}",
        f"all({EPOS.format(k='k + 1')} == {EPOS.format(k='k')} + (2 if {sp} else 1) for k in range(0, len(plain)))",
        f"all((E[{EPOS.format(k='k')}] == 92 and E[{EPOS.format(k='k')} + 1] == plain[k]) if {sp} else E[{EPOS.format(k='k')}] == plain[k] for k in range(0, len(plain)))",
        f"all(0 <= {EPOS.format(k='k')} and {EPOS.format(k='k')} <= len(E) for k in range(0, len(plain) + 1))",
        f"all({EPOS.format(k='k')} < len(E) for k in range(0, len(plain)))",
    ]
contract(
    prop=["C20"], file=F, func="_unescape_subsection#roundtrip",
    params={"name": "bytes"}, ghost_params={"plain": "bytes", "E": "bytes"}, returns="bytes",
    requires=_sub_spec() + ["len(name) == len(E) and all(name[j] == E[j] for j in range(0, len(name)))"],
    raises={},
    ensures=["len(result) == len(plain)", "all(result[k] == plain[k] for k in range(0, len(plain)))"],
    loops={1: dict(
        invariant=["len(out) <= len(plain) and all(out[j] == plain[j] for j in range(0, len(out)))", f"i == {EPOS.format(k='len(out)')}"],
        decreases="len(name) - i",
        types={"out": "bytearray"},
    )},
)

"""C20 — configuration value codec (dulwich/config.py).  DESIGN.md section 7 C20 / A.5."""
from pyvc.contract import contract

F = "dulwich/config.py"

contract(
    prop=["C20"], file=F, func="_escape_value", trusted=True,
    params={"value": "bytes"}, returns="bytes",
    ensures=["len(result) >= len(value)"],
    note="the replace chain itself is not modelled (bytes.replace with growing replacements); covered by the exhaustive bounded round trip",
)
contract(
    prop=["C20"], file=F, func="_format_string",
    params={"value": "bytes"}, returns="bytes",
    ensures=[
        # the writer quotes exactly the values a reader (dulwich's or git's) would otherwise alter: leading/trailing
        # whitespace, either comment character, CR / VT / FF anywhere
        "not needs_quotes(value) or (len(result) >= len(value) + 2 and result[0] == 34 and result[len(result) - 1] == 34)",
        "len(result) >= len(value)",
    ],
)
contract(
    prop=["C20", "C04"], file=F, func="_parse_string",
    params={"value": "bytes"}, returns="bytes",
    raises={"ValueError": None},        # every byte string yields a value or ValueError: no IndexError / KeyError escapes
    ensures=["len(result) <= len(value)"],
    loops={1: dict(
        invariant=["0 <= i and i <= len(value_array) + 1", "len(ret) + len(whitespace) <= i and len(ret) + len(whitespace) <= len(value_array)", "len(value_array) <= len(value)"],
        decreases="2 * (len(value_array) - i) + (1 if (i < len(value_array) and value_array[i] == 92) else 0)",
        types={"ret": "bytearray", "whitespace": "bytearray", "value_array": "bytearray"},
    )},
)

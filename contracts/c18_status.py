"""C18 — status decision logic (dulwich/index.py).  DESIGN.md section 7 C18.
The file-system half of C18 (checkout, staging, status on real directories) is a bounded stand-in
(bounded/c18_worktree.py).  Under contract here, over ABSTRACT lstat observations:
 - cleanup_mode is the spec function clean_mode for every st_mode;
 - _check_entry_for_changes: the stat shortcut ("unchanged without reading the file") is only reached when the
   object on disk has the same cleaned mode as the index entry - a change of type or of the executable bit is a
   change even if size and time stamps match.  The executable-bit half of this obligation FAILS on the current tree
   (known finding, relativised: see known_findings.jsonl); the type half holds."""
from pyvc.contract import class_spec, contract

IX = "dulwich/index.py"
ANY = "BaseException"

contract(
    prop=["C18"], file=IX, func="cleanup_mode",
    params={"mode": "nat"}, returns="int",
    ensures=["result == clean_mode(mode)"],
)
contract(prop=["C18"], file="dulwich/objects.py", func="S_ISGITLINK", params={"m": "nat"}, returns="bool",
         ensures=["result == (file_type(m) == 14)"])
class_spec(file="<abstract>", cls="StatAbs", fields={"st_mode": "nat", "st_size": "nat"})
class_spec(file="<abstract>", cls="IndexEntryAbs", fields={"mode": "nat", "sha": "opaque", "size": "nat"})
contract(prop=["C18"], file="<stdlib>", func="os.lstat@abs", trusted=True, params={"path": "opaque"}, returns="obj:StatAbs",
         raises={"FileNotFoundError": None, "OSError": None}, note="abstract lstat observation: any st_mode")
contract(prop=["C18"], file="<abstract>", func="_has_directory_changed@abs", trusted=True, params={"tree_path": "bytes", "entry": "opaque"},
         returns="bool", raises={ANY: None}, note="submodule HEAD comparison: abstract, does not modify the entry")
contract(prop=["C18"], file="<abstract>", func="_stat_matches_entry@abs", trusted=True, params={"st": "opaque", "entry": "opaque", "trust_ctime": "bool"},
         returns="bool", raises={ANY: None}, note="time stamp / size comparison: abstract, does not modify the entry")
contract(prop=["C18"], file="<abstract>", func="blob_from_path_and_stat@abs", trusted=True, params={"fs_path": "opaque", "st": "opaque"},
         returns="opaque", raises={ANY: None}, note="reads the file: abstract")
contract(prop=["C18"], file="<abstract>", func="cleanup_mode@spec", trusted=False if False else True, params={"mode": "nat"}, returns="int",
         ensures=["result == clean_mode(mode)"], note="the contract of cleanup_mode proved above, used at its call sites")
contract(prop=["C18"], file="<abstract>", func="verify_leading_dirs@abs18", trusted=True, params={"tree_path": "opaque", "safe_prefix": "opaque", "repo_path": "opaque"},
         returns="None", raises={ANY: None}, note="leading-directory probe: abstract (returns or raises)")
contract(
    prop=["C18"], file=IX, func="_check_entry_for_changes",
    params={"tree_path": "bytes", "entry": "obj:IndexEntryAbs", "root_path": "bytes", "filter_blob_callback": "None", "trust_ctime": "bool", "safe_prefix": "opaque"},
    returns="opaque", raises={ANY: None},
    options={"primitives": {"os.lstat": "os.lstat@abs"}, "callee_contracts": {"_has_directory_changed": ("<abstract>", "_has_directory_changed@abs"),
                                                                                   "verify_leading_dirs": ("<abstract>", "verify_leading_dirs@abs18"),
                                                                                   "_stat_matches_entry": ("<abstract>", "_stat_matches_entry@abs"),
                                                                                   "blob_from_path_and_stat": ("<abstract>", "blob_from_path_and_stat@abs")},
             "asserts": [("mode-compared-before-stat-shortcut", "if _stat_matches_entry(st, entry, trust_ctime):",
                          ["clean_mode(st.st_mode) == clean_mode(entry.mode)"])]},
)


# ---- the "is this file unmodified?" pre-check of a branch switch compares exactly git's notion of the mode ------------
OWNER_X = "(current_stat.st_mode // 64) % 2 == 1"
# the case the obligations speak about: a regular file on disk (16-bit st_mode) and an entry mode of 100644 / 100755
CASE = "(entry_mode == 33188 or entry_mode == 33261) and file_type(current_stat.st_mode) == 8 and current_stat.st_mode < 65536"
contract(
    prop=["C18"], file=IX, func="_check_file_matches",
    params={"repo_object_store": "opaque", "full_path": "opaque", "entry_sha": "opaque", "entry_mode": "nat", "current_stat": "obj:StatAbs",
            "honor_filemode": "bool", "blob_normalizer": "None", "tree_path": "None"},
    returns="bool", raises={ANY: None},
    # (no precondition: callers pass any stat result and any entry mode)
    # a file whose owner executable bit differs from the entry never "matches" (whatever the body looks like)
    ensures=[f"not ({CASE}) or (not honor_filemode) or (result is False) or (({OWNER_X}) == (entry_mode == 33261))"],
    # the mode test fails iff the OWNER executable bit differs (group / other bits, set by umask or chmod 744, are not a
    # modification: git's ce_mode_from_stat)
    options={"asserts": [("mode-test-is-owner-exec-bit", "if current_mode_normalized != expected_mode_normalized:",
                          [f"not ({CASE}) or ((current_mode_normalized != expected_mode_normalized) == (({OWNER_X}) != (entry_mode == 33261)))"])]},
)


# ---- a branch switch leaves the index describing the target tree, path by path ---------------------------------------------
# The Index is viewed abstractly as a map path -> entry (its __getitem__/__setitem__/__delitem__ ARE that map on
# canonical paths; assumed).  Whatever the file system does (every os / shutil call is an abstract primitive that may
# raise), on NORMAL return of a transition the map has changed at `path` only, in the way the target tree demands:
#   _transition_to_absent      the path has left the index (also when the file was already missing, also when a directory
#                              that took its place could not be removed);
#   _transition_to_file / _transition_to_submodule   the path's entry carries the target's object id.
class_spec(file="<abstract>", cls="TargetEntryAbs", fields={"mode": "nat", "sha": "opaque", "path": "opaque"})
_ABS = {
    "os.listdir@abs18": ["path"], "shutil.rmtree@abs18": ["path"], "os.rmdir@abs18": ["path"],
    "_remove_file_with_readonly_handling@abs18": ["path"], "_remove_empty_parents@abs18": ["path", "stop_at"],
    "_ensure_parent_dir_exists@abs18": ["full_path"], "ensure_submodule_placeholder@abs18": ["repo", "path"],
    "build_file_from_blob@abs18": ["blob", "mode", "target_path", "honor_filemode", "tree_encoding", "symlink_fn"],
    "_check_symlink_matches@abs18": ["full_path", "repo_object_store", "entry_sha"],
    "_check_file_matches@abs18": ["repo_object_store", "full_path", "entry_sha", "entry_mode", "current_stat", "honor_filemode", "blob_normalizer", "tree_path"],
}
for _f, _ps in _ABS.items():
    contract(prop=["C18"], file="<abstract>", func=_f, trusted=True, params={p_: "opaque" for p_ in _ps}, returns="opaque", raises={ANY: None},
             note="file-system effect: abstract (any result, may raise); does not touch the index")
contract(prop=["C18"], file="<abstract>", func="index_entry_from_stat@abs18", trusted=True, params={"stat_val": "opaque", "hex_sha": "opaque"},
         returns="opaque", raises={ANY: None}, ensures=["uf('entry_sha', result) is hex_sha"],
         note="index_entry_from_stat records the given object id (dulwich/index.py: sha=hex_sha)")
_FS = {"os.listdir": "os.listdir@abs18", "shutil.rmtree": "shutil.rmtree@abs18", "os.rmdir": "os.rmdir@abs18", "os.lstat": "os.lstat@abs"}
_CC = {k: ("<abstract>", k + "@abs18") for k in ("_remove_file_with_readonly_handling", "_remove_empty_parents", "_ensure_parent_dir_exists",
                                                 "ensure_submodule_placeholder", "build_file_from_blob", "_check_symlink_matches", "_check_file_matches",
                                                 "index_entry_from_stat")}
contract(
    prop=["C18"], file=IX, func="_transition_to_absent",
    params={"repo": "opaque", "path": "bytes", "full_path": "bytes", "current_stat": "obj:StatAbs|None", "index": "dict[bytes,opaque]"},
    returns="None", raises={ANY: None}, modifies=["index"],
    ensures=["dict_del(old(index), index, path) if dict_has(old(index), path) else dict_same(old(index), index)"],
    options={"primitives": _FS, "callee_contracts": _CC},
)
_SET_AT = ["dict_set(old(index), index, path, dict_get(index, path))", "uf('entry_sha', dict_get(index, path)) is entry.sha"]
contract(
    prop=["C18"], file=IX, func="_transition_to_file",
    params={"object_store": "opaque", "path": "bytes", "full_path": "bytes", "current_stat": "obj:StatAbs|None", "entry": "obj:TargetEntryAbs",
            "index": "dict[bytes,opaque]", "honor_filemode": "bool", "symlink_fn": "opaque", "blob_normalizer": "opaque", "tree_encoding": "str"},
    returns="None", raises={ANY: None}, modifies=["index"],
    ensures=_SET_AT,
    options={"primitives": _FS, "callee_contracts": _CC},
)
contract(
    prop=["C18"], file=IX, func="_transition_to_submodule",
    params={"repo": "opaque", "path": "bytes", "full_path": "bytes", "current_stat": "obj:StatAbs|None", "entry": "obj:TargetEntryAbs",
            "index": "dict[bytes,opaque]"},
    returns="None", raises={ANY: None}, modifies=["index"],
    ensures=_SET_AT,
    options={"primitives": _FS, "callee_contracts": _CC},
)

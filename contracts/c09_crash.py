"""C09 — a crash at any instant leaves a consistent repository.  DESIGN.md section 5.3 / 7 C09.
Under the process-crash model every reachable on-disk state is a prefix of the sequence of file-system
calls.  Meta-lemma M4 (assumed): if every *publishing* call (rename to a name readers look up, ref write)
is preceded by everything it makes reachable being durable, and every *deleting* call is preceded by the
publication of what supersedes it, every prefix state is consistent.  The obligations below are these
ordering facts, as ghost preconditions / assertion sites on the real functions."""
from pyvc.contract import REGISTRY, class_spec, contract
from contracts.c07_file import ANY
import contracts.c08_refs  # noqa: F401  (registers the commit / ref contracts extended below)

OS = "dulwich/object_store.py"

# ---- pack installation: payload flushed (fsynced when enabled) -> .pack renamed -> .idx written/published -------
class_spec(file=OS, cls="DiskObjectStore", fields={"fsync_object_files": "bool", "pack_published": "bool"},
           stable=["fsync_object_files", "pack_published"], mutators=[])
contract(prop=["C09"], file="<stdlib>", func="os.fsync@pack", trusted=True,
         params={"fd": "opaque"}, free={"f": "obj:FileAbs"}, returns="None", modifies=["f.synced"],
         raises={ANY: ["f.synced == old(f.synced)"]}, ensures=["f.synced"])
contract(prop=["C09"], file="<stdlib>", func="os.rename@pack", trusted=True,
         params={"src": "opaque", "dst": "opaque"}, free={"f": "obj:FileAbs", "self": "obj:DiskObjectStore"}, returns="None",
         # the temporary pack is complete on disk before it appears under its final name
         requires=["f.flushed", "(not self.fsync_object_files) or f.synced"],
         modifies=["self.pack_published"],
         raises={ANY: ["self.pack_published == old(self.pack_published)"]}, ensures=["self.pack_published"])
_c = REGISTRY[(OS, "DiskObjectStore._complete_pack")]
_c.prop = sorted(set(_c.prop) | {"C09"})
_c.params = dict(_c.params, self="obj:DiskObjectStore", f="obj:FileAbs")
_c.requires = list(_c.requires) + ["not self.pack_published", "not f.flushed", "not f.synced"]
_c.modifies = list(_c.modifies) + ["f.flushed", "f.synced", "self.pack_published", "entries"]
_c.options = dict(_c.options, primitives={"os.fsync": "os.fsync@pack", "os.rename": "os.rename@pack"},
                  asserts=[("idx-after-pack", "write_pack_index(", ["self.pack_published"])])

# ---- packing refs: loose refs are pruned only after the new packed-refs file has been published ------------------
_c = REGISTRY[("dulwich/refs.py", "DiskRefsContainer._add_packed_refs")]
_c.prop = sorted(set(_c.prop) | {"C09"})
_c.options = dict(_c.options, asserts=[("prune-after-publish", "self._prune_loose_ref(", ["f.committed"])])

# ---- commit: the commit object is in the store before the branch is swapped to it -------------------------------
class_spec(file="<abstract>", cls="ObjStoreAbs", fields={})
for _key, _site in ((("dulwich/worktree.py", "WorkTree.commit"), "ok = self._repo.refs.set_if_equals("),
                    (("dulwich/repo.py", "MemoryRepo.do_commit"), "ok = self.refs.set_if_equals(")):
    _c = REGISTRY[_key]
    _c.prop = sorted(set(_c.prop) | {"C09"})
    _c.options = dict(_c.options, opaque_posts={"add_object": ["upred('stored', arg0)"]},
                      asserts=list(_c.options.get("asserts", [])) + [
        ("object-before-ref", _site, ["upred('stored', c)"]),
        ("object-before-ref-new", _site.replace("set_if_equals", "add_if_new"), ["upred('stored', c)"]),
    ])

"""C10 — maintenance never loses reachable objects.  DESIGN.md section 7 C10.
Sequential half only.  Under contract (mode C, ordering / selection discipline on the real functions):
 - pack_loose_objects and repack delete loose objects and old packs only AFTER add_objects() has returned (the pack
   holding them is installed: C09's _complete_pack obligations), and repack never removes the consolidated pack;
 - find_unreachable_objects returns only objects that are NOT in the reachable set computed by find_reachable_objects
   (selection: nothing reachable is ever handed to a deleting routine), for every store content.
The reachability walk itself (find_reachable_objects, a worklist closure over commits/trees/tags) and every end-to-end
effect are a bounded stand-in (bounded/c10_maintenance.py).  Readers interleaved with a repacking process (the schedule
quantifier of C10) are outside per-function contracts: not covered."""
from pyvc.contract import class_spec, contract

OS = "dulwich/object_store.py"
GC = "dulwich/gc.py"
ANY = "BaseException"

class_spec(file="<abstract>", cls="PackStoreAbs", fields={"installed": "bool"}, stable=["installed"])
contract(prop=["C10"], file="<abstract>", func="PackStoreAbs.add_objects@ghost", trusted=True,
         params={"self": "obj:PackStoreAbs", "objects": "opaque", "progress": "opaque"}, returns="opaque", modifies=["self.installed"],
         raises={ANY: ["self.installed == old(self.installed)"]}, ensures=["self.installed"],
         note="ghost marker: add_objects returned, i.e. the pack with these objects is installed (pack + index published: C09)")
contract(prop=["C10"], file="<abstract>", func="PackStoreAbs.delete_loose_object@ghost", trusted=True,
         params={"self": "obj:PackStoreAbs", "sha": "opaque"}, returns="None", raises={ANY: None},
         requires=["self.installed"], note="a loose object is unlinked only after the pack that now holds it is installed")
contract(prop=["C10"], file="<abstract>", func="PackStoreAbs._remove_pack@ghost", trusted=True,
         params={"self": "obj:PackStoreAbs", "pack": "opaque"}, returns="None", raises={ANY: None},
         requires=["self.installed"], note="an old pack is removed only after the consolidated pack is installed")
CC = {"PackStoreAbs.add_objects": ("<abstract>", "PackStoreAbs.add_objects@ghost"),
      "PackStoreAbs.delete_loose_object": ("<abstract>", "PackStoreAbs.delete_loose_object@ghost"),
      "PackStoreAbs._remove_pack": ("<abstract>", "PackStoreAbs._remove_pack@ghost")}
contract(
    prop=["C10"], file=OS, func="PackBasedObjectStore.pack_loose_objects",
    params={"self": "obj:PackStoreAbs", "progress": "opaque"}, returns="opaque", raises={ANY: None},
    requires=["not self.installed"], modifies=["self.installed"],
    loops={2: dict(invariant=["self.installed"])},
    options={"callee_contracts": CC, "default_param": "opaque"},
)

# ---- selection: nothing reachable is ever declared unreachable ------------------------------------------------------
contract(prop=["C10"], file="<abstract>", func="find_reachable_objects@abs", trusted=True,
         params={"object_store": "opaque", "refs_container": "opaque", "include_reflogs": "opaque", "progress": "opaque"},
         returns="opaque", raises={ANY: None},
         note="ASSUMED (bounded stand-in c10_maintenance): returns the closure of the refs; here only an untracked, unmutated set")
contract(
    prop=["C10"], file=GC, func="find_unreachable_objects",
    params={"object_store": "opaque", "refs_container": "opaque", "include_reflogs": "opaque", "progress": "opaque"},
    returns="set[opaque]", raises={ANY: None},
    loops={1: dict(invariant=["all(not member(reachable, x) for x in unreachable)"], types={"unreachable": "set[opaque]"})},
    ensures=["all(not member(reachable, x) for x in result)"],
    options={"callee_contracts": {"find_reachable_objects": ("<abstract>", "find_reachable_objects@abs")}, "immutable_sets": ["reachable"]},
)

contract(prop=["C10"], file="<abstract>", func="PackStoreAbs.delete_loose_object@any", trusted=True,
         params={"self": "obj:PackStoreAbs", "sha": "opaque"}, returns="None", raises={ANY: None})
contract(prop=["C10"], file="<abstract>", func="PackStoreAbs._remove_pack@any", trusted=True,
         params={"self": "obj:PackStoreAbs", "pack": "opaque"}, returns="None", raises={ANY: None})
SAFE = "self.installed or not objects"
contract(
    prop=["C10"], file=OS, func="PackBasedObjectStore.repack",
    params={"self": "obj:PackStoreAbs", "exclude": "opaque", "progress": "opaque"}, returns="opaque", raises={ANY: None},
    requires=["not self.installed"], modifies=["self.installed"],
    loops={k: dict(invariant=[SAFE]) for k in (3, 4, 5)},
    options={"callee_contracts": {"PackStoreAbs.add_objects": ("<abstract>", "PackStoreAbs.add_objects@ghost"),
                                  "PackStoreAbs.delete_loose_object": ("<abstract>", "PackStoreAbs.delete_loose_object@any"),
                                  "PackStoreAbs._remove_pack": ("<abstract>", "PackStoreAbs._remove_pack@any")},
             "default_param": "opaque",
             # packed loose objects and old packs go away only once the consolidated pack is installed (or there was nothing to pack);
             # EXCLUDED loose objects (the caller's prune set) may be deleted regardless
             "asserts": [("loose-deleted-after-install", "self.delete_loose_object(obj.id)", [SAFE]),
                         ("old-pack-removed-after-install", "self._remove_pack(pack)", [SAFE])]},
)

# ---- the reachability walk, step by step: whatever object is processed, all its children end up in `reachable` -------
# (worklist STEP; that the walk then yields the whole closure is the usual worklist argument: every member of `reachable`
#  is queued when it is added, the loop ends only on an empty queue - stated, assumed, and bounded-checked end to end)
contract(
    prop=["C10"], file=GC, func="find_reachable_objects",
    params={"object_store": "opaque", "refs_container": "opaque", "include_reflogs": "opaque", "progress": "opaque"},
    returns="set[opaque]", raises={ANY: None},
    loops={
        1: dict(invariant=["True"], types={"reachable": "set[opaque]", "pending": "opaque"}),
        2: dict(invariant=["True"], types={"reachable": "set[opaque]", "pending": "opaque"}),
        3: dict(invariant=["obj.tree in reachable", "all(elem(_seq3, j) in reachable for j in range(0, _it3))"], types={"reachable": "set[opaque]", "pending": "opaque"}),
        4: dict(invariant=["all(elem(_seq4, j).sha in reachable for j in range(0, _it4))"], types={"reachable": "set[opaque]", "pending": "opaque"}),
    },
    options={"asserts": [("tag-target-marked", ">if obj.object[1] not in reachable:", ["obj.object[1] in reachable"]),
                         ("ref-target-marked", ">if sha and sha not in reachable:", ["not sha or sha in reachable"])]},
)


# ---- the grace period: an object is deleted only if it was selected as unreachable AND (no grace period, or its age has reached it) ----
# Time stamps are treated as mathematical integers (time.time() / st_mtime are floats in the code: rounding is not modelled).
class_spec(file="<abstract>", cls="PruneStoreAbs", fields={})
contract(prop=["C10"], file="<abstract>", func="PruneStoreAbs.__getitem__@abs", trusted=True, params={"self": "obj:PruneStoreAbs", "sha": "opaque"},
         returns="opaque", raises={ANY: None})
contract(prop=["C10"], file="<abstract>", func="PruneStoreAbs.get_object_mtime@abs", trusted=True, params={"self": "obj:PruneStoreAbs", "sha": "opaque"},
         returns="int", raises={ANY: None}, note="any time stamp; may raise KeyError")
contract(prop=["C10"], file="<abstract>", func="PruneStoreAbs.delete_loose_object@abs", trusted=True, params={"self": "obj:PruneStoreAbs", "sha": "opaque"},
         returns="None", raises={ANY: None})
contract(prop=["C10"], file="<stdlib>", func="time.time@abs", trusted=True, params={}, returns="int", raises={}, note="any instant (integer model of the clock)")
contract(prop=["C10"], file="<abstract>", func="find_unreachable_objects@sel", trusted=True,
         params={"object_store": "opaque", "refs_container": "opaque", "include_reflogs": "opaque", "progress": "opaque"},
         returns="set[opaque]", raises={ANY: None}, ensures=["all(upred('selected_unreachable', x) for x in result)"],
         note="the selection proved above (find_unreachable_objects: nothing in the reachable set is returned), named by a ghost predicate")
_PRUNE_OPTS = {"callee_contracts": {"find_unreachable_objects": ("<abstract>", "find_unreachable_objects@sel"),
                                    "PruneStoreAbs.__getitem__": ("<abstract>", "PruneStoreAbs.__getitem__@abs"),
                                    "PruneStoreAbs.get_object_mtime": ("<abstract>", "PruneStoreAbs.get_object_mtime@abs"),
                                    "PruneStoreAbs.delete_loose_object": ("<abstract>", "PruneStoreAbs.delete_loose_object@abs")},
               "primitives": {"time.time": "time.time@abs"}}
contract(
    prop=["C10"], file=GC, func="prune_unreachable_objects",
    params={"object_store": "obj:PruneStoreAbs", "refs_container": "opaque", "grace_period": "int|None", "dry_run": "bool", "progress": "None"},
    returns="opaque", raises={ANY: None},
    loops={1: dict(invariant=["True"], types={"age": "int", "mtime": "int", "pruned": "set[opaque]"})},
    options=dict(_PRUNE_OPTS, asserts=[("deleted-only-if-selected-and-old-enough", "object_store.delete_loose_object(sha)",
                                        ["upred('selected_unreachable', sha)", "grace_period is None or age >= grace_period"])]),
)
class_spec(file="<abstract>", cls="GcStoreAbs", fields={"packs": "opaque"})
class_spec(file="<abstract>", cls="GcRepoAbs", fields={"object_store": "obj:GcStoreAbs", "refs": "opaque"})
_GC_METHODS = {"__getitem__": (["sha"], "opaque"), "get_object_mtime": (["sha"], "int"), "delete_loose_object": (["sha"], "None"),
               "count_loose_objects": ([], "int"), "contains_loose": (["sha"], "bool"), "repack": (["exclude", "progress"], "opaque"),
               "prune": (["grace_period"], "None")}
for _m, (_ps, _r) in _GC_METHODS.items():
    contract(prop=["C10"], file="<abstract>", func=f"GcStoreAbs.{_m}@abs", trusted=True, params=dict({"self": "obj:GcStoreAbs"}, **{p_: "opaque" for p_ in _ps}),
             returns=_r, raises={ANY: None}, note="abstract store operation: any result, may raise")
contract(
    prop=["C10"], file=GC, func="garbage_collect",
    params={"repo": "obj:GcRepoAbs", "auto": "bool", "aggressive": "bool", "prune": "bool", "grace_period": "int|None", "dry_run": "bool", "progress": "None"},
    returns="opaque", raises={ANY: None},
    loops={1: dict(invariant=["all(upred('selected_unreachable', x) for x in unreachable_to_prune)"],
                   types={"age": "int", "mtime": "int", "unreachable_to_prune": "set[opaque]"}),
           2: dict(invariant=["True"], types={"unreachable_to_prune": "set[opaque]"})},
    options={"callee_contracts": dict({"find_unreachable_objects": ("<abstract>", "find_unreachable_objects@sel")},
                                      **{f"GcStoreAbs.{m_}": ("<abstract>", f"GcStoreAbs.{m_}@abs") for m_ in _GC_METHODS}),
             "primitives": {"time.time": "time.time@abs"},
             "asserts": [("selected-for-pruning-only-if-unreachable-and-old-enough", "unreachable_to_prune.add(sha)",
                          ["upred('selected_unreachable', sha)", "grace_period is None or age >= grace_period"]),
                         ("deleted-only-if-selected", "object_store.delete_loose_object(sha)", ["upred('selected_unreachable', sha)"])]},
)

"""Obligations added to contracts that other modules own (loaded last)."""
from pyvc.contract import REGISTRY
import contracts.c07_file  # noqa: F401

P = "dulwich/pack.py"
# ---- C02: index v2/v3 offset table: an offset is stored inline only if its top bit is clear (readers take a set top bit as an
#      index into the 64-bit table); everything else goes through the large table.  Assert sites on the writers that C07 already has
#      under contract (frame condition on the lock handle); a pattern that matches no statement is reported stale.
for _fn, _site in (("write_pack_index_v2", 'f_writer.write(struct.pack(b">L", offset))'), ("write_pack_index_v3", 'f.write(struct.pack(b">L", offset))')):
    _c = REGISTRY[(P, _fn)]
    _c.prop = sorted(set(_c.prop) | {"C02"})
    _c.options = dict(_c.options, asserts=list(_c.options.get("asserts", [])) + [("inline-offset-has-top-bit-clear", _site, ["offset < 2 ** 31"])])

# ---- C08: the read-modify-write of packed-refs happens under packed-refs.lock: the table that is modified and written back is
#      (re)read while the lock on that very file is held (a table read before the lock loses a concurrent delete / create)
import contracts.c08_refs  # noqa: F401,E402
R = "dulwich/refs.py"
for _fn, _pathvar in (("DiskRefsContainer._add_packed_refs", "path"), ("DiskRefsContainer._remove_packed_ref", "filename")):
    _c = REGISTRY[(R, _fn)]
    _c.options = dict(_c.options, asserts=list(_c.options.get("asserts", [])) + [("table-read-under-packed-refs-lock", "=packed_refs = self.get_packed_refs().copy()", [f"holds_lock({_pathvar})"])])

# ---- C08 / C09: a delete removes the packed entry BEFORE the loose file (while the loose file exists it shadows the packed one:
#      no reader, no crash and no held packed-refs.lock can make a stale packed value visible)
import contracts.c16_refs  # noqa: F401,E402
_c = REGISTRY[(R, "DiskRefsContainer.remove_if_equals")]
_c.prop = sorted(set(_c.prop) | {"C09"})
_c.options = dict(_c.options, asserts=list(_c.options.get("asserts", [])) + [("packed-entry-removed-before-loose-file", "os.remove(filename)", ["upred('unpacked', name)"])])

# ---- C06: "a delete reported ok stays deleted" rests on remove_if_equals also removing the packed copy (the obligations that
#      DiskRefsContainer.remove_if_equals already carries for C16 / C09 are run by the C06 check as well)
_c = REGISTRY[(R, "DiskRefsContainer.remove_if_equals")]
_c.prop = sorted(set(_c.prop) | {"C06"})

"""Executable (concrete) definitions of the spec functions; pure Python, importable without z3."""


def le128(b, lo, hi):
    return sum((b[k] & 0x7F) << (7 * (k - lo)) for k in range(lo, hi))


def msb_end(b, i):
    j = i
    while j < len(b) and b[j] >= 128:
        j += 1
    return j + 1 if j < len(b) else -1


def join(x):
    if isinstance(x, (bytes, bytearray, memoryview)):
        return bytes(x)
    return b"".join(bytes(c) for c in x)


def count(x):
    return len(x)


def implies(a, b):
    return (not a) or bool(b)


def iff(a, b):
    return bool(a) == bool(b)


def is_none(a):
    return a is None


def pow2(n):
    return 2 ** n


CONC = {k: v for k, v in list(globals().items()) if callable(v) and not k.startswith("_")}


def ofsval(b, lo, hi):
    """value of the OFS_DELTA offset encoding b[lo:hi] (git: big-endian base-128 with +1 per continuation)."""
    v = b[lo] & 0x7F
    for k in range(lo + 1, hi):
        v = ((v + 1) << 7) + (b[k] & 0x7F)
    return v


CONC = {k: v for k, v in list(globals().items()) if callable(v) and not k.startswith("_")}

"""Spec functions: each has a symbolic definition (z3, with on-demand unfolding facts) and an
executable Python definition (used in replays, bounded stand-ins, and validation of the symbolic
definition against CPython).

Soundness rule: a symbolic definition may only assume facts that are (a) one-step unfoldings of
the function's own recursive definition, or (b) lemmas registered in LEMMA_FACTS, each of which is
proved by induction in the lemma library on every run (pyvc/lemmas.py).
"""
from __future__ import annotations

import z3

from .engine import EngineError, OutOfSubset
from .models import as_int, const_of, pow2, pow2_f
from .values import (NONE, VBool, VChunks, VInt, VNone, VOpaque, VRef, VSeq, VStr, VTuple, fresh_arr, fresh_bool,
                     fresh_bound, fresh_int, fresh_name, seq_concat, seq_const, seq_from_array, seq_slice_raw)
from .verify import SpecFn

SPECS: dict[str, SpecFn] = {}

IntS = z3.IntSort()
ArrS = z3.ArraySort(IntS, IntS)


from . import specs_conc


def spec(name, conc=None, doc=""):
    def deco(fn):
        SPECS[name] = SpecFn(name, fn, specs_conc.CONC.get(name, conc), doc)
        return fn
    return deco


def to_array(eng, v: VSeq):
    """An array term equal to the sequence on its index range (materialised on demand)."""
    if v.arr is not None:
        return v.arr
    cached = getattr(v, "_mat", None)
    if cached is not None:
        return cached
    a = fresh_arr("mat")
    k = fresh_bound("k")
    eng.assume(z3.ForAll([k], z3.Implies(z3.And(0 <= k, k < v.n), a[k] == v.at(k)), patterns=[a[k]]))
    v._mat = a
    for part, start in getattr(v, "parts", None) or []:
        if part.arr is not None:
            # a[k] == part.arr[k + delta] for start <= k < start + part.n
            eng.agree.setdefault(a.get_id(), []).append((part.arr, start, z3.simplify(start + part.n), z3.simplify(part.off - start)))
    return a


def agreements(eng, A):
    return eng.agree.get(A.get_id(), [])


def arr_off(eng, v: VSeq):
    """(array, offset) with v[k] == array[offset + k] on the index range of v."""
    if v.arr is not None:
        return v.arr, v.off
    return to_array(eng, v), z3.IntVal(0)


def seqarg(eng, v):
    v = eng.deref(v)
    if isinstance(v, VChunks):
        v = v.join
    if not isinstance(v, VSeq):
        raise EngineError(f"spec function expects a sequence, got {v!r}")
    return v


# ----------------------------------------------------------------------------------------------
# little-endian base-128 value of b[lo:hi] (each byte contributes its low 7 bits)
# ----------------------------------------------------------------------------------------------
le128_f = z3.Function("le128", ArrS, IntS, IntS, IntS)


def le128_conc(b, lo, hi):
    return sum((b[k] & 0x7F) << (7 * (k - lo)) for k in range(lo, hi))


def le128_frame(eng, A, lo, hi):
    """LEMMA le128_store_frame: a store at an index >= hi does not change le128(A, lo, hi)."""
    t = le128_f(A, lo, hi)
    cur = A
    if "le128_frame" in eng.disabled_facts:
        return t
    for _ in range(3):
        if not z3.is_store(cur):
            break
        base, idx, _v = cur.children()
        eng.assume(z3.Implies(idx >= hi, le128_f(cur, lo, hi) == le128_f(base, lo, hi)))
        cur = base
    return t


def le128_unfold(eng, A, lo, hi, depth=1):
    t = le128_f(A, lo, hi)
    eng.assume(z3.Implies(hi <= lo, t == 0))
    p = pow2(eng, 7 * (hi - 1 - lo))
    if p is None:
        p = z3.IntVal(1)
    eng.assume(z3.Implies(hi > lo, t == le128_f(A, lo, hi - 1) + (A[hi - 1] % 128) * p))
    if "le128_bound" not in eng.disabled_facts:
        eng.assume(t >= 0)
        eng.assume(le128_f(A, lo, hi - 1) >= 0)
    le128_frame(eng, A, lo, hi)
    le128_frame(eng, A, lo, hi - 1)
    return t


@spec("le128", le128_conc, "sum of (b[k] & 0x7f) << 7*(k-lo) for lo <= k < hi")
def le128_sym(eng, b, lo, hi):
    b = seqarg(eng, b)
    A, off = arr_off(eng, b)
    lo_t, hi_t = z3.simplify(as_int(eng, lo) + off), z3.simplify(as_int(eng, hi) + off)
    if not eng.goal_mode:
        # assumed occurrence: the term only (its unfolding is added when a goal mentions it)
        t = le128_f(A, lo_t, hi_t)
        if "le128_bound" not in eng.disabled_facts:
            eng.assume(t >= 0)
        le128_frame(eng, A, lo_t, hi_t)
        return VInt(t)
    t = le128_unfold(eng, A, lo_t, hi_t)
    # bound lemma (LEMMA le128_bound): value < 128**(hi-lo)
    if "le128_bound" not in eng.disabled_facts:
        p = pow2(eng, 7 * (hi_t - lo_t))
        if p is not None:
            eng.assume(z3.Implies(hi_t >= lo_t, t < p))
    if "le128_shift_ext" not in eng.disabled_facts:
        for B, alo, ahi, delta in agreements(eng, A):       # LEMMA le128_shift_ext
            eng.assume(z3.Implies(z3.And(alo <= lo_t, hi_t <= ahi), t == le128_f(B, lo_t + delta, hi_t + delta)))
            # the piece's own definitional unfolding and store-frame facts (the piece may be a Store chain the
            # invariants speak about): one step, on the shifted window
            le128_unfold(eng, B, z3.simplify(lo_t + delta), z3.simplify(hi_t + delta))
    return VInt(t)


@spec("store", lambda b, i, x: bytes(b[:i]) + bytes([x]) + bytes(b[i + 1:]) if i < len(b) else bytes(b), "b with element i replaced by x")
def store_sym(eng, b, i, x):
    from .values import seq_store
    b = seqarg(eng, b)
    if b.arr is None:
        A = to_array(eng, b)
        b = seq_from_array(A, b.n, b.kind)
    return seq_store(b, as_int(eng, i), as_int(eng, x))


@spec("pow2", lambda n: 2 ** n)
def pow2_sym(eng, n):
    t = pow2(eng, as_int(eng, n))
    return VInt(t)


# ----------------------------------------------------------------------------------------------
# sequence helpers usable in contracts
# ----------------------------------------------------------------------------------------------
def join_conc(x):
    if isinstance(x, (bytes, bytearray)):
        return bytes(x)
    return b"".join(bytes(c) for c in x)


@spec("join", join_conc, "concatenation of a list of byte strings")
def join_sym(eng, x):
    v = eng.deref(x)
    if isinstance(v, VChunks):
        return VSeq(v.join.at, v.join.n, "bytes", v.join.arr, "int", v.join.off)
    if isinstance(v, VSeq):
        if getattr(v, "untyped_empty", False):
            return seq_const(b"")
        return VSeq(v.at, v.n, "bytes", v.arr, "int", v.off)
    raise EngineError(f"join of {v!r}")


@spec("count", lambda x: len(x), "number of chunks")
def count_sym(eng, x):
    v = eng.deref(x)
    if isinstance(v, VChunks):
        return VInt(v.count)
    if isinstance(v, VSeq):
        return VInt(v.n)
    raise EngineError(f"count of {v!r}")


@spec("implies", lambda a, b: (not a) or b)
def implies_sym(eng, a, b):
    return VBool(z3.Implies(eng.truth(a), eng.truth(b)))


@spec("iff", lambda a, b: bool(a) == bool(b))
def iff_sym(eng, a, b):
    return VBool(eng.truth(a) == eng.truth(b))


@spec("is_none", lambda a: a is None)
def is_none_sym(eng, a):
    from .models import compare
    import ast as _ast
    return VBool(compare(eng, _ast.Is(), a, NONE, None))


# ----------------------------------------------------------------------------------------------
# spec functions written as straight-line executable Python (contracts/specs_py.py):
# assignments of expressions (conditional expressions, quantifiers) and one return.
# The symbolic definition is obtained by evaluating that very AST in spec mode.
# ----------------------------------------------------------------------------------------------
def register_pyspecs(py_module, verif_root):
    import ast
    import inspect
    import os
    from .engine import Frame, ModuleInfo
    rel = os.path.relpath(py_module.__file__, verif_root)
    info = ModuleInfo.get(verif_root, rel)
    for name, node in info.defs.items():
        if not isinstance(node, ast.FunctionDef) or name.startswith("_"):
            continue
        conc = getattr(py_module, name)

        def sym(eng, *args, _node=node, _name=name, _info=info, **kw):
            fr = Frame(_info, _name)
            params = [p.arg for p in _node.args.args]
            if len(args) != len(params):
                raise EngineError(f"spec {_name} expects {len(params)} arguments")
            fr.env.update(zip(params, args))
            saved = (eng.spec, eng.spec_env)
            eng.spec = True
            eng.spec_env = {}
            try:
                for st in _node.body:
                    if isinstance(st, ast.Expr) and isinstance(st.value, ast.Constant):
                        continue
                    if isinstance(st, ast.Assign):
                        v = eng.eval(st.value, fr)
                        for t in st.targets:
                            eng.assign(t, v, fr)
                    elif isinstance(st, ast.Return):
                        return eng.eval(st.value, fr)
                    else:
                        raise EngineError(f"spec {_name}: statement {type(st).__name__} not allowed")
            finally:
                eng.spec, eng.spec_env = saved
            raise EngineError(f"spec {_name}: no return")

        SPECS[name] = SpecFn(name, sym, conc, (ast.get_docstring(node) or ""))


# ----------------------------------------------------------------------------------------------
# msb_end(b, i): index just after the first byte < 128 at or after i (end of an MSB-continued run)
# ----------------------------------------------------------------------------------------------
msb_end_f = z3.Function("msb_end", ArrS, IntS, IntS)


def msb_end_conc(b, i):
    j = i
    while j < len(b) and b[j] >= 128:
        j += 1
    return j + 1 if j < len(b) else -1


@spec("msb_end", msb_end_conc, "index after the first byte < 128 at or after i")
def msb_end_sym(eng, b, i):
    b = seqarg(eng, b)
    A, off = arr_off(eng, b)
    it = z3.simplify(as_int(eng, i) + off)
    t = msb_end_f(A, it)
    # one-step unfolding of the definition
    eng.assume(z3.Implies(A[it] < 128, t == it + 1))
    eng.assume(z3.Implies(A[it] >= 128, t == msb_end_f(A, it + 1)))
    return VInt(z3.simplify(t - off))


@spec("msb_run", lambda b, lo, hi: lo < hi and all(b[k] >= 128 for k in range(lo, hi - 1)) and b[hi - 1] < 128,
      "b[lo:hi] is one complete MSB-continued run: continuation bits on all bytes but the last")
def msb_run_sym(eng, b, lo, hi):
    b = seqarg(eng, b)
    lo_t, hi_t = as_int(eng, lo), as_int(eng, hi)
    k = fresh_bound("k")
    body = z3.And(lo_t < hi_t, z3.ForAll([k], z3.Implies(z3.And(lo_t <= k, k < hi_t - 1), b.at(k) >= 128)), b.at(hi_t - 1) < 128)
    if "msb_run_end" not in eng.disabled_facts:
        # LEMMA msb_run_end: a complete run starting at lo ends exactly at hi
        A, off = arr_off(eng, b)
        eng.assume(z3.Implies(body, msb_end_f(A, lo_t + off) == hi_t + off))
    return VBool(body)


@spec("set_field", None, "harness helper: assign a (ghost) field of an object")
def set_field_sym(eng, obj, name, value):
    eng.set_attr(obj, name.s, value, None)
    return NONE


@spec("handling_exception", lambda: False, "the caller is inside an except arm, or a finally arm entered by an exception")
def handling_exception_sym(eng):
    f = eng.cur_frame
    h = False
    while f is not None and not h:
        h = f.cur_exc is not None or getattr(f, "in_exc_finally", 0) > 0
        f = None
    return VBool(h)


@spec("uf", None, "application of an uninterpreted (pure, deterministic) function named by the first argument")
def uf_sym(eng, name, *args):
    from .models import to_val
    from .values import Val
    f = z3.Function("uf_" + name.s, *([Val] * len(args) + [Val]))
    return VOpaque(f(*[to_val(eng, a) for a in args]), tag="uf:" + name.s)


@spec("ufi", None, "integer-valued uninterpreted function of integer arguments (ghost measure), named by the first argument")
def ufi_sym(eng, name, *args):
    f = z3.Function("ufi_" + name.s, *([IntS] * (len(args) + 1)))
    ints = [as_int(eng, a) for a in args]
    if any(t is None for t in ints):
        raise EngineError("ufi: non-integer argument")
    return VInt(f(*ints))


@spec("member", None, "ghost: x in <untracked container the function never mutates> (contract option immutable_sets)")
def member_sym(eng, container, x):
    from .models import member_f, to_val
    return VBool(member_f(to_val(eng, container), to_val(eng, x)))


@spec("holds_lock", None, "some lock handle of this actor is open on exactly this path (owns, not closed)")
def holds_lock_sym(eng, path):
    from .models import to_val
    from .values import VObj
    pt = to_val(eng, path)
    alts = []
    for addr, o in eng.heap.items():
        if isinstance(o, VObj) and o.cls == "_GitFile":
            fn = o.fields.get("_filename")
            owns = o.fields.get("owns")
            closed = o.fields.get("_closed")
            if fn is None or owns is None or closed is None:
                continue
            alts.append(z3.And(owns.t, z3.Not(closed.t), to_val(eng, fn) == pt))
    return VBool(z3.Or(alts) if alts else z3.BoolVal(False))


@spec("upred", None, "application of an uninterpreted predicate named by the first argument")
def upred_sym(eng, name, *args):
    from .models import to_val
    from .values import Val
    f = z3.Function("up_" + name.s, *([Val] * len(args) + [z3.BoolSort()]))
    return VBool(f(*[to_val(eng, a) for a in args]))


# ----------------------------------------------------------------------------------------------
# ofsval(b, lo, hi): value of the OFS_DELTA base-offset encoding b[lo:hi]  (hi > lo)
#   ofsval(b, lo, lo+1) = b[lo] % 128 ;  ofsval(b, lo, hi) = (ofsval(b, lo, hi-1) + 1) * 128 + b[hi-1] % 128
# ----------------------------------------------------------------------------------------------
ofsval_f = z3.Function("ofsval", ArrS, IntS, IntS, IntS)


@spec("ofsval", None, "value of the OFS_DELTA offset encoding b[lo:hi]")
def ofsval_sym(eng, b, lo, hi):
    b = seqarg(eng, b)
    A, off = arr_off(eng, b)
    lo_t, hi_t = z3.simplify(as_int(eng, lo) + off), z3.simplify(as_int(eng, hi) + off)
    t = ofsval_f(A, lo_t, hi_t)
    # one-step unfolding of the definition
    eng.assume(z3.Implies(hi_t == lo_t + 1, t == A[lo_t] % 128))
    eng.assume(z3.Implies(hi_t > lo_t + 1, t == (ofsval_f(A, lo_t, hi_t - 1) + 1) * 128 + A[hi_t - 1] % 128))
    if "ofsval_bound" not in eng.disabled_facts:
        eng.assume(z3.Implies(hi_t > lo_t, t >= 0))
        eng.assume(z3.Implies(hi_t - 1 > lo_t, ofsval_f(A, lo_t, hi_t - 1) >= 0))
    if "ofsval_prepend" not in eng.disabled_facts and eng.goal_mode:
        # LEMMA ofsval_prepend: peeling the first byte instead of the last
        p = pow2(eng, 7 * (hi_t - lo_t - 1))
        if p is not None:
            eng.assume(z3.Implies(hi_t > lo_t + 1, t == (A[lo_t] % 128 + 1) * p + ofsval_f(A, lo_t + 1, hi_t)))
            eng.assume(z3.Implies(hi_t > lo_t + 1, ofsval_f(A, lo_t + 1, hi_t) >= 0))
    if "ofsval_shift_ext" not in eng.disabled_facts:
        for B, alo, ahi, delta in agreements(eng, A):       # LEMMA ofsval_shift_ext
            eng.assume(z3.Implies(z3.And(alo <= lo_t, hi_t <= ahi, lo_t < hi_t), t == ofsval_f(B, lo_t + delta, hi_t + delta)))
    if "ofsval_frame" not in eng.disabled_facts:
        cur = A
        for _ in range(3):       # LEMMA ofsval_store_frame: a store outside [lo, hi) does not change the value
            if not z3.is_store(cur):
                break
            base, idx, _v = cur.children()
            for l2, h in ((lo_t, hi_t), (lo_t, hi_t - 1), (lo_t + 1, hi_t)):
                eng.assume(z3.Implies(z3.And(l2 < h, z3.Or(idx >= h, idx < l2)), ofsval_f(cur, l2, h) == ofsval_f(base, l2, h)))
            cur = base
    return VInt(t)


@spec("uf_bytes", None, "an uninterpreted byte string determined by integer arguments (e.g. an object header)")
def uf_bytes_sym(eng, name, *args):
    ints = [as_int(eng, a) for a in args]
    arr = z3.Function("ufb_arr_" + name.s, *([IntS] * len(ints) + [ArrS]))(*ints)
    ln = z3.Function("ufb_len_" + name.s, *([IntS] * len(ints) + [IntS]))(*ints)
    eng.assume(ln >= 0)
    return seq_from_array(arr, ln, "bytes")


def _dict_of(eng, d):
    from .values import VDict
    v = eng.deref(d)
    if not isinstance(v, VDict):
        raise EngineError("dict spec function on a value that is not a tracked dict")
    return v


@spec("dict_has", None, "key in d (tracked dict)")
def dict_has_sym(eng, d, k):
    from .models import dict_key
    v = _dict_of(eng, d)
    return VBool(v.present[dict_key(eng, v, k, None)])


@spec("dict_get", None, "d[key] (tracked dict; unconstrained where the key is absent)")
def dict_get_sym(eng, d, k):
    from .models import dict_key, from_sort
    v = _dict_of(eng, d)
    return from_sort(eng, v.vsort, v.value[dict_key(eng, v, k, None)])


@spec("dict_same", None, "the two tracked dicts have the same keys and values (whole-view equality)")
def dict_same_sym(eng, a, b):
    x, y = _dict_of(eng, a), _dict_of(eng, b)
    k = z3.Const(fresh_bound("dk").decl().name() + "!v", x.present.sort().domain())
    return VBool(z3.And(x.present == y.present, z3.ForAll([k], z3.Implies(x.present[k], x.value[k] == y.value[k]))))


@spec("dict_set", None, "b is a with key k set to v and nothing else changed")
def dict_set_sym(eng, a, b, k, v):
    from .models import dict_key, to_val
    x, y = _dict_of(eng, a), _dict_of(eng, b)
    kk = dict_key(eng, x, k, None)
    vv = as_int(eng, v) if x.vsort == "int" else to_val(eng, v)
    q = z3.Const(fresh_bound("dk").decl().name() + "!v", x.present.sort().domain())
    return VBool(z3.And(y.present == z3.Store(x.present, kk, True), y.value[kk] == vv,
                        z3.ForAll([q], z3.Implies(z3.And(q != kk, x.present[q]), x.value[q] == y.value[q]))))


@spec("dict_del", None, "b is a without key k and nothing else changed")
def dict_del_sym(eng, a, b, k):
    from .models import dict_key
    x, y = _dict_of(eng, a), _dict_of(eng, b)
    kk = dict_key(eng, x, k, None)
    q = z3.Const(fresh_bound("dk").decl().name() + "!v", x.present.sort().domain())
    return VBool(z3.And(y.present == z3.Store(x.present, kk, False),
                        z3.ForAll([q], z3.Implies(z3.And(q != kk, x.present[q]), x.value[q] == y.value[q]))))


@spec("len_of", None, "ghost: number of items of an untracked iterable")
def len_of_sym(eng, lst):
    from .models import len_of_f, to_val
    return VInt(len_of_f(to_val(eng, lst)))


@spec("elem", None, "ghost: item number j of an untracked iterable")
def elem_sym(eng, lst, j):
    from .models import elem_f, to_val
    return VOpaque(elem_f(to_val(eng, lst), as_int(eng, j)), tag="elem")


@spec("field", None, "ghost: component i of an untracked n-tuple")
def field_sym(eng, item, i, n):
    from .models import field_f, to_val
    return VOpaque(field_f(const_of(as_int(eng, i)), const_of(as_int(eng, n)))(to_val(eng, item)), tag="field")

"""./check <property> [--tier quick|thorough] [--replay FILE] [--repo DIR] [--update-baseline]

Decides one property: verifies every function under contract that serves it (obligations generated
from the repository's current working tree), proves the lemmas, runs the bounded stand-ins, applies
the baseline / known-findings rules of DESIGN.md section 2 and writes evidence/<id>.json.

exit 0 held | 1 VIOLATION | 2 undecided | 3 checker crash
"""
from __future__ import annotations

import argparse
import glob
import importlib
import json
import multiprocessing as mp
import os
import re
import subprocess
import sys
import time
import traceback

HERE = os.path.dirname(os.path.dirname(os.path.abspath(__file__)))
sys.path.insert(0, HERE)

from pyvc import contract as C  # noqa: E402

VENV_PY = "/venv/bin/python"
_VF = None


def load_all():
    from pyvc.specs import SPECS, register_pyspecs
    import contracts.specs_py as sp
    register_pyspecs(sp, HERE)
    for f in sorted(glob.glob(os.path.join(HERE, "contracts", "c*.py"))):
        importlib.import_module("contracts." + os.path.basename(f)[:-3])
    return SPECS


def make_verifier(root, tier, specs):
    from pyvc.verify import Verifier
    vf = Verifier(root, specs)
    if tier == "thorough":
        vf.timeout_ms = 20000
        vf.ext_timeout_s = 120
        vf.keep_smt = True
    else:
        vf.timeout_ms = 5000
        vf.ext_timeout_s = 30
    return vf


# ---------------------------------------------------------------------------------------------
# parallel exploration
# ---------------------------------------------------------------------------------------------
def _task(args):
    key, prefixes, max_paths, refuted = args
    con = C.REGISTRY[key]
    try:
        _VF.pre_refuted = set(refuted)
        res = _VF.verify(con, prefixes=prefixes, max_paths=max_paths)
        out = res.to_json()
        out["leftover"] = res.leftover
        out["covered"] = res.covered
        out["body_lines"] = res.body_lines
        out["key"] = list(key)
        out["lines"] = list(res.lines)
        out["matched_asserts"] = sorted(l for (k, l) in _VF.matched_asserts if k == key)
        for oid, d in res.obligations.items():
            if d.get("smt2") and (d["status"] != "unsat" or _VF.keep_smt):
                out["obligations"][oid]["smt2"] = d["smt2"]
        if _VF.keep_smt:
            out["cross"] = cross_check(res)
        return out
    except Exception as ex:
        return {"key": list(key), "status": "error", "message": "worker crash: " + "".join(traceback.format_exception(type(ex), ex, ex.__traceback__))[-1500:],
                "obligations": {}, "paths": 0, "exits": {}, "feasible_exits": 0, "secs": 0, "leftover": [], "covered": [], "body_lines": [],
                "callee_contracts_used": [], "opaque_calls": [], "raised": {}, "uncovered_lines": [], "source_hash": None, "canaries": 0, "canary_proved": 0,
                "function": f"{key[0]}:{key[1]}", "lines": [0, 0]}


def cross_check(res):
    """thorough tier: re-decide every obligation that has an SMT dump with the external back ends."""
    from pyvc import solve
    out = {"checked": 0, "agree": 0, "disagree": [], "by_backend": {}}
    for oid, d in res.obligations.items():
        if not d.get("smt2") or d["status"] != "unsat":
            continue
        for be in ("z3-4.8.12", "cvc5"):
            st, name, dt, log = solve.check(d["smt2"], 20, backends=[be])
            out["checked"] += 1
            b = out["by_backend"].setdefault(be, {"unsat": 0, "sat": 0, "unknown": 0})
            b[st] += 1
            if st == "unsat":
                out["agree"] += 1
            elif st == "sat":
                out["disagree"].append([oid, be])
    return out


def merge_fn(acc, part):
    if acc is None:
        part["covered"] = set(part.get("covered", []))
        part["matched_asserts"] = set(part.get("matched_asserts", []))
        return part
    acc["matched_asserts"] |= set(part.get("matched_asserts", []))
    rank = {"unsat": 0, "unknown": 1, "sat": 2}
    for oid, d in part["obligations"].items():
        a = acc["obligations"].get(oid)
        if a is None:
            acc["obligations"][oid] = d
        else:
            a["instances"] += d["instances"]
            a["secs"] = round(a["secs"] + d["secs"], 4)
            if rank[d["status"]] > rank[a["status"]]:
                for k in ("status", "model", "detail", "line", "path", "smt2"):
                    a[k] = d.get(k)
    acc["paths"] += part["paths"]
    for k, v in part.get("exits", {}).items():
        acc["exits"][k] = acc["exits"].get(k, 0) + v
    acc["feasible_exits"] += part["feasible_exits"]
    acc["secs"] += part["secs"]
    acc["covered"] |= set(part.get("covered", []))
    acc["callee_contracts_used"] = sorted(set(acc["callee_contracts_used"]) | set(part["callee_contracts_used"]))
    acc["opaque_calls"] = sorted(set(acc["opaque_calls"]) | set(part["opaque_calls"]))
    for k, v in part.get("raised", {}).items():
        acc["raised"][k] = acc["raised"].get(k, 0) + v
    for k, v in part.get("call_feas", {}).items():
        a = acc.setdefault("call_feas", {}).setdefault(k, [0, 0])
        a[0] += v[0]
        a[1] += v[1]
    acc["canaries"] += part.get("canaries", 0)
    acc["canary_proved"] += part.get("canary_proved", 0)
    acc["infeasible_full"] = acc.get("infeasible_full", 0) + part.get("infeasible_full", 0)
    if part["status"] != "ok" and acc["status"] == "ok":
        acc["status"] = part["status"]
        acc["message"] = part["message"]
    if part.get("cross"):
        c = acc.setdefault("cross", {"checked": 0, "agree": 0, "disagree": [], "by_backend": {}})
        c["checked"] += part["cross"]["checked"]
        c["agree"] += part["cross"]["agree"]
        c["disagree"] += part["cross"]["disagree"]
        for be, d in part["cross"]["by_backend"].items():
            b = c["by_backend"].setdefault(be, {"unsat": 0, "sat": 0, "unknown": 0})
            for k in d:
                b[k] += d[k]
    return acc


def run_parallel(vf, contracts, jobs, first_chunk=24, chunk=100):
    global _VF
    _VF = vf
    results = {}
    ctx = mp.get_context("fork")
    with ctx.Pool(jobs) as pool:
        pending = []
        for con in contracts:
            pending.append(pool.apply_async(_task, ((con.key, None, first_chunk, []),)))
        while pending:
            nxt = []
            for ar in pending:
                if not ar.ready():
                    nxt.append(ar)
                    continue
                part = ar.get()
                key = tuple(part["key"])
                left = part.pop("leftover", [])
                results[key] = merge_fn(results.get(key), part)
                # split the leftover prefixes into tasks
                ref = [o for o, d in results[key]["obligations"].items() if d["status"] == "sat"]
                for pfx in left:
                    nxt.append(pool.apply_async(_task, ((key, [pfx], chunk, ref),)))
            pending = nxt
            time.sleep(0.05)
    # finalise coverage / vacuity
    for key, r in results.items():
        con = C.REGISTRY[key]
        cov = r.pop("covered", set())
        body = set(r.get("body_lines", []))
        base = r.get("lines", [0, 0])[0]
        r["uncovered_lines"] = sorted(l - base for l in body - cov if (l - base) not in con.dead)
        r.pop("body_lines", None)
        matched = r.pop("matched_asserts", set())
        for label, pattern, exprs in con.options.get("asserts", []):
            if r["status"] == "ok" and label not in matched:
                r["status"] = "stale"
                r["message"] = f"assert site {label!r} (pattern {pattern!r}) matches no statement"
        if r["status"] == "ok" and r["feasible_exits"] == 0:
            r["status"] = "vacuous"
            r["message"] = "no feasible path reaches an exit of the function"
        dead_calls = [k for k, v in r.get("call_feas", {}).items() if v[0] == 0 and v[1] > 0]
        if r["status"] == "ok" and dead_calls:
            r["status"] = "vacuous"
            r["message"] = f"postcondition of callee(s) {dead_calls} contradicts the caller's state on every visit (contract error)"
        if r["status"] == "ok" and r.get("canary_proved", 0) > 0:
            r["status"] = "vacuous"
            r["message"] = "must-fail canary was proved: assumptions are inconsistent"
    return results


# ---------------------------------------------------------------------------------------------
# bounded stand-ins
# ---------------------------------------------------------------------------------------------
# os.path predicates / string functions: modelled as effect-free with an arbitrary result; meeting one for the first time does not
# make a refutation doubtful (an arbitrary answer of a pure predicate is exactly what the real function may give)
PURE_STDLIB_CALLS = {f"<method {n} of function>" for n in ("basename", "dirname", "join", "splitext", "normpath", "isdir", "isfile", "exists", "islink", "lexists", "isabs")}


def run_bounded(prop, tier, root, seed, jobs):
    try:
        from bounded.registry import BOUNDED
    except Exception:
        return []
    items = BOUNDED.get(prop, [])
    procs = []
    env = dict(os.environ)
    env["VERIF_REPO"] = root
    env["VERIF_TIER"] = tier
    env["VERIF_SEED"] = str(seed)
    env["PYTHONPATH"] = HERE
    env.pop("PYTHONHOME", None)
    out = []
    for it in items:
        cmd = [it.get("python", VENV_PY), os.path.join(HERE, "bounded", it["script"])] + it.get("args", []) + ["--tier", tier]
        procs.append((it, subprocess.Popen(cmd, stdout=subprocess.PIPE, stderr=subprocess.PIPE, text=True, env=env, cwd=HERE)))
    for it, p in procs:
        try:
            so, se = p.communicate(timeout=it.get("timeout", 1500 if tier == "quick" else 7200))
        except subprocess.TimeoutExpired:
            p.kill()
            so, se = p.communicate()
            out.append({"name": it["name"], "status": "timeout", "stderr": se[-500:]})
            continue
        last = so.strip().splitlines()[-1] if so.strip() else ""
        try:
            d = json.loads(last)
            d.setdefault("name", it["name"])
            d["status"] = "ok" if p.returncode == 0 else "crash"
            if p.returncode != 0:
                d["stderr"] = se[-800:]
        except Exception:
            d = {"name": it["name"], "status": "crash", "stderr": (se or so)[-800:], "rc": p.returncode}
        out.append(d)
    return out


# ---------------------------------------------------------------------------------------------
# known findings / baseline
# ---------------------------------------------------------------------------------------------
def load_known():
    path = os.path.join(HERE, "known_findings.jsonl")
    known, fixed = [], []
    if os.path.exists(path):
        for line in open(path):
            line = line.strip()
            if not line or line.startswith("#"):
                continue
            if line.startswith("fixed:") or '"residual"' in line:
                fixed.append(line)
                continue
            known.append(json.loads(line))
    return known, fixed


def load_baseline():
    path = os.path.join(HERE, "baseline_obligations.json")
    if os.path.exists(path):
        return json.load(open(path))
    return {}


def sanitize(oid):
    return re.sub(r"[^A-Za-z0-9_.@#-]+", "_", oid)


def structure_model(model):
    return model


def write_replay(prop, oid, con, d, root, extra=None):
    os.makedirs(os.path.join(HERE, "replays", prop), exist_ok=True)
    path = os.path.join("replays", prop, sanitize(oid) + ".json")
    from pyvc.engine import ModuleInfo, loops_of
    mod = ModuleInfo.get(root, con.file)
    fn, chain = mod.find_function(con.func)
    kind = d["kind"]
    rp = {
        "property": prop, "obligation": oid, "file": con.file, "func": con.func, "kind": kind,
        "expr": d.get("detail", "").split(" | ")[0].split(" [")[0],
        "params": [p.arg for p in fn.args.posonlyargs + fn.args.args + fn.args.kwonlyargs] if fn is not None else list(con.params),
        "free": list(con.free), "requires": list(con.requires), "allowed": sorted(con.raises),
        "inputs": flat_to_inputs(d.get("model"), con) if d.get("model") else {},
        "solver": {"status": d["status"], "detail": d.get("detail", ""), "path": d.get("path")},
    }
    m = re.search(r"@loop(\d+)", oid)
    if m and fn is not None:
        k = int(m.group(1))
        lp = loops_of(fn)[k - 1]
        rp["trace_lines"] = sorted({lp.lineno, lp.body[0].lineno})
        rp["hidden"] = {}
    m = re.search(r":assert@([A-Za-z0-9_]+)#", oid)
    if m and fn is not None:
        label = m.group(1)
        import ast as _ast
        for (lab, pat, exprs) in con.options.get("asserts", []):
            if lab == label:
                lines = [n.lineno for n in _ast.walk(fn) if isinstance(n, _ast.stmt) and not isinstance(n, (_ast.If, _ast.While, _ast.For, _ast.Try, _ast.With, _ast.FunctionDef))
                         and " ".join(pat.split()) in " ".join(mod.segment(n).split())]
                rp["trace_lines"] = lines
    if extra:
        rp.update(extra)
    json.dump(rp, open(os.path.join(HERE, path), "w"), indent=1)
    return path


def flat_to_inputs(model, con):
    """Models from the external solver come flat (path -> value); rebuild the structured form."""
    if not isinstance(model, dict) or "flat" not in model:
        return model if isinstance(model, dict) else {}
    flat = model["flat"]
    out = {}
    names = list(con.params) + list(con.free)
    for name in names:
        if name in flat:
            v = flat[name]
            out[name] = {"t": "bool", "v": v} if isinstance(v, bool) else {"t": "int", "v": v}
        elif name + ".n" in flat:
            n = flat[name + ".n"] or 0
            items = [flat.get(f"{name}.arr[{i}]", 0) or 0 for i in range(min(n, 2048))]
            ok = all(isinstance(x, int) and 0 <= x < 256 for x in items)
            ty = (con.params.get(name) or con.free.get(name) or "bytes").split("|")[0]
            out[name] = {"t": ty if ty in ("bytes", "bytearray", "list", "tuple") else "bytes", "n": n, "hex": bytes(items).hex() if ok else None, "items": None if ok else items}
        elif name + ".join.n" in flat:
            n = flat[name + ".join.n"] or 0
            items = [flat.get(f"{name}.join.arr[{i}]", 0) or 0 for i in range(min(n, 2048))]
            out[name] = {"t": "chunks", "join": {"t": "bytes", "n": n, "hex": bytes(x & 255 for x in items).hex()}, "count": {"t": "int", "v": flat.get(name + ".count", 1)}}
    return out


def native_replay(path, root):
    try:
        p = subprocess.run([VENV_PY, os.path.join(HERE, "pyvc", "replay_native.py"), os.path.join(HERE, path), "--repo", root],
                           capture_output=True, text=True, timeout=300, env={**os.environ, "PYTHONPATH": HERE})
        last = p.stdout.strip().splitlines()[-1] if p.stdout.strip() else ""
        d = json.loads(last)
        return d
    except Exception as ex:
        return {"confirmed": False, "why": f"replay crashed: {ex!r}"}


# ---------------------------------------------------------------------------------------------
def main(argv=None):
    ap = argparse.ArgumentParser()
    ap.add_argument("prop")
    ap.add_argument("--tier", default=os.environ.get("VERIF_TIER", "quick"))
    ap.add_argument("--replay")
    ap.add_argument("--repo", default=os.environ.get("VERIF_REPO", "/repo"))
    ap.add_argument("--update-baseline", action="store_true")
    ap.add_argument("--jobs", type=int, default=int(os.environ.get("VERIF_JOBS", "16")))
    ap.add_argument("--only", default=None, help="comma separated function names (development)")
    ap.add_argument("--no-bounded", action="store_true")
    ap.add_argument("--evidence", default=None)
    args = ap.parse_args(argv)
    prop = args.prop
    root = os.path.abspath(args.repo)
    seed = int(os.environ.get("VERIF_SEED", "0") or 0)
    tier = args.tier if args.tier in ("quick", "thorough") else "quick"
    t0 = time.time()
    os.chdir(HERE)

    if args.replay:
        d = native_replay(os.path.relpath(os.path.abspath(args.replay), HERE), root)
        print(json.dumps(d, indent=1))
        rp = json.load(open(args.replay))
        if d.get("confirmed"):
            print(f"VIOLATION property={rp.get('property', prop)} replay={args.replay}")
            return 1
        return 0

    try:
        specs = load_all()
        from pyvc import lemmas as L
        vf = make_verifier(root, tier, specs)
        known, fixed = load_known()
        for k in known:
            if k["property"] == prop and k.get("obligation") and k.get("class"):
                vf.known.setdefault(k["obligation"], []).append(k["class"])
        contracts = [c for c in C.REGISTRY.values() if prop in c.prop and not c.trusted]
        if args.only:
            only = set(args.only.split(","))
            contracts = [c for c in contracts if c.func in only]
        results = run_parallel(vf, contracts, args.jobs) if contracts else {}
        lemma_results = L.run_lemmas(vf, prop, args.jobs) if not args.only else []
        guard_problems = []
        guards_run = 0
        for modname in [m for m in sys.modules if m.startswith("contracts.c")]:
            for g in getattr(sys.modules[modname], "GUARDS", {}).get(prop, []):
                guards_run += 1
                guard_problems += [f"guard {g.__name__}: {p}" for p in g(root)]
        bounded = [] if (args.no_bounded or args.only) else run_bounded(prop, tier, root, seed, args.jobs)
    except Exception as ex:
        print("checker crash:", "".join(traceback.format_exception(type(ex), ex, ex.__traceback__)))
        return 3

    # ------------------------------------------------------------------ verdicts
    baseline = load_baseline().get(prop, {})
    lines = []
    violations = 0
    undecided = []
    crashes = []
    known_lines = []
    obligations = {}
    for key, r in results.items():
        if r["status"] == "error":
            crashes.append(f"{r['function']}: {r['message'][:300]}")
        elif r["status"] != "ok":
            undecided.append(f"{r['function']}: {r['status']}: {r['message'][:300]}")
        for oid, d in r["obligations"].items():
            d["function"] = r["function"]
            if d.get("props") and prop not in d["props"]:
                continue        # obligation of a callee contract that serves other properties
            obligations[oid] = d
    for lr in lemma_results:
        for oid, d in lr["obligations"].items():
            d["function"] = "lemma:" + lr["name"]
            obligations[oid] = d
        if lr["status"] != "ok":
            (crashes if lr["status"] == "error" else undecided).append(f"lemma {lr['name']}: {lr['status']}: {lr.get('message', '')[:300]}")

    undecided += guard_problems
    known_oids = {k["obligation"]: k for k in known if k["property"] == prop and k.get("obligation")}
    discharged = 0
    failed = []
    for oid, d in sorted(obligations.items()):
        if d["status"] == "unsat":
            discharged += 1
            continue
        in_base = baseline.get(oid) == "discharged" or (oid in known_oids)
        if not in_base and d["kind"] in ("raises-only", "frame", "provenance"):
            # these obligations only materialise when something goes wrong (a disallowed exception is
            # raised / an undeclared field is written): on the reference tree they held vacuously for
            # every function that has baseline obligations
            fpfx = oid.rsplit(":", 1)[0] if d["kind"] == "raises-only" else ":".join(oid.split(":")[:2])
            in_base = any(b.startswith(fpfx + ":") for b in baseline)
        if d["status"] == "sat" and d["kind"] == "provenance":
            # structural (syntactic provenance) obligation: its failure is not a counterexample
            undecided.append(f"{oid}: provenance could not be established ({d.get('detail', '')[:120]})")
        elif d["status"] == "sat":
            failed.append((oid, d, in_base))
        else:
            undecided.append(f"{oid}: solver {d['status']} ({d.get('detail', '')[-160:]})")
    missing = [oid for oid, st in baseline.items() if st == "discharged" and oid not in obligations]
    if missing and not args.only:
        undecided.append(f"{len(missing)} baseline obligations were not generated (stale contract or function out of subset): {missing[:5]}")

    base_opaque = load_baseline().get("__opaque__", {}).get(prop, {})
    for oid, d, in_base in failed:
        key = None
        for kk, r in results.items():
            if oid in r["obligations"]:
                key = kk
        con = C.REGISTRY.get(key) if key else None
        replay_path = None
        rep = {"confirmed": False, "why": "no native replay for this obligation"}
        if con is not None:
            replay_path = write_replay(prop, oid, con, d, root)
            if d.get("model"):
                rep = native_replay(replay_path, root)
            rp = json.load(open(os.path.join(HERE, replay_path)))
            rp["replay_result"] = rep
            json.dump(rp, open(os.path.join(HERE, replay_path), "w"), indent=1)
        else:
            os.makedirs(os.path.join(HERE, "replays", prop), exist_ok=True)
            replay_path = os.path.join("replays", prop, sanitize(oid) + ".json")
            json.dump({"property": prop, "obligation": oid, "solver": {"status": d["status"], "detail": d.get("detail"), "model": d.get("model")}},
                      open(os.path.join(HERE, replay_path), "w"), indent=1)
        d["replay"] = replay_path
        d["replay_confirmed"] = bool(rep.get("confirmed"))
        d["replay_why"] = rep.get("why")
        if not in_base and not rep.get("confirmed"):
            undecided.append(f"{oid}: refuted but not in the baseline and not confirmed by replay ({rep.get('why')})")
            continue
        if key is not None and not rep.get("confirmed"):
            fn_name = results[key]["function"]
            new_opaque = sorted(set(results[key].get("opaque_calls", [])) - set(base_opaque.get(fn_name, [])) - PURE_STDLIB_CALLS)
            if fn_name in base_opaque and new_opaque:
                # the function now calls something the engine does not model and did not meet on the reference tree:
                # the failed proof may be an artefact of that over-approximation -> undecided, not a violation
                undecided.append(f"{oid}: refuted, but {fn_name} now calls unmodelled callee(s) {new_opaque[:4]} not met on the reference tree "
                                 f"and the counter-model does not replay ({rep.get('why')})")
                continue
        violations += 1
        tail = "" if rep.get("confirmed") else " no-failing-input-found"
        lines.append(f"VIOLATION property={prop} replay={replay_path}{tail}")

    # known findings whose relativised obligation was discharged
    for oid, k in known_oids.items():
        d = obligations.get(oid)
        if d is not None and d["status"] == "unsat":
            known_lines.append(f"KNOWN-FINDING: property={prop} {k['what']}")
    # bounded stand-ins
    bounded_cases = 0
    for b in bounded:
        if b.get("status") in ("crash", "timeout"):
            crashes.append(f"bounded {b.get('name')}: {b.get('status')}: {b.get('stderr', '')[-300:]}")
            continue
        bounded_cases += b.get("cases", 0)
        # an ASSUMED contract (one the deductive part relies on but cannot discharge) that the bounded check finds broken:
        # the proof no longer applies to this tree -> undecided; whether the property itself broke is for the other checks
        for f in b.get("assumption_failures", [])[:3]:
            undecided.append(f"bounded {b.get('name')}: assumed contract no longer holds on this tree: {json.dumps(f, sort_keys=True)[:300]}")
        reported = 0
        for f in b.get("failures", []):
            # (listed findings never use up the five report slots: they must not mask a different failure)
            if reported >= 5:
                break
            kf = None
            for k in known:
                if k["property"] == prop and k.get("bounded") == b["name"] and k.get("match") and k["match"] in json.dumps(f, sort_keys=True):
                    kf = k
            if kf:
                msg = f"KNOWN-FINDING: property={prop} {kf['what']}"
                if msg not in known_lines:
                    known_lines.append(msg)
                continue
            os.makedirs(os.path.join(HERE, "replays", prop), exist_ok=True)
            rpath = os.path.join("replays", prop, sanitize(f"bounded_{b['name']}_{violations}") + ".json")
            if f.get("function") and f.get("inputs") is not None and ":" in f["function"]:
                ffile, ffunc = f["function"].split(":", 1)
                rp = {"property": prop, "obligation": f.get("obligation"), "file": ffile, "func": ffunc, "kind": "bounded",
                      "expr": f.get("clause"), "inputs": f["inputs"], "found_by": f"bounded stand-in {b['name']}", "bound": b.get("bound"),
                      "detail": f.get("detail")}
            else:
                rp = {"property": prop, "bounded": b["name"], "bounded_module": b.get("module"), "failure": f, "bound": b.get("bound")}
            json.dump(rp, open(os.path.join(HERE, rpath), "w"), indent=1)
            violations += 1
            reported += 1
            lines.append(f"VIOLATION property={prop} replay={rpath}")

    n_obl = len(obligations)
    if n_obl == 0 and not bounded and not args.only:
        undecided.append("zero obligations generated")

    # thorough: back-end disagreement is a checker failure
    for key, r in results.items():
        for oid, be in (r.get("cross") or {}).get("disagree", []):
            crashes.append(f"back ends disagree on {oid}: {be} says sat")

    if args.update_baseline:
        allb = load_baseline()
        allb[prop] = {oid: "discharged" for oid, d in sorted(obligations.items()) if d["status"] == "unsat"}
        allb.setdefault("__opaque__", {})[prop] = {r["function"]: sorted(r.get("opaque_calls", [])) for r in results.values()}
        json.dump(allb, open(os.path.join(HERE, "baseline_obligations.json"), "w"), indent=0, sort_keys=True)

    # ------------------------------------------------------------------ evidence
    from pyvc.evidence import write_evidence
    ev_path = args.evidence or os.path.join(HERE, "evidence", f"{prop}.json")
    write_evidence(ev_path, prop, tier, seed, results, lemma_results, bounded, obligations, discharged, violations,
                   undecided, crashes, known_lines, vf, time.time() - t0, root, [k for k in known if k["property"] == prop])

    for l in known_lines:
        print(l)
    for l in lines:
        print(l)
    print(f"[{prop}] functions={len(results)} lemmas={len(lemma_results)} obligations={n_obl} discharged={discharged} "
          f"bounded_cases={bounded_cases} violations={violations} undecided={len(undecided)} crashes={len(crashes)} wall={time.time() - t0:.1f}s")
    for u in undecided[:20]:
        print("  UNDECIDED:", u)
    for c in crashes[:10]:
        print("  CRASH:", c)
    if violations:
        return 1
    if crashes:
        return 3
    if undecided:
        return 2
    return 0


if __name__ == "__main__":
    sys.exit(main())

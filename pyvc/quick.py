"""Developer helper: verify one contract and print the outcome."""
import importlib, json, sys, os
sys.path.insert(0, os.path.dirname(os.path.dirname(os.path.abspath(__file__))))
from pyvc import contract as C
from pyvc.verify import Verifier
from pyvc.specs import SPECS, register_pyspecs
import contracts.specs_py as _sp
register_pyspecs(_sp, os.path.dirname(os.path.dirname(os.path.abspath(__file__))))

def main():
    root = os.environ.get("VERIF_REPO", "/repo")
    for m in sys.argv[1].split(","):
        importlib.import_module(m)
    want = sys.argv[2:] 
    vf = Verifier(root, SPECS)
    for key, con in C.REGISTRY.items():
        if con.trusted: continue
        if want and con.func not in want: continue
        r = vf.verify(con)
        print("==", con.func, r.status, r.message, "paths", r.paths, r.exits, "feasible", r.feasible_exits, f"{r.secs:.2f}s", "uncovered", r.uncovered)
        for oid, d in r.obligations.items():
            print("  ", d["status"].upper().ljust(7), oid, f'x{d["instances"]}', f'{d["secs"]}s', "|", d["detail"][:100])
            if d["status"] == "sat":
                print("       model:", json.dumps(d["model"])[:400])
        if r.opaque: print("   opaque:", sorted(r.opaque))
        dead = [k for k, v in getattr(r, "call_feas", {}).items() if v[0] == 0 and v[1] > 0]
        if dead: print("   VACUOUS CALL SITES:", dead)
main()

"""Contract registry: sidecar contracts on real functions of /repo.

A contract is data (strings in a Python-expression language evaluated symbolically by the engine
and concretely by ``eval`` in replays / bounded stand-ins).
"""
from __future__ import annotations

import dataclasses
from typing import Any


@dataclasses.dataclass
class LoopSpec:
    invariant: list = dataclasses.field(default_factory=list)
    decreases: str | None = None
    types: dict = dataclasses.field(default_factory=dict)    # declared types of havocked names
    unroll: int | None = None                                 # unroll exactly this many times
    keep: list = dataclasses.field(default_factory=list)      # names NOT to havoc although assigned
    havoc: list = dataclasses.field(default_factory=list)     # extra names to havoc
    snapshot: dict = dataclasses.field(default_factory=dict)  # ghost local -> spec expr, assigned at every loop head
    # ghost witness functions (Int -> Int) for existential facts: name -> (param, init expr, update expr); the invariant
    # may call name(i); at the loop head it is an arbitrary function, after the body it is `update` (which may call
    # old_<name>(param), the function at the head): the contract supplies the witness instead of the solver
    witness: dict = dataclasses.field(default_factory=dict)


@dataclasses.dataclass
class Contract:
    prop: list                      # property ids this contract serves
    file: str                       # repo-relative path
    func: str                       # qualified name, e.g. "apply_delta.read_byte", "Protocol.read_pkt_line"
    params: dict = dataclasses.field(default_factory=dict)      # name -> type string
    returns: str = "opaque"
    requires: list = dataclasses.field(default_factory=list)
    ensures: list = dataclasses.field(default_factory=list)     # on normal return
    raises: dict = dataclasses.field(default_factory=dict)      # exc class -> list of exceptional postconditions (or None)
    raises_any: bool = False                                    # no restriction on exception classes
    free: dict = dataclasses.field(default_factory=dict)        # free (closure) variables -> type
    modifies: list = dataclasses.field(default_factory=list)    # free vars / "param" heap contents / "self.f" modified
    loops: dict = dataclasses.field(default_factory=dict)       # ordinal -> LoopSpec
    inline: list = dataclasses.field(default_factory=list)      # callees to inline rather than use contracts
    trusted: bool = False           # contract is assumed, body not verified (external / stdlib)
    assumptions: list = dataclasses.field(default_factory=list)
    ghost: dict = dataclasses.field(default_factory=dict)       # ghost variables: name -> (type, init expr)
    ghost_updates: list = dataclasses.field(default_factory=list)
    dead: list = dataclasses.field(default_factory=list)
    note: str = ""
    old_names: list = dataclasses.field(default_factory=list)
    pure: bool = False              # no heap effects on arguments
    self_type: str | None = None
    hints: list = dataclasses.field(default_factory=list)       # extra lemma instantiations (spec exprs assumed after being proved)
    cover: bool = True
    timeout_ms: int | None = None
    verify_paths_limit: int = 4000
    ghost_params: dict = dataclasses.field(default_factory=dict)  # extra symbolic (ghost) inputs: name -> type
    assigns: dict = dataclasses.field(default_factory=dict)     # "self.f" -> spec expr: field holds exactly that value (reference) on return
    mode: str = "A"                 # A functional, B object invariant, C effect discipline
    options: dict = dataclasses.field(default_factory=dict)

    @property
    def key(self):
        return (self.file, self.func)

    @property
    def oid_prefix(self):
        mod = self.file[:-3].replace("dulwich/", "").replace("/", ".")
        return f"{mod}:{self.func}"


REGISTRY: dict[tuple, Contract] = {}
LEMMAS: list = []
CLASS_SPECS: dict = {}


def contract(**kw) -> Contract:
    loops = {}
    for k, v in (kw.pop("loops", None) or {}).items():
        loops[k] = v if isinstance(v, LoopSpec) else LoopSpec(**v)
    prop = kw.pop("prop")
    if isinstance(prop, str):
        prop = [prop]
    c = Contract(prop=prop, loops=loops, **kw)
    if c.key in REGISTRY:
        raise ValueError(f"duplicate contract {c.key}")
    REGISTRY[c.key] = c
    return c


@dataclasses.dataclass
class Lemma:
    prop: list
    name: str
    forall: dict                     # var -> type
    assume: list
    show: list
    induction: str | None = None     # variable (int) for induction with hypothesis at var-1
    uses: list = dataclasses.field(default_factory=list)   # (file, func) contracts whose posts are used
    steps: list = dataclasses.field(default_factory=list)
    note: str = ""
    proves_fact: str | None = None
    file: str | None = None
    exc_ok: str | None = None      # a harness step may raise only when this holds (default: never)
    cuts: list = dataclasses.field(default_factory=list)      # intermediate claims: (after step name | None, expr): proved, then assumed


def lemma(**kw):
    prop = kw.pop("prop")
    if isinstance(prop, str):
        prop = [prop]
    l = Lemma(prop=prop, **kw)
    LEMMAS.append(l)
    return l


@dataclasses.dataclass
class ClassSpec:
    file: str
    cls: str
    fields: dict                       # field -> type
    invariant: list = dataclasses.field(default_factory=list)   # over self.<field>
    ghost_fields: dict = dataclasses.field(default_factory=dict)
    bases: list = dataclasses.field(default_factory=list)
    init: dict = dataclasses.field(default_factory=dict)       # (ghost) field -> spec expr at construction
    stable: list = dataclasses.field(default_factory=list)     # fields only the contracted methods change
    mutators: list = dataclasses.field(default_factory=list)   # method names that change stable fields
    constructible: bool = False     # Class() without contract yields a tracked record with `init` fields


def class_spec(**kw):
    cs = ClassSpec(**kw)
    if cs.cls in CLASS_SPECS:
        raise ValueError(f"duplicate class spec {cs.cls}")
    CLASS_SPECS[cs.cls] = cs
    return cs


def lookup(file, func):
    return REGISTRY.get((file, func))


def find_method(cls, meth):
    """Find a contract for method `meth` of class `cls` (searching declared bases)."""
    seen = set()
    todo = [cls]
    while todo:
        c = todo.pop(0)
        if c in seen:
            continue
        seen.add(c)
        for (f, q), con in REGISTRY.items():
            if q == f"{c}.{meth}":
                return con
        cs = CLASS_SPECS.get(c)
        if cs:
            todo.extend(cs.bases)
    return None

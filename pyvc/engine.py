"""pyvc engine: symbolic execution of real Python function bodies (ast) against sidecar contracts.

Design (see DESIGN.md section 1):
* path-based symbolic execution with *re-execution forking*: a path is a list of branch
  decisions; `branch()` consults the list and schedules the alternative.  This keeps the
  interpreter in direct style.
* loops are cut at contract-supplied invariants (default invariant True), constant small
  `range` loops are unrolled.
* calls to functions under contract use the contract only (modular); calls listed in
  `inline` (or nested closures without contract) are executed in place; stdlib calls use models;
  everything else is an opaque call (havoc, may raise anything).
* Python exceptions are outcomes (PyExc); every operation that may raise forks.
"""
from __future__ import annotations

import ast
import builtins
import hashlib
import json
import os
import time

import z3

from . import contract as C
from .values import *  # noqa: F401,F403
from .values import has_quantifier, mentions_bound
from .values import (NONE, V, VBool, VChunks, VClass, VDict, VFunc, VInt, VModule, VNone, VObj,
                     VOpaque, VRef, VSeq, VSet, VStr, VTuple, Val, fresh_arr, fresh_bool,
                     fresh_bound, fresh_int, fresh_name, fresh_val, seq_append, seq_concat, seq_const, seq_eq,
                     seq_from_array, seq_of_terms, seq_slice_raw, seq_store)


# ----------------------------------------------------------------------------------------------
# signals
# ----------------------------------------------------------------------------------------------
STDLIB_CONSTS = {
    "os.SEEK_SET": 0, "os.SEEK_CUR": 1, "os.SEEK_END": 2, "io.SEEK_SET": 0, "io.SEEK_CUR": 1, "io.SEEK_END": 2,
    "os.O_RDONLY": 0, "os.O_WRONLY": 1, "os.O_RDWR": 2, "os.O_CREAT": 64, "os.O_EXCL": 128, "os.O_TRUNC": 512, "os.O_APPEND": 1024,
    "stat.S_IFDIR": 0o040000, "stat.S_IFREG": 0o100000, "stat.S_IFLNK": 0o120000,
    "sys.maxsize": 2 ** 63 - 1, "os.name": "posix", "sys.platform": "linux", "os.sep": "/",
}


class Sig(Exception):
    pass


class ReturnSig(Sig):
    def __init__(self, value):
        self.value = value


class BreakSig(Sig):
    pass


class ContinueSig(Sig):
    pass


class PyExc(Sig):
    """A Python exception raised by the program under analysis."""

    def __init__(self, cls, val=None, site=None, any_of=None):
        self.cls = cls            # class name, or None = unknown exception class
        self.val = val
        self.site = site
        self.any_of = any_of      # for unknown: optional upper bound class name (e.g. "Exception")

    def __str__(self):
        return f"PyExc({self.cls or 'ANY<' + str(self.any_of) + '>'} at {self.site})"


class PathEnd(Sig):
    def __init__(self, why):
        self.why = why


class OutOfSubset(Exception):
    def __init__(self, node, why):
        self.node = node
        self.why = why
        line = getattr(node, "lineno", "?")
        super().__init__(f"out of subset at line {line}: {why}")


class EngineError(Exception):
    pass


from .astutil import ModuleInfo, loops_of, assigned_names, MUTATING_METHODS, _walk_no_defs  # noqa: E402,F401


# ----------------------------------------------------------------------------------------------
# frames
# ----------------------------------------------------------------------------------------------
class Frame:
    def __init__(self, module: ModuleInfo, qualname, parent=None):
        self.module = module
        self.qualname = qualname
        self.env: dict[str, V] = {}
        self.parent = parent          # lexically enclosing frame (closures)
        self.nonlocals: set = set()
        self.cur_exc = None
        self.fn_node = None

    def lookup(self, name):
        f = self
        while f is not None:
            if name in f.env:
                return f.env[name]
            f = f.parent
        return None

    def owner(self, name):
        f = self
        while f is not None:
            if name in f.env:
                return f
            f = f.parent
        return None

    def set(self, name, v):
        if name in self.nonlocals:
            o = self.parent.owner(name) if self.parent else None
            if o is not None:
                o.env[name] = v
                return
        self.env[name] = v


# ----------------------------------------------------------------------------------------------
# obligations
# ----------------------------------------------------------------------------------------------
class Obligation:
    __slots__ = ("oid", "kind", "line", "status", "secs", "model", "smt2", "path", "detail", "backend", "props")

    def __init__(self, oid, kind, line):
        self.oid = oid
        self.kind = kind
        self.line = line
        self.status = None
        self.secs = 0.0
        self.model = None
        self.smt2 = None
        self.path = None
        self.detail = ""
        self.backend = "z3-5.1-api"
        self.props = None


# ----------------------------------------------------------------------------------------------
# the engine (one instance per path run)
# ----------------------------------------------------------------------------------------------
class Engine:
    """Executes one path of one function under contract."""

    def __init__(self, verifier, trace):
        self.vf = verifier
        self.root = verifier.root
        self.trace = list(trace)
        self.pos = 0
        self.pending = []
        self.pc: list = []
        self.solver = z3.Solver()
        self.solver.set("timeout", verifier.feas_timeout_ms)
        self.heap: dict[int, V] = {}
        self.next_addr = 1
        self.obligations: list[Obligation] = []
        self.spec = False          # evaluating a contract expression
        self.spec_env = None
        self.old_state = None      # (env snapshot, heap snapshot) at function entry
        self.ghost: dict = {}      # ghost state (mode C): name -> z3 term / python value
        self.events: list = []     # ordered effect log (mode C)
        self.steps = 0
        self.inputs: dict = {}     # name -> V of the symbolic inputs (for counterexamples)
        self.call_depth = 0
        self.cover: set = set()
        self.notes: list = []
        self.assumed_contracts: set = set()
        self.opaque_calls: set = set()
        self.pow2_terms: list = []
        self.pow2_seen: set = set()
        self.disabled_facts: set = set()
        self.loop_old: dict = {}
        self.bound_vars = []
        self.byte_arrays = {}
        self.agree = {}
        self.quant_branched = False
        self.try_depth = 0
        self.cur_frame = None
        self.no_note = False
        self.goal_mode = False
        self.range_noted = set()
        from . import models
        self.models = models

    # ---------------------------------------------------------------- solver plumbing
    def assume(self, t):
        if isinstance(t, bool):
            t = z3.BoolVal(t)
        t = z3.simplify(t)
        if z3.is_true(t):
            return
        self.pc.append(t)
        if not has_quantifier(t):
            self.solver.add(t)      # feasibility is decided on the quantifier-free part only

    def feasible(self, t):
        t0 = time.time()
        self.solver.push()
        self.solver.add(t)
        r = self.solver.check()
        self.solver.pop()
        dt = time.time() - t0
        self.vf.feas_stats.append((dt, str(r)))
        if os.environ.get("PYVC_DEBUG") and dt > 0.5:
            print(f"[feas {dt:.2f}s {r}] {str(z3.simplify(t))[:200]}", flush=True)
        return r != z3.unsat

    def branch(self, cond, free=False) -> bool:
        if isinstance(cond, bool):
            return cond
        cond = z3.simplify(cond)
        if z3.is_true(cond):
            return True
        if z3.is_false(cond):
            return False
        if self.spec:
            raise EngineError("branch() while evaluating a spec expression")
        if not self.quant_branched and has_quantifier(cond):
            self.quant_branched = True       # decided on the quantifier-free part only: re-checked at exit
        if self.pos < len(self.trace):
            d = self.trace[self.pos]
        else:
            can_t = True if free else self.feasible(cond)
            can_f = True if free else self.feasible(z3.Not(cond))
            if can_t and can_f:
                d = True
                self.pending.append(self.trace[: self.pos] + [False])
            elif can_t:
                d = True
            elif can_f:
                d = False
            else:
                raise PathEnd("infeasible")
            self.trace.append(d)
        self.pos += 1
        self.assume(cond if d else z3.Not(cond))
        return d

    def choose(self, n, label=""):
        """Non-deterministic choice among n alternatives (all feasible a priori)."""
        for i in range(n - 1):
            if self.branch(fresh_bool(f"choice_{label}"), free=True):
                return i
        return n - 1

    def prove(self, oid, goal, kind, node=None, assume_after=True, detail="", frame=None, extra=None, props=None):
        """Register obligation `oid` on this path: pc => goal."""
        if isinstance(goal, bool):
            goal = z3.BoolVal(goal)
        ob_props = props
        known = self.vf.known.get(oid)
        if known and frame is not None:
            # relativised re-check: the obligation must hold outside every listed finding class
            classes = [self.eval_spec_bool(k, frame, extra=extra) for k in known]
            goal = z3.Or(classes + [goal])
            self.vf.relativised.add(oid)
        ob = Obligation(oid, kind, getattr(node, "lineno", None))
        ob.detail = detail
        ob.props = ob_props
        ob.path = list(self.trace[: self.pos])
        g = z3.simplify(goal)
        t0 = time.time()
        if z3.is_true(g):
            ob.status = "unsat"
            ob.backend = "trivial"
        elif (oid, tuple(ob.path)) in self.vf.proved_cache:
            # same obligation under the same decision prefix was decided on an earlier path
            self.assume(goal) if assume_after else None
            return None
        elif oid in self.vf.refuted:
            ob.status = "sat"
            ob.backend = "skipped"
            ob.detail += " [already refuted on another path]"
        else:
            r = None
            heavy = getattr(self, "heavy_axioms", None)
            if heavy:
                # first without the (quantified) order axioms: fewer assumptions, so `unsat` is still a proof
                s0 = z3.Solver()
                s0.set("timeout", min(8000, self.vf.timeout_ms))
                s0.add([t for t in self.pc if t.get_id() not in heavy])
                s0.add(z3.Not(goal))
                if s0.check() == z3.unsat:
                    r = z3.unsat
                    s = s0
            if r is None:
                s = z3.Solver()
                s.set("timeout", self.vf.timeout_ms)
                s.add(self.pc)
                s.add(z3.Not(goal))
                r = s.check()
            ob.status = str(r)
            if r == z3.sat:
                try:
                    ob.model = self.extract_inputs(s.model())
                except Exception as e:  # pragma: no cover
                    ob.model = {"error": repr(e)}
                ob.smt2 = s.to_smt2()
            elif r == z3.unknown:
                smt2 = s.to_smt2()
                ob.smt2 = smt2
                from . import solve
                st, backend, dt, log = solve.check(smt2, self.vf.ext_timeout_s, tmpdir=self.vf.tmpdir)
                ob.detail += " | in-process z3: " + s.reason_unknown() + " | " + "; ".join(log)
                ob.status = st
                ob.backend = backend
                if st == "sat":
                    ob.model = self.external_model(smt2, backend)
                elif st == "unsat":
                    ob.smt2 = smt2 if self.vf.keep_smt else None
            elif self.vf.keep_smt:
                ob.smt2 = s.to_smt2()
            if ob.status == "sat":
                self.vf.refuted.add(oid)
        self.vf.proved_cache.add((oid, tuple(ob.path)))
        ob.secs = time.time() - t0
        if os.environ.get("PYVC_DUMP_SMT") and ob.status not in ("sat", "unsat") and ob.smt2:
            _fn = os.path.join(os.environ["PYVC_DUMP_SMT"], "UNK_" + oid.replace("/", "_").replace(":", "_") + ".smt2")
            if not os.path.exists(_fn):
                open(_fn, "w").write(ob.smt2)
        if os.environ.get("PYVC_DEBUG_SAT") and ob.status == "sat" and ob.backend != "skipped":
            print(f"[sat] {oid} {ob.detail[:300]}", flush=True)
            if os.environ.get("PYVC_DUMP_SMT") and ob.smt2:
                _fn = os.path.join(os.environ["PYVC_DUMP_SMT"], oid.replace("/", "_").replace(":", "_") + ".smt2")
                if not os.path.exists(_fn):
                    open(_fn, "w").write(ob.smt2)
            if os.environ.get("PYVC_DEBUG_SAT") == "2":
                print("      path lines:", sorted(self.cover)[-40:], "model:", json.dumps(ob.model)[:600] if ob.model else None, flush=True)
        if os.environ.get("PYVC_DEBUG") and ob.secs > 1:
            print(f"[prove {ob.secs:.2f}s {ob.status} {ob.backend}] {oid} {detail[:80]}", flush=True)
        self.obligations.append(ob)
        if assume_after:
            self.assume(goal)
        return ob

    def input_terms(self):
        """(path, kind, term) for every scalar / array making up the symbolic inputs."""
        out = []

        def walk(path, v, depth=0):
            if isinstance(v, VRef):
                v = self.heap_at_entry.get(v.addr, self.heap.get(v.addr))
            if isinstance(v, VInt):
                out.append((path, "int", v.t))
            elif isinstance(v, VBool):
                out.append((path, "bool", v.t))
            elif isinstance(v, VSeq):
                out.append((path + ".n", "int", v.n))
                if v.arr is not None:
                    out.append((path + ".arr", "arr", v.arr))
            elif isinstance(v, VChunks):
                walk(path + ".join", v.join, depth + 1)
                out.append((path + ".count", "int", v.count))
            elif isinstance(v, VTuple):
                for i, x in enumerate(v.items):
                    walk(f"{path}.{i}", x, depth + 1)
            elif isinstance(v, VObj) and depth < 3:
                for f, x in v.fields.items():
                    walk(f"{path}.{f}", x, depth + 1)
        for name, v in self.inputs.items():
            walk(name, v)
        return out

    def external_model(self, smt2, backend):
        """Counter-model from an external solver: scalars first, then array prefixes."""
        from . import solve
        b = backend if backend.startswith("z3") else "z3-4.8.12"
        terms = self.input_terms()
        scal = [(p, k, t) for p, k, t in terms if k in ("int", "bool")]
        vals = solve.get_values(smt2, [t.sexpr() for _, _, t in scal], self.vf.ext_timeout_s, backend=b, tmpdir=self.vf.tmpdir)
        if vals is None:
            return {"note": "external solver gave no model values"}
        flat = {p: v for (p, _, _), v in zip(scal, vals)}
        pins = [f"(= {t.sexpr()} {_smt_lit(v)})" for (_, _, t), v in zip(scal, vals) if v is not None]
        sel = []
        for p, k, t in terms:
            if k == "arr":
                n = flat.get(p[:-4] + ".n")
                if isinstance(n, int):
                    for i in range(min(max(n, 0), 2048)):
                        sel.append((f"{p}[{i}]", z3.Select(t, i)))
        if sel:
            vals2 = solve.get_values(smt2, [t.sexpr() for _, t in sel], self.vf.ext_timeout_s, extra_asserts=pins, backend=b, tmpdir=self.vf.tmpdir)
            if vals2 is not None:
                for (p, _), v in zip(sel, vals2):
                    flat[p] = v
        return {"flat": flat}

    def extract_inputs(self, model):
        out = {}
        self.no_note = True
        try:
            for name, v in self.inputs.items():
                out[name] = self.concretize(v, model)
        finally:
            self.no_note = False
        return out

    def concretize(self, v, model, depth=0):
        def ev(t):
            return model.eval(t, model_completion=True)
        if isinstance(v, VInt):
            r = ev(v.t)
            return {"t": "int", "v": r.as_long()} if z3.is_int_value(r) else {"t": "int", "v": str(r)}
        if isinstance(v, VBool):
            return {"t": "bool", "v": z3.is_true(ev(v.t))}
        if isinstance(v, VNone):
            return {"t": "none"}
        if isinstance(v, VStr):
            return {"t": "str", "v": v.s}
        if isinstance(v, VSeq):
            n = ev(v.n)
            n = n.as_long() if z3.is_int_value(n) else 0
            items = []
            for i in range(min(max(n, 0), 70000)):
                e = ev(v.at(z3.IntVal(i)))
                items.append(e.as_long() if z3.is_int_value(e) else 0)
            ok = all(0 <= x < 256 for x in items)
            return {"t": v.kind, "n": n, "hex": bytes(items).hex() if ok else None, "items": None if ok else items}
        if isinstance(v, VTuple):
            return {"t": "tuple", "items": [self.concretize(x, model, depth + 1) for x in v.items]}
        if isinstance(v, VRef):
            if depth > 4:
                return {"t": "ref"}
            return self.concretize(self.heap_at_entry.get(v.addr, self.heap.get(v.addr)), model, depth + 1)
        if isinstance(v, VChunks):
            return {"t": "chunks", "join": self.concretize(v.join, model, depth + 1),
                    "count": self.concretize(VInt(v.count), model)}
        if isinstance(v, VObj):
            return {"t": "obj", "cls": v.cls,
                    "fields": {k: self.concretize(x, model, depth + 1) for k, x in v.fields.items()}}
        return {"t": "opaque"}

    # ---------------------------------------------------------------- heap
    def alloc(self, content) -> VRef:
        a = self.next_addr
        self.next_addr += 1
        self.heap[a] = content
        return VRef(a)

    def deref(self, v):
        if isinstance(v, VRef):
            return self.heap[v.addr]
        return v

    # ---------------------------------------------------------------- symbolic values by type
    def byte_facts(self, arr):
        k = fresh_bound("k")
        self.assume(z3.ForAll([k], z3.And(0 <= arr[k], arr[k] <= 255), patterns=[arr[k]]))
        self.byte_arrays[arr.get_id()] = arr

    def byte_seq(self, arr, n, kind):
        """Sequence over a byte array whose ground reads add their range fact to the path."""
        def at(k, arr=arr):
            t = arr[k]
            if not self.no_note and not isinstance(k, int) and not mentions_bound(k):
                key = t.get_id()
                if key not in self.range_noted:
                    self.range_noted.add(key)
                    f = z3.And(0 <= t, t <= 255)
                    self.pc.append(f)
                    self.solver.add(f)
            return t
        r = VSeq(at, n, kind, arr=arr)
        r.origin = arr.get_id()
        return r

    def make(self, ty: str, name: str) -> V:
        """A fresh symbolic value of contract type `ty` (may fork for unions/optionals)."""
        ty = ty.strip()
        if "|" in ty and not ty.startswith("tuple["):
            alts = [a.strip() for a in ty.split("|")]
            i = self.choose(len(alts), f"type_{name}")
            return self.make(alts[i], name)
        if ty.endswith("?"):
            if self.branch(fresh_bool(f"{name}_is_none"), free=True):
                return NONE
            return self.make(ty[:-1], name)
        if ty == "int":
            return VInt(z3.Int(fresh_name(name)))
        if ty == "nat":
            v = VInt(z3.Int(fresh_name(name)))
            self.assume(v.t >= 0)
            return v
        if ty == "byte":
            v = VInt(z3.Int(fresh_name(name)))
            self.assume(z3.And(v.t >= 0, v.t <= 255))
            return v
        if ty == "bool":
            return VBool(z3.Bool(fresh_name(name)))
        if ty == "None":
            return NONE
        if ty == "str":
            return VStr()
        if ty in ("bytes", "bytearray", "memoryview"):
            arr = fresh_arr(name)
            n = z3.Int(fresh_name(name + "_len"))
            self.assume(n >= 0)
            self.byte_facts(arr)
            v = self.byte_seq(arr, n, ty)
            return self.alloc(v) if ty == "bytearray" else v
        if ty in ("list[int]", "tuple[int]"):
            arr = fresh_arr(name)
            n = z3.Int(fresh_name(name + "_len"))
            self.assume(n >= 0)
            v = seq_from_array(arr, n, "list" if ty.startswith("list") else "tuple")
            return self.alloc(v) if ty.startswith("list") else v
        if ty in ("list[byte]",):
            arr = fresh_arr(name)
            n = z3.Int(fresh_name(name + "_len"))
            self.assume(n >= 0)
            self.byte_facts(arr)
            return self.alloc(self.byte_seq(arr, n, "list"))
        if ty in ("chunks", "list[bytes]"):
            arr = fresh_arr(name)
            n = z3.Int(fresh_name(name + "_total"))
            cnt = z3.Int(fresh_name(name + "_count"))
            self.assume(z3.And(n >= 0, cnt >= 0, z3.Implies(cnt == 0, n == 0)))
            self.byte_facts(arr)
            return self.alloc(VChunks(self.byte_seq(arr, n, "bytes"), cnt))
        if ty in ("list[opaque]", "list[obj]"):
            arr = fresh_arr(name, Val)
            n = z3.Int(fresh_name(name + "_len"))
            self.assume(n >= 0)
            return self.alloc(seq_from_array(arr, n, "list", esort="val"))
        if ty.startswith("tuple["):
            inner = _split_top(ty[6:-1])
            return VTuple([self.make(t, f"{name}_{i}") for i, t in enumerate(inner)])
        if ty.startswith("obj:"):
            cls = ty[4:]
            return self.alloc(self.make_obj(cls, name))
        if ty == "opaque":
            return VOpaque(tag=name)
        if ty.startswith("set[int]"):
            return VSet(arr=z3.Array(fresh_name(name), z3.IntSort(), z3.BoolSort()))
        if ty.startswith("set[opaque]"):
            return self.alloc(VSet(arr=z3.Array(fresh_name(name), Val, z3.BoolSort())))
        if ty.startswith("dict["):
            k, v = _split_top(ty[5:-1])
            ks = z3.IntSort() if k == "int" else Val
            vs = z3.IntSort() if v == "int" else Val
            d = VDict(z3.Array(fresh_name(name + "_p"), ks, z3.BoolSort()), z3.Array(fresh_name(name + "_v"), ks, vs),
                      "int" if k == "int" else "val", "int" if v == "int" else "val")
            return self.alloc(d)
        if ty.startswith("func:"):
            return VFunc("abstract", name=ty[5:])
        raise EngineError(f"unknown contract type {ty!r}")

    def make_obj(self, cls, name):
        cs = C.CLASS_SPECS.get(cls)
        o = VObj(cls)
        if cs:
            for f, t in cs.fields.items():
                o.fields[f] = self.make(t, f"{name}.{f}")
        return o

    def havoc_like(self, v: V, name: str, declared=None) -> V:
        if declared:
            return self.make(declared, name)
        if isinstance(v, VInt):
            return VInt(z3.Int(fresh_name(name)))
        if isinstance(v, VBool):
            return VBool(z3.Bool(fresh_name(name)))
        if isinstance(v, VSeq):
            if getattr(v, "untyped_empty", False):
                # `[]` whose element type is not known yet: a list of arbitrary objects
                arr = fresh_arr(name, Val)
                n = z3.Int(fresh_name(name + "_len"))
                self.assume(n >= 0)
                return seq_from_array(arr, n, "list", esort="val")
            arr = fresh_arr(name, Val if v.esort == "val" else z3.IntSort())
            n = z3.Int(fresh_name(name + "_len"))
            self.assume(n >= 0)
            if v.kind in ("bytes", "bytearray", "memoryview") or getattr(v, "bytelike", False):
                self.byte_facts(arr)
                r = self.byte_seq(arr, n, v.kind)
                if getattr(v, "bytelike", False):
                    r.bytelike = True
                return r
            return seq_from_array(arr, n, v.kind, esort=v.esort)
        if isinstance(v, VTuple):
            return VTuple([self.havoc_like(x, f"{name}_{i}") for i, x in enumerate(v.items)])
        if isinstance(v, VChunks):
            arr = fresh_arr(name)
            n = z3.Int(fresh_name(name + "_total"))
            cnt = z3.Int(fresh_name(name + "_count"))
            self.assume(z3.And(n >= 0, cnt >= 0, z3.Implies(cnt == 0, n == 0)))
            self.byte_facts(arr)
            return VChunks(self.byte_seq(arr, n, "bytes"), cnt)
        if isinstance(v, VOpaque):
            return VOpaque(tag=name)
        if isinstance(v, VStr):
            return VStr()
        if isinstance(v, VObj):
            o = VObj(v.cls, ident=v.ident)
            for f, x in v.fields.items():
                o.fields[f] = self.havoc_like(x, f"{name}.{f}") if not isinstance(x, VRef) else x
            return o
        if isinstance(v, VDict):
            ks = z3.IntSort() if v.ksort == "int" else Val
            vs = z3.IntSort() if v.vsort == "int" else Val
            return VDict(z3.Array(fresh_name(name + "_p"), ks, z3.BoolSort()),
                         z3.Array(fresh_name(name + "_v"), ks, vs), v.ksort, v.vsort)
        if isinstance(v, VSet):
            if v.members is not None:
                return v
            return VSet(arr=z3.Array(fresh_name(name), v.arr.sort().domain() if v.arr is not None else z3.IntSort(), z3.BoolSort()))
        if isinstance(v, (VFunc, VClass, VModule)):
            return v
        if isinstance(v, VNone):
            return NONE
        raise EngineError(f"cannot havoc {v!r}")

    # ---------------------------------------------------------------- exceptions
    def raise_exc(self, cls, node=None, val=None):
        raise PyExc(cls, val=val, site=getattr(node, "lineno", None))

    def exc_is_subclass(self, cls, base):
        return self.vf.hierarchy.is_subclass(cls, base)

    def exc_matches(self, e: PyExc, type_node, frame) -> bool:
        if type_node is None:
            return True
        names = []
        if isinstance(type_node, ast.Tuple):
            for el in type_node.elts:
                names.append(self.class_name_of(el, frame))
        else:
            names.append(self.class_name_of(type_node, frame))
        if e.cls is not None:
            return any(self.exc_is_subclass(e.cls, n) for n in names)
        # unknown exception class bounded by e.any_of
        ub = e.any_of or "BaseException"
        excl = getattr(e, "excluded", [])
        names = [n for n in names if not any(self.exc_is_subclass(n, x) for x in excl)]
        if not names:
            return False
        if any(self.exc_is_subclass(ub, n) for n in names):
            return True
        if not any(self.exc_is_subclass(n, ub) for n in names):
            return False
        d = self.branch(fresh_bool("exc_matches"))
        if d:
            # narrow
            if len(names) == 1:
                e.any_of = names[0]
        return d

    def class_name_of(self, node, frame):
        v = self.eval(node, frame)
        if isinstance(v, VClass):
            return v.name
        if isinstance(node, ast.Attribute):
            return node.attr
        if isinstance(node, ast.Name):
            return node.id
        raise OutOfSubset(node, "exception class expression")

    # ---------------------------------------------------------------- statements
    def exec_block(self, stmts, frame):
        for s in stmts:
            self.exec_stmt(s, frame)

    def exec_stmt(self, s, frame):
        self.cur_frame = frame
        self.steps += 1
        if self.steps > self.vf.max_steps:
            raise EngineError("step limit exceeded")
        self.cover.add(s.lineno)
        m = getattr(self, "st_" + type(s).__name__, None)
        if m is None:
            raise OutOfSubset(s, f"statement {type(s).__name__}")
        self.run_ghost_updates(s, frame, "before")
        if isinstance(s, (ast.If, ast.Try, ast.With, ast.For, ast.While)) and self.abstractable(s, frame):
            self.abstract_stmt(s, frame)
            return
        m(s, frame)
        self.run_ghost_updates(s, frame, "after")

    def run_ghost_updates(self, s, frame, when):
        con = getattr(frame, "contract", None)
        if con is None:
            return
        asserts = con.options.get("asserts")
        if not asserts or isinstance(s, (ast.While, ast.For, ast.Try, ast.With, ast.FunctionDef)):
            return
        if isinstance(s, ast.If):
            seg = "if " + " ".join((frame.module.segment(s.test) or "").split()) + ":"      # the condition only
        else:
            seg = " ".join((frame.module.segment(s) or "").split())
        for label, pattern, exprs in asserts:
            pat = " ".join(pattern.split())
            after = pat.startswith(">")         # ">pattern": asserted AFTER the statement (for an `if`: after the whole statement) has executed normally
            if after:
                pat = pat[1:].strip()
            if after != (when == "after"):
                continue
            if (pat[1:] == seg) if pat.startswith("=") else (pat in seg):      # "=text": the whole statement, not a substring
                self.vf.matched_asserts.add((con.key, label))
                for j, ex in enumerate(exprs):
                    self.prove(f"{con.oid_prefix}:assert@{label}#{j + 1}", self.eval_goal(ex, frame), "assert", s, detail=ex, frame=frame)

    def st_Pass(self, s, frame):
        pass

    def st_Expr(self, s, frame):
        if isinstance(s.value, ast.Constant):
            return  # docstring
        if isinstance(s.value, (ast.Yield, ast.YieldFrom)):
            self.do_yield(s.value, frame)
            return
        self.eval(s.value, frame)

    def do_yield(self, y, frame):
        f = frame
        if "__yielded__" not in f.env:
            raise OutOfSubset(y, "yield in a function whose contract does not declare a generator result")
        if isinstance(y, ast.YieldFrom):
            v = self.deref(self.eval(y.value, frame))
            acc = self.deref(f.env["__yielded__"])
            if isinstance(v, VChunks) and isinstance(acc, VChunks):
                self.heap[f.env["__yielded__"].addr] = VChunks(seq_concat(acc.join, v.join, "bytes"), acc.count + v.count)
                return NONE
            raise OutOfSubset(y, "yield from of non-chunk value")
        v = self.eval(y.value, frame) if y.value is not None else NONE
        self.models.list_append(self, f.env["__yielded__"], v, y)
        return NONE

    def st_Global(self, s, frame):
        pass

    def st_Nonlocal(self, s, frame):
        frame.nonlocals.update(s.names)

    def st_Import(self, s, frame):
        for a in s.names:
            frame.set(a.asname or a.name.split(".")[0], VModule(a.name if a.asname else a.name.split(".")[0]))

    def st_ImportFrom(self, s, frame):
        mod = s.module or ""
        if s.level:
            pkg = frame.module.relpath[:-3].replace("/", ".").split(".")
            base = pkg[: len(pkg) - s.level]
            mod = ".".join(base + ([mod] if mod else []))
        for a in s.names:
            frame.set(a.asname or a.name, self.resolve_dotted(f"{mod}.{a.name}", s))

    def st_FunctionDef(self, s, frame):
        frame.set(s.name, VFunc("def", module=frame.module, qualname=f"{frame.qualname}.{s.name}", node=s, frame=frame, name=s.name))

    def st_Return(self, s, frame):
        v = self.eval(s.value, frame) if s.value is not None else NONE
        raise ReturnSig(v)

    def st_Break(self, s, frame):
        raise BreakSig()

    def st_Continue(self, s, frame):
        raise ContinueSig()

    def st_Assert(self, s, frame):
        v = self.eval(s.test, frame)
        if not self.branch(self.truth(v)):
            self.raise_exc("AssertionError", s)

    def st_Raise(self, s, frame):
        if s.exc is None:
            if frame.cur_exc is not None:
                raise frame.cur_exc
            self.raise_exc("RuntimeError", s)
        node = s.exc
        if s.cause is not None:
            self.eval(s.cause, frame)
        if isinstance(node, ast.Call):
            cls = self.eval(node.func, frame)
            # evaluate arguments for their (exceptional) effects, ignoring message text
            for a in node.args:
                if not isinstance(a, (ast.JoinedStr, ast.Constant)):
                    try:
                        self.eval(a, frame)
                    except OutOfSubset:
                        pass
            if isinstance(cls, VClass):
                self.raise_exc(cls.name, s)
            raise PyExc(None, site=s.lineno, any_of="Exception")
        v = self.eval(node, frame)
        if isinstance(v, VClass):
            self.raise_exc(v.name, s)
        if isinstance(v, VOpaque) and getattr(v, "exc", None) is not None:
            raise v.exc
        raise PyExc(None, site=s.lineno, any_of="Exception")

    def abstractable(self, s, frame):
        """options focus=[names]: a conditional that neither mentions a focus name nor leaves the
        function / loop can be replaced by the havoc of what it assigns (sound over-approximation
        that avoids forking on conditions irrelevant to the obligations of this contract)."""
        con = getattr(frame, "contract", None)
        foc = con.options.get("focus") if con is not None else None
        if not foc or self.call_depth > 0:
            return False
        for n in ast.walk(s):
            if isinstance(n, ast.Name) and n.id in foc:
                return False
            if isinstance(n, (ast.Return, ast.Break, ast.Continue, ast.Yield, ast.YieldFrom,
                              ast.FunctionDef, ast.Nonlocal, ast.Global)):
                return False
        return True

    def abstract_stmt(self, s, frame):
        rebound, mutated, calls = assigned_names([s])
        for name in sorted(rebound):
            frame.set(name, VOpaque(tag=f"abstracted:{name}"))
        for name in sorted(mutated):
            cur = frame.lookup(name)
            if isinstance(cur, VRef):
                self.havoc_effects(cur, mutated[name], name)
        may_raise = bool(calls) or any(isinstance(n, (ast.Raise, ast.Assert)) for n in ast.walk(s))
        if may_raise and not self.faults_pruned():
            if self.branch(fresh_bool("abstracted_raises"), free=True):
                raise PyExc(None, site=s.lineno, any_of=self.fault_bound())

    def st_If(self, s, frame):
        v = self.eval(s.test, frame)
        if self.branch(self.truth(v)):
            self.exec_block(s.body, frame)
        else:
            self.exec_block(s.orelse, frame)

    def st_Assign(self, s, frame):
        v = self.eval(s.value, frame)
        for t in s.targets:
            self.assign(t, v, frame)

    def st_AnnAssign(self, s, frame):
        if s.value is not None:
            self.assign(s.target, self.eval(s.value, frame), frame)

    def st_AugAssign(self, s, frame):
        t = s.target
        if isinstance(t, ast.Name):
            cur = self.lookup_name(t.id, frame, t)
            rhs = self.eval(s.value, frame)
            curd = self.deref(cur)
            if isinstance(cur, VRef) and isinstance(s.op, ast.Add) and isinstance(curd, (VSeq, VChunks)):
                # in-place extend of a mutable list/bytearray
                self.models.seq_extend(self, cur, rhs, s)
                return
            self.assign(t, self.binop(s.op, cur, rhs, s), frame)
        elif isinstance(t, ast.Subscript):
            base = self.eval(t.value, frame)
            idx = self.eval_index(t.slice, frame)
            cur = self.subscript(base, idx, t)
            rhs = self.eval(s.value, frame)
            self.store_subscript(base, idx, self.binop(s.op, cur, rhs, s), t)
        elif isinstance(t, ast.Attribute):
            base = self.eval(t.value, frame)
            cur = self.get_attr(base, t.attr, t, frame)
            rhs = self.eval(s.value, frame)
            self.set_attr(base, t.attr, self.binop(s.op, cur, rhs, s), t)
        else:
            raise OutOfSubset(s, "augmented assignment target")

    def st_Delete(self, s, frame):
        for t in s.targets:
            if isinstance(t, ast.Name):
                frame.env.pop(t.id, None)
            elif isinstance(t, ast.Subscript):
                base = self.eval(t.value, frame)
                idx = self.eval_index(t.slice, frame)
                self.models.del_subscript(self, base, idx, t)
            else:
                raise OutOfSubset(s, "del target")

    def assign(self, t, v, frame):
        if isinstance(t, ast.Name):
            frame.set(t.id, v)
        elif isinstance(t, (ast.Tuple, ast.List)):
            items = self.unpack(v, len(t.elts), t)
            for e, x in zip(t.elts, items):
                self.assign(e, x, frame)
        elif isinstance(t, ast.Subscript):
            base = self.eval(t.value, frame)
            idx = self.eval_index(t.slice, frame)
            self.store_subscript(base, idx, v, t)
        elif isinstance(t, ast.Attribute):
            base = self.eval(t.value, frame)
            self.set_attr(base, t.attr, v, t)
        else:
            raise OutOfSubset(t, "assignment target")

    def unpack(self, v, n, node):
        v = self.deref(v)
        if isinstance(v, VTuple):
            if len(v.items) != n:
                self.raise_exc("ValueError", node)
            return v.items
        if isinstance(v, VSeq):
            if not self.branch(v.n == n):
                self.raise_exc("ValueError", node)
            return [self.wrap_elem(v, v.at(z3.IntVal(i))) for i in range(n)]
        con0 = getattr(self.vf, "current", None)
        if isinstance(v, VOpaque) and getattr(v, "split_of", None) is not None and n == 2 \
                and con0 is not None and con0.options.get("exact_split_unpack"):
            # a, b = x.split(<one byte>): exactly when the separator occurs exactly once, at position p;
            # then a == x[:p] and b == x[p+1:]; any other number of occurrences is a ValueError (arity)
            from .models import seq_slice_raw
            sseq, sepb = v.split_of
            p = fresh_int("split_at")
            j = fresh_bound("j")
            once = z3.And(0 <= p, p < sseq.n, sseq.at(p) == sepb,
                          z3.ForAll([j], z3.Implies(z3.And(0 <= j, j < sseq.n, j != p), sseq.at(j) != sepb)))
            if not self.branch(self._split_once(sseq, sepb)):
                self.raise_exc("ValueError", node)
            self.assume(once)
            return [seq_slice_raw(sseq, z3.IntVal(0), p, "bytes"), seq_slice_raw(sseq, p + 1, sseq.n - p - 1, "bytes")]
        if isinstance(v, VOpaque):
            # unknown iterable: may have the wrong arity; its components are ghost projections of it
            if not self.branch(fresh_bool("unpack_ok")):
                self.raise_exc("ValueError", node)
            return [VOpaque(self.models.field_f(i, n)(v.t), tag=f"unpack{i}") for i in range(n)]
        raise OutOfSubset(node, f"unpack of {v!r}")

    def _split_once(self, sseq, sepb):
        """the byte sepb occurs exactly once in sseq (closed formula: fresh bound variables)"""
        p = fresh_bound("p")
        j = fresh_bound("j")
        return z3.Exists([p], z3.And(0 <= p, p < sseq.n, sseq.at(p) == sepb,
                                     z3.ForAll([j], z3.Implies(z3.And(0 <= j, j < sseq.n, j != p), sseq.at(j) != sepb))))

    def wrap_elem(self, seq: VSeq, t):
        if seq.esort == "val":
            return VOpaque(t, "elem")
        return VInt(t)

    # ---- loops
    def loop_spec(self, node, frame):
        fn = frame.fn_node
        con = getattr(frame, "contract", None)
        if fn is None:
            return None, 0
        lst = frame.__dict__.setdefault("_loops", None)
        if lst is None:
            lst = loops_of(fn)
            frame._loops = lst
        k = lst.index(node) + 1 if node in lst else 0
        if con is None:
            return None, k
        return con.loops.get(k), k

    def const_range(self, it, frame):
        """If `it` is range(c) / range(a,b) with small constant bounds return the list."""
        if isinstance(it, ast.Call) and isinstance(it.func, ast.Name) and it.func.id == "range" and not it.keywords:
            vals = []
            for a in it.args:
                try:
                    v = self.eval(a, frame)
                except (PyExc, OutOfSubset):
                    return None
                if not isinstance(v, VInt):
                    return None
                t = z3.simplify(v.t)
                if not z3.is_int_value(t):
                    return None
                vals.append(t.as_long())
            r = range(*vals)
            if len(r) <= self.vf.unroll_limit:
                return list(r)
        return None

    def st_While(self, s, frame):
        spec, k = self.loop_spec(s, frame)
        if self.vf.unroll_mode or (spec is not None and spec.unroll is not None):
            bound = self.vf.unroll_bound if self.vf.unroll_mode else spec.unroll
            n = 0
            while True:
                v = self.eval(s.test, frame)
                if not self.branch(self.truth(v)):
                    self.exec_block(s.orelse, frame)
                    return
                if n >= bound:
                    if self.vf.unroll_mode:
                        raise PathEnd("unroll bound")
                    self.prove(f"{self.vf.oid_prefix(frame)}:unroll-bound@loop{k}", False, "unroll", s)
                    raise PathEnd("unroll bound")
                n += 1
                try:
                    self.exec_block(s.body, frame)
                except BreakSig:
                    return
                except ContinueSig:
                    continue

        def cond():
            return self.truth(self.eval(s.test, frame))

        self.cut_loop(s, frame, spec, k, cond, lambda: None, s.body, s.orelse, extra_havoc=())

    def cut_loop(self, s, frame, spec, k, cond, pre_body, body, orelse, extra_havoc=(), hidden=None):
        pfx = self.vf.oid_prefix(frame)
        inv = list(spec.invariant) if spec else []
        env_extra = {k2: v2 for k2, v2 in (hidden or {}).items() if not k2.startswith("__")}
        wit_head, wit_next = {}, {}
        if spec and spec.witness:
            def _expr_fn(param, expr, more):
                def fn(eng, args, kwargs, node, fr):
                    ex = dict(wit_ctx[0])
                    ex.update(more)
                    ex[param] = args[0]
                    return eng.eval_spec(expr, frame, extra=ex)
                return VFunc("native", fn=fn, name="witness")
            wit_ctx = [env_extra]
            for wname, (param, init, update) in spec.witness.items():
                uf = z3.Function(fresh_name("wit_" + wname), z3.IntSort(), z3.IntSort())
                headf = VFunc("native", fn=(lambda eng, args, kwargs, node, fr, uf=uf: VInt(uf(self.models.as_int(eng, args[0])))), name="witness")
                wit_head[wname] = headf
                wit_next[wname] = _expr_fn(param, update, {"old_" + wname: headf})
                prev = getattr(frame, "ghost_fns", {}).get(wname)
                env_extra[wname] = _expr_fn(param, init, {"old_" + wname: prev} if prev is not None else {})
        # 1. invariant on entry
        for j, c in enumerate(inv):
            self.prove(f"{pfx}:inv-entry@loop{k}#{j + 1}", self.eval_goal(c, frame, extra=env_extra), "inv-entry", s, detail=c, frame=frame, extra=env_extra)
        # 2. havoc
        rebound, mutated, calls = assigned_names(body + ([s.test] if isinstance(s, ast.While) else []))
        rebound |= set(extra_havoc)
        keep = set(spec.keep) if spec else set()
        if spec:
            rebound |= set(spec.havoc)
        # closures called in the loop may rebind nonlocals
        for c in calls:
            if isinstance(c.func, ast.Name):
                fv = frame.lookup(c.func.id)
                if isinstance(fv, VFunc) and fv.kind == "def":
                    for n in ast.walk(fv.node):
                        if isinstance(n, ast.Nonlocal):
                            rebound |= set(n.names)
        pre = {}
        for name in sorted(rebound - keep):
            cur = frame.lookup(name)
            pre[name] = cur
            declared = spec.types.get(name) if spec else None
            if cur is None and not declared:
                continue  # loop-local, defined in the body before use
            if isinstance(cur, (VFunc, VClass, VModule)):
                continue
            if isinstance(cur, VNone) and not declared:
                con0 = getattr(frame, "contract", None)
                if con0 is not None and con0.options.get("default_param") == "opaque":
                    declared = "opaque?"        # effect-discipline contracts: untracked value or still None
                else:
                    raise OutOfSubset(s, f"loop {k} rebinds {name!r} which is None before the loop; declare its type in the loop spec")
            if isinstance(cur, VRef) and not declared:
                # rebinding of a variable holding a reference: keep reference, havoc content
                mutated.setdefault(name, set()).add("*")
                continue
            owner = frame.owner(name) or frame
            owner.env[name] = self.havoc_like(cur, name, declared)
        for name in sorted(set(mutated) - keep):
            cur = frame.lookup(name)
            if isinstance(cur, VRef):
                declared = spec.types.get(name) if spec else None
                if declared:
                    tmp = self.make(declared, name)
                    self.heap[cur.addr] = self.heap.pop(tmp.addr) if isinstance(tmp, VRef) else tmp
                else:
                    self.havoc_effects(cur, mutated[name], name)
        if hidden is not None:
            for hn in list(hidden):
                if hn.startswith("_it"):
                    hidden[hn] = VInt(z3.Int(fresh_name(hn)))
                    self.assume(hidden[hn].t >= 0)       # iteration counter
                    if hidden.get("__bound__") is not None:
                        self.assume(hidden[hn].t <= hidden["__bound__"].t)      # never beyond the iterable's length
                elif hn.startswith("_lo") or hn.startswith("_pre"):
                    hidden[hn] = VInt(z3.Int(fresh_name(hn)))
            if "__at_head__" in hidden:
                hidden["__at_head__"](hidden)
            env_extra = {k2: v2 for k2, v2 in hidden.items() if not k2.startswith("__")}
        env_extra = dict(env_extra, **wit_head)
        if wit_head:
            if not hasattr(frame, "ghost_fns"):
                frame.ghost_fns = {}
            frame.ghost_fns.update(wit_head)
        self.loop_old[k] = pre
        # 3. assume invariant
        for c in inv:
            self.assume(self.eval_spec_bool(c, frame, extra=env_extra))
        if spec:
            for gname, gexpr in spec.snapshot.items():
                frame.set(gname, self.eval_spec(gexpr, frame, extra=env_extra))
        m0 = None
        if spec and spec.decreases:
            m0 = self.eval_spec(spec.decreases, frame, extra=env_extra)
        # 4. fork on the loop condition
        entered = self.branch(cond(hidden) if hidden is not None else cond())
        if not entered:
            self.exec_block(orelse, frame)
            return
        if m0 is not None:
            self.prove(f"{pfx}:variant-nonneg@loop{k}", m0.t >= 0, "variant", s, detail=spec.decreases)
        try:
            pre_body(hidden) if hidden is not None else pre_body()
            self.exec_block(body, frame)
        except BreakSig:
            return
        except ContinueSig:
            pass
        if hidden is not None:
            for hn in list(hidden):
                if hn.startswith("_it"):
                    hidden[hn] = VInt(hidden[hn].t + 1)
            if "__advance__" in hidden:
                hidden["__advance__"](hidden)
            env_extra = {k2: v2 for k2, v2 in hidden.items() if not k2.startswith("__")}
        if wit_next:
            env_extra = {k2: v2 for k2, v2 in env_extra.items() if k2 not in wit_head}
            wit_ctx[0] = dict(env_extra)
            env_extra = dict(env_extra, **wit_next)
        for j, c in enumerate(inv):
            self.prove(f"{pfx}:inv-preserved@loop{k}#{j + 1}", self.eval_goal(c, frame, extra=env_extra), "inv-preserved", s, detail=c, frame=frame, extra=env_extra)
        if m0 is not None:
            m1 = self.eval_spec(spec.decreases, frame, extra=env_extra)
            self.prove(f"{pfx}:variant-decreases@loop{k}", m1.t < m0.t, "variant", s, detail=spec.decreases)
        raise PathEnd("loop iteration end")

    def st_For(self, s, frame):
        spec, k = self.loop_spec(s, frame)
        cr = self.const_range(s.iter, frame)
        if cr is not None and not (spec and spec.invariant):
            broke = False
            for val in cr:
                self.assign(s.target, VInt(val), frame)
                try:
                    self.exec_block(s.body, frame)
                except BreakSig:
                    broke = True
                    break
                except ContinueSig:
                    continue
            if not broke:
                self.exec_block(s.orelse, frame)
            return
        it = self.eval(s.iter, frame)
        itd = self.deref(it)
        # concrete tuple / list of known arity: unroll
        if isinstance(itd, VTuple) or (isinstance(itd, VSeq) and itd.const_len() is not None and itd.const_len() <= self.vf.unroll_limit
                                       and not (spec and spec.invariant)):
            items = itd.items if isinstance(itd, VTuple) else [self.wrap_elem(itd, itd.at(z3.IntVal(i))) for i in range(itd.const_len())]
            broke = False
            for x in items:
                self.assign(s.target, x, frame)
                try:
                    self.exec_block(s.body, frame)
                except BreakSig:
                    broke = True
                    break
                except ContinueSig:
                    continue
            if not broke:
                self.exec_block(s.orelse, frame)
            return
        if self.vf.unroll_mode:
            raise OutOfSubset(s, "for over symbolic iterable in unroll mode")
        hidden = {f"_it{k}": VInt(0)}
        if getattr(itd, "split_of", None) is not None:
            pass
        rng = getattr(it, "range", None)
        if rng is not None:
            lo, hi, step = rng
            if not (z3.is_int_value(z3.simplify(step)) and z3.simplify(step).as_long() == 1):
                raise OutOfSubset(s, "range step != 1 in cut loop")
            count = z3.If(hi > lo, hi - lo, 0)

            def cond(h):
                return h[f"_it{k}"].t < count

            def pre_body(h):
                self.assign(s.target, VInt(lo + h[f"_it{k}"].t), frame)
        elif getattr(itd, "split_of", None) is not None:
            # for seg in s.split(sep): segments are the maximal sep-free windows, in order.  Hidden state
            # _lo<k> = start of the next segment (0 at entry, previous end + 1 afterwards, len+1 at exhaustion)
            sseq, sepb = itd.split_of
            hidden = {f"_lo{k}": VInt(0), f"_it{k}": VInt(0)}

            def cond(h):
                return h[f"_lo{k}"].t <= sseq.n

            def pre_body(h):
                lo = h[f"_lo{k}"].t
                hi = fresh_int("seg_hi")
                j = fresh_bound("j")
                self.assume(z3.And(lo <= hi, hi <= sseq.n,
                                   z3.ForAll([j], z3.Implies(z3.And(lo <= j, j < hi), sseq.at(j) != sepb)),
                                   z3.Or(hi == sseq.n, sseq.at(hi) == sepb)))
                h["__hi__"] = hi
                self.assign(s.target, seq_slice_raw(sseq, lo, z3.simplify(hi - lo), "bytes"), frame)

            def advance(h):
                h[f"_lo{k}"] = VInt(h["__hi__"] + 1)

            def at_head(h):
                lo = h[f"_lo{k}"].t
                self.assume(z3.And(0 <= lo, lo <= sseq.n + 1, z3.Or(lo == 0, sseq.at(lo - 1) == sepb)))
            hidden["__advance__"] = advance
            hidden["__at_head__"] = at_head
        elif isinstance(itd, VChunks):
            # for chunk in <list of byte strings>: the chunks are consecutive windows of the concatenation.
            # Hidden state: _it<k> = chunks consumed, _pre<k> = bytes consumed (0 at entry, total at exhaustion)
            ch = itd
            hidden = {f"_it{k}": VInt(0), f"_pre{k}": VInt(0)}

            def cond(h):
                return h[f"_it{k}"].t < ch.count

            def pre_body(h):
                pre = h[f"_pre{k}"].t
                ln = fresh_int("chunk_len")
                self.assume(z3.And(ln >= 0, pre + ln <= ch.join.n))
                h["__len__"] = ln
                self.assign(s.target, seq_slice_raw(ch.join, pre, ln, "bytes"), frame)

            def advance(h):
                h[f"_pre{k}"] = VInt(h[f"_pre{k}"].t + h["__len__"])

            def at_head(h):
                it_, pre = h[f"_it{k}"].t, h[f"_pre{k}"].t
                self.assume(z3.And(0 <= it_, it_ <= ch.count, 0 <= pre, pre <= ch.join.n,
                                   z3.Implies(it_ == ch.count, pre == ch.join.n), z3.Implies(it_ == 0, pre == 0)))
            hidden["__advance__"] = advance
            hidden["__at_head__"] = at_head
        elif getattr(itd, "enum_of", None) is not None:
            snap = itd.enum_of

            def cond(h):
                return h[f"_it{k}"].t < snap.n

            def pre_body(h):
                i = h[f"_it{k}"].t
                self.assign(s.target, VTuple([VInt(i), self.wrap_elem(snap, snap.at(i))]), frame)
        elif isinstance(itd, VSeq):
            snap = itd

            def cond(h):
                return h[f"_it{k}"].t < snap.n

            def pre_body(h):
                self.assign(s.target, self.wrap_elem(snap, snap.at(h[f"_it{k}"].t)), frame)
        elif isinstance(itd, VOpaque) and getattr(itd, "item_type", None) is None and getattr(itd, "split_of", None) is None \
                and getattr(itd, "range", None) is None:
            # an untracked iterable: item number i is elem(iterable, i) and there are len_of(iterable) of them, so that
            # two loops over the same (unmodified) list see the same elements (ghost functions)
            ln_t = self.models.len_of_f(itd.t)
            self.assume(ln_t >= 0)
            hidden[f"_seq{k}"] = itd       # the iterated (untracked) value itself, for invariants: elem(_seq<k>, j)

            def cond(h):
                return h[f"_it{k}"].t < ln_t

            def pre_body(h):
                self.assign(s.target, VOpaque(self.models.elem_f(itd.t, h[f"_it{k}"].t), "elem"), frame)
        elif isinstance(itd, (VOpaque, VDict, VSet)) or getattr(it, "iter_opaque", False):
            more = []

            def cond(h):
                b = fresh_bool("has_next")
                return b

            def pre_body(h):
                val = self.models.opaque_iter_item(self, it, s)
                self.assign(s.target, val, frame)
        else:
            raise OutOfSubset(s, f"for over {itd!r}")
        tnames, _, _ = assigned_names([ast.Assign(targets=[s.target], value=ast.Constant(value=0))])
        # the hidden index starts at 0: invariant entry is checked with _it = 0
        bound = None
        if rng is not None:
            bound = count
        elif getattr(itd, "enum_of", None) is not None:
            bound = itd.enum_of.n
        elif isinstance(itd, VSeq):
            bound = itd.n
        elif isinstance(itd, VOpaque) and getattr(itd, "item_type", None) is None and getattr(itd, "split_of", None) is None:
            bound = self.models.len_of_f(itd.t)
        hidden["__bound__"] = VInt(bound) if bound is not None else None
        self.cut_loop(s, frame, spec, k, cond, pre_body, s.body, s.orelse, extra_havoc=tnames, hidden=hidden)

    # ---- try / with
    def st_Try(self, s, frame):
        def run_final():
            if s.finalbody:
                self.exec_block(s.finalbody, frame)

        try:
            try:
                self.try_depth += 1
                try:
                    self.exec_block(s.body, frame)
                finally:
                    self.try_depth -= 1
            except PyExc as e:
                handled = False
                for h in s.handlers:
                    if self.exc_matches(e, h.type, frame):
                        handled = True
                        saved = frame.cur_exc
                        frame.cur_exc = e
                        if h.name:
                            ev = VOpaque(tag=f"exc:{e.cls}")
                            ev.exc = e
                            frame.set(h.name, ev)
                        try:
                            self.exec_block(h.body, frame)
                        finally:
                            frame.cur_exc = saved
                        break
                if not handled:
                    raise
            else:
                self.exec_block(s.orelse, frame)
        except PyExc:
            frame.in_exc_finally = getattr(frame, "in_exc_finally", 0) + 1
            try:
                run_final()   # if the finally block raises/returns itself, that overrides
            finally:
                frame.in_exc_finally -= 1
            raise
        except (ReturnSig, BreakSig, ContinueSig):
            run_final()
            raise
        else:
            run_final()

    def st_With(self, s, frame):
        self.exec_with(s, 0, frame)

    def exec_with(self, s, i, frame):
        if i == len(s.items):
            self.exec_block(s.body, frame)
            return
        item = s.items[i]
        mgr = self.eval(item.context_expr, frame)
        entered = self.models.ctx_enter(self, mgr, item.context_expr, frame)
        if item.optional_vars is not None:
            self.assign(item.optional_vars, entered, frame)
        try:
            self.try_depth += 1
            try:
                self.exec_with(s, i + 1, frame)
            finally:
                self.try_depth -= 1
        except PyExc as e:
            suppressed = self.models.ctx_exit(self, mgr, e, item.context_expr, frame)
            if not suppressed:
                raise
        except (ReturnSig, BreakSig, ContinueSig):
            self.models.ctx_exit(self, mgr, None, item.context_expr, frame)
            raise
        else:
            self.models.ctx_exit(self, mgr, None, item.context_expr, frame)

    # ---------------------------------------------------------------- expressions
    def truth(self, v):
        v = self.deref(v)
        return v.truthy()

    def eval(self, e, frame) -> V:
        m = getattr(self, "ev_" + type(e).__name__, None)
        if m is None:
            raise OutOfSubset(e, f"expression {type(e).__name__}")
        return m(e, frame)

    def ev_Constant(self, e, frame):
        c = e.value
        if c is None:
            return NONE
        if isinstance(c, bool):
            return VBool(c)
        if isinstance(c, int):
            return VInt(c)
        if isinstance(c, bytes):
            return seq_const(c, "bytes")
        if isinstance(c, str):
            return VStr(c)
        if c is Ellipsis:
            return VOpaque(tag="Ellipsis")
        if isinstance(c, float):
            return VOpaque(tag=f"float:{c}")
        raise OutOfSubset(e, f"constant {c!r}")

    def ev_JoinedStr(self, e, frame):
        # f-string: text not modelled; embedded expressions are evaluated for effects only when simple
        return self.models.fstring(self, e, frame)

    def lookup_name(self, name, frame, node):
        if self.spec and self.spec_env is not None and name in self.spec_env:
            return self.spec_env[name]
        v = frame.lookup(name)
        if v is not None:
            return v
        return self.resolve_global(name, frame, node)

    def ev_Name(self, e, frame):
        return self.lookup_name(e.id, frame, e)

    def resolve_global(self, name, frame, node):
        mod = frame.module
        if self.spec and name in self.vf.specs:
            return VFunc("spec", name=name)
        if name in mod.defs:
            n = mod.defs[name]
            if isinstance(n, ast.ClassDef):
                return VClass(name, mod.relpath)
            return VFunc("def", module=mod, qualname=name, node=n, frame=None, name=name)
        if name in mod.assigns:
            key = (mod.relpath, name)
            if key in self.vf.global_cache:
                return self.vf.global_cache[key]
            val = mod.assigns[name]
            gf = Frame(mod, "<module>")
            try:
                v = self.eval(val, gf)
            except (OutOfSubset, PyExc) as ex:
                v = VOpaque(tag=f"global:{name}")
            if isinstance(v, (VInt, VStr, VSet, VClass, VFunc, VBool, VNone)) or (isinstance(v, VSeq) and hasattr(v, "items")) or isinstance(v, VTuple):
                self.vf.global_cache[key] = v
            elif isinstance(v, VRef) and isinstance(self.heap.get(v.addr), VDict):
                pass     # module-level table: re-evaluated per path (heap is per path); treated as never mutated
            return v
        if name in mod.imports:
            return self.resolve_dotted(mod.imports[name], node)
        if self.spec and name in self.vf.specs:
            return VFunc("spec", name=name)
        if hasattr(builtins, name):
            b = getattr(builtins, name)
            if isinstance(b, type):
                return VClass(name)
            return VFunc("model", name=name)
        if name in self.vf.specs:
            return VFunc("spec", name=name)
        raise OutOfSubset(node, f"unresolved name {name!r}")

    def resolve_dotted(self, dotted, node):
        """Resolve an imported dotted name to a def in a dulwich module, a class, or a stdlib model."""
        parts = dotted.split(".")
        if parts[0] == "dulwich":
            # dulwich.x.y.name
            for cut in range(len(parts), 0, -1):
                rel = "/".join(parts[:cut]) + ".py"
                rel2 = "/".join(parts[:cut]) + "/__init__.py"
                for r in (rel, rel2):
                    if os.path.exists(os.path.join(self.root, r)):
                        mod = ModuleInfo.get(self.root, r)
                        rest = parts[cut:]
                        if not rest:
                            m = VModule(dotted)
                            m.info = mod
                            return m
                        name = rest[0]
                        if name in mod.defs:
                            n = mod.defs[name]
                            if isinstance(n, ast.ClassDef):
                                return VClass(name, mod.relpath)
                            return VFunc("def", module=mod, qualname=name, node=n, frame=None, name=name)
                        if name in mod.assigns or name in mod.imports:
                            return self.resolve_global(name, Frame(mod, "<module>"), node)
            return VOpaque(tag=dotted)
        if self.models.has_model(dotted):
            return VFunc("model", name=dotted)
        if dotted in STDLIB_CONSTS:
            c = STDLIB_CONSTS[dotted]
            return VInt(c) if isinstance(c, int) else VStr(c)
        top = parts[0]
        if len(parts) == 1:
            return VModule(top)
        # class from stdlib?
        try:
            import importlib
            m = importlib.import_module(".".join(parts[:-1]))
            obj = getattr(m, parts[-1], None)
            if isinstance(obj, type):
                return VClass(parts[-1], ".".join(parts[:-1]))
        except Exception:
            pass
        return VFunc("model", name=dotted)

    def ev_Attribute(self, e, frame):
        base = self.eval(e.value, frame)
        return self.get_attr(base, e.attr, e, frame)

    def get_attr(self, base, attr, node, frame=None):
        if isinstance(base, VModule):
            info = getattr(base, "info", None)
            if info is not None:
                return self.resolve_global(attr, Frame(info, "<module>"), node)
            return self.resolve_dotted(f"{base.name}.{attr}", node)
        b = self.deref(base)
        if isinstance(b, VObj):
            if attr in b.fields:
                return b.fields[attr]
            # property / method under contract?
            if (b.cls, attr) in self.models.OBJ_MODELS:
                return VFunc("bound", recv=base, name=attr)
            con = C.find_method(b.cls, attr)
            if con is not None and con.options.get("property"):
                return self.call_contract(con, [base], {}, node, frame)
            if con is None:
                loc = self.vf.find_method_def(b.cls, attr)
                if loc is not None and any((isinstance(d, ast.Name) and d.id in ("property", "cached_property"))
                                           or (isinstance(d, ast.Attribute) and d.attr in ("cached_property",))
                                           for d in loc[1].decorator_list):
                    # property without contract: evaluate as an untracked getter
                    return self.models.opaque_method(self, base, b, attr, [], {}, node)
            if con is not None or self.vf.has_method(b.cls, attr):
                return VFunc("bound", recv=base, name=attr)
            cs = C.CLASS_SPECS.get(b.cls)
            if cs and attr in cs.fields:
                v = self.make(cs.fields[attr], f"{b.cls}.{attr}")
            else:
                v = VOpaque(tag=f"{b.cls}.{attr}")
                v.maybe_method = (base, attr)
            if isinstance(base, VRef):
                o = self.heap[base.addr]
                nf = dict(o.fields)
                nf[attr] = v
                self.heap[base.addr] = VObj(o.cls, nf, o.ident)
            return v
        if isinstance(b, VClass):
            return VFunc("model", name=f"{b.name}.{attr}", cls=b)
        r = self.models.get_attr(self, base, b, attr, node)
        if r is not None:
            return r
        return VFunc("bound", recv=base, name=attr)

    def set_attr(self, base, attr, v, node):
        if isinstance(base, VRef):
            o = self.heap[base.addr]
            if isinstance(o, VObj):
                nf = dict(o.fields)
                nf[attr] = v
                self.heap[base.addr] = VObj(o.cls, nf, o.ident)
                self.models.on_set_attr(self, base, attr, v, node)
                return
        if isinstance(base, VOpaque):
            return  # effect on an untracked object
        raise OutOfSubset(node, f"attribute assignment on {base!r}")

    def ev_UnaryOp(self, e, frame):
        v = self.eval(e.operand, frame)
        if isinstance(e.op, ast.Not):
            return VBool(z3.Not(self.truth(v)))
        v = self.deref(v)
        if isinstance(e.op, ast.USub):
            if isinstance(v, VBool):
                v = VInt(z3.If(v.t, 1, 0))
            if isinstance(v, VInt):
                return VInt(-v.t)
        if isinstance(e.op, ast.UAdd) and isinstance(v, VInt):
            return v
        if isinstance(e.op, ast.Invert) and isinstance(v, VInt):
            return VInt(-v.t - 1)
        if isinstance(v, VOpaque):
            return VOpaque(tag="unary")
        raise OutOfSubset(e, f"unary {type(e.op).__name__} on {v!r}")

    def ev_BoolOp(self, e, frame):
        if self.spec:
            # specification connectives are total: an operand that is ill-typed on this path
            # (e.g. len(data) where data is None here) denotes an unconstrained truth value
            ts = []
            for x in e.values:
                try:
                    ts.append(self.truth(self.eval(x, frame)))
                except (OutOfSubset, EngineError, AttributeError, TypeError):
                    ts.append(fresh_bool("illtyped"))
            return VBool(z3.And(ts) if isinstance(e.op, ast.And) else z3.Or(ts))
        v = None
        for i, x in enumerate(e.values):
            v = self.eval(x, frame)
            if i == len(e.values) - 1:
                return v
            t = self.branch(self.truth(v))
            if isinstance(e.op, ast.And) and not t:
                return v
            if isinstance(e.op, ast.Or) and t:
                return v
        return v

    def ev_IfExp(self, e, frame):
        if self.spec:
            c = z3.simplify(self.truth(self.eval(e.test, frame)))
            if z3.is_true(c):
                return self.eval(e.body, frame)
            if z3.is_false(c):
                return self.eval(e.orelse, frame)
            a = self.eval(e.body, frame)
            b = self.eval(e.orelse, frame)
            return self.ite(c, a, b, e)
        if self.branch(self.truth(self.eval(e.test, frame))):
            return self.eval(e.body, frame)
        return self.eval(e.orelse, frame)

    def ite(self, c, a, b, node):
        a, b = self.deref(a), self.deref(b)
        if isinstance(a, VInt) and isinstance(b, VInt):
            return VInt(z3.If(c, a.t, b.t))
        if isinstance(a, VBool) and isinstance(b, VBool):
            return VBool(z3.If(c, a.t, b.t))
        if isinstance(a, VSeq) and isinstance(b, VSeq):
            return VSeq(lambda k: z3.If(c, a.at(k), b.at(k)), z3.If(c, a.n, b.n), a.kind, esort=a.esort)
        if isinstance(a, VTuple) and isinstance(b, VTuple) and len(a.items) == len(b.items):
            return VTuple([self.ite(c, x, y, node) for x, y in zip(a.items, b.items)])
        if isinstance(a, (VOpaque, VNone)) or isinstance(b, (VOpaque, VNone)):
            # at least one untracked value: the result is an untracked value (the other side injected)
            return VOpaque(z3.If(c, self.models.to_val(self, a), self.models.to_val(self, b)), tag="ite")
        raise OutOfSubset(node, f"if-expression over {a!r} / {b!r} in a spec")

    def ev_Tuple(self, e, frame):
        return VTuple([self.eval(x, frame) for x in e.elts])

    def ev_List(self, e, frame):
        if any(isinstance(x, ast.Starred) for x in e.elts):
            # [a, b, *rest]: leading elements are known, the unpacked tail is not tracked
            lead = []
            for x in e.elts:
                if isinstance(x, ast.Starred):
                    break
                lead.append(self.eval(x, frame))
            for x in e.elts[len(lead):]:
                self.eval(x.value if isinstance(x, ast.Starred) else x, frame)
            arr = fresh_arr("starlist", Val)
            n = fresh_int("starlist_len")
            self.assume(n >= len([x for x in e.elts if not isinstance(x, ast.Starred)]))
            for i, v in enumerate(lead):
                self.assume(arr[i] == self.models.to_val(self, v))
            return self.alloc(seq_from_array(arr, n, "list", esort="val"))
        items = [self.eval(x, frame) for x in e.elts]
        return self.models.make_list(self, items, e)

    def ev_Set(self, e, frame):
        items = [self.eval(x, frame) for x in e.elts]
        return self.models.make_set(self, items, e)

    def ev_Dict(self, e, frame):
        return self.models.make_dict(self, [(self.eval(k, frame) if k is not None else None, self.eval(v, frame)) for k, v in zip(e.keys, e.values)], e)

    def ev_ListComp(self, e, frame):
        return self.models.comprehension(self, e, frame, "list")

    def ev_GeneratorExp(self, e, frame):
        return self.models.comprehension(self, e, frame, "gen")

    def ev_SetComp(self, e, frame):
        return self.models.comprehension(self, e, frame, "set")

    def ev_DictComp(self, e, frame):
        return self.models.comprehension(self, e, frame, "dict")

    def ev_Lambda(self, e, frame):
        return VFunc("lambda", node=e, frame=frame, name="<lambda>")

    def ev_NamedExpr(self, e, frame):
        v = self.eval(e.value, frame)
        self.assign(e.target, v, frame)
        return v

    def ev_Yield(self, e, frame):
        return self.do_yield(e, frame)

    def ev_YieldFrom(self, e, frame):
        return self.do_yield(e, frame)

    def ev_Starred(self, e, frame):
        raise OutOfSubset(e, "starred expression")

    def ev_Compare(self, e, frame):
        left = self.eval(e.left, frame)
        res = None
        for op, rn in zip(e.ops, e.comparators):
            right = self.eval(rn, frame)
            t = None
            if isinstance(op, (ast.In, ast.NotIn)) and isinstance(rn, ast.Name):
                con0 = getattr(self.vf, "current", None)
                rv = self.deref(right)
                if con0 is not None and rn.id in con0.options.get("immutable_sets", ()) and isinstance(rv, VOpaque):
                    # membership in an untracked container that the function never mutates (syntactic guard in verify.py):
                    # a deterministic ghost relation, the same in code and in specifications
                    t = self.models.member_f(rv.t, self.models.to_val(self, left))
                    if isinstance(op, ast.NotIn):
                        t = z3.Not(t)
            if t is None:
                t = self.compare(op, left, right, e)
            if res is None:
                res = t
            else:
                res = z3.And(res, t)
            if not self.spec and len(e.ops) > 1:
                # chained comparison short-circuits; operands here are side-effect free in practice
                pass
            left = right
        return VBool(res)

    def compare(self, op, a, b, node):
        return self.models.compare(self, op, a, b, node)

    def ev_BinOp(self, e, frame):
        a = self.eval(e.left, frame)
        b = self.eval(e.right, frame)
        return self.binop(e.op, a, b, e)

    def binop(self, op, a, b, node):
        return self.models.binop(self, op, a, b, node)

    def ev_Subscript(self, e, frame):
        base = self.eval(e.value, frame)
        idx = self.eval_index(e.slice, frame)
        return self.subscript(base, idx, e)

    def eval_index(self, sl, frame):
        if isinstance(sl, ast.Slice):
            lo = self.eval(sl.lower, frame) if sl.lower is not None else None
            hi = self.eval(sl.upper, frame) if sl.upper is not None else None
            st = self.eval(sl.step, frame) if sl.step is not None else None
            return ("slice", lo, hi, st)
        return self.eval(sl, frame)

    def subscript(self, base, idx, node):
        return self.models.subscript(self, base, idx, node)

    def store_subscript(self, base, idx, v, node):
        return self.models.store_subscript(self, base, idx, v, node)

    def ev_Call(self, e, frame):
        # spec-level special forms
        if isinstance(e.func, ast.Name):
            fn = e.func.id
            if self.spec and fn == "old":
                return self.eval_old(e.args[0], frame)
            if fn in ("all", "any") and len(e.args) == 1 and isinstance(e.args[0], ast.GeneratorExp) and self.spec:
                return self.quantifier(fn, e.args[0], frame)
        f = self.eval(e.func, frame)
        args = []
        dynamic = False
        for a in e.args:
            if isinstance(a, ast.Starred):
                sv = self.deref(self.eval(a.value, frame))
                if isinstance(sv, VTuple):
                    args.extend(sv.items)
                else:
                    dynamic = True
                    args.append(sv)
            else:
                args.append(self.eval(a, frame))
        kwargs = {}
        for k in e.keywords:
            if k.arg is None:
                dynamic = True
                args.append(self.eval(k.value, frame))
                continue
            kwargs[k.arg] = self.eval(k.value, frame)
        if dynamic:
            if self.spec:
                raise OutOfSubset(e, "*args/**kwargs call in a spec")
            # argument list only known at run time: the callee is applied to untracked arguments
            return self.opaque_call("<call with *args/**kwargs>", args + list(kwargs.values()), e)
        return self.call(f, args, kwargs, e, frame)

    def eval_old(self, node, frame):
        if self.old_state is None:
            raise EngineError("old() outside a postcondition")
        env0, heap0 = self.old_state
        saved_heap, saved_env = self.heap, self.spec_env
        self.heap = heap0
        self.spec_env = dict(env0)
        try:
            v = self.eval(node, frame)
            if isinstance(v, VRef) and isinstance(heap0.get(v.addr), (VDict, VSet)):
                # old(<mutable container>): the CONTENT at entry, not a reference that would be read in the new heap
                v = heap0[v.addr]
            return v
        finally:
            self.heap, self.spec_env = saved_heap, saved_env

    def quantifier(self, which, gen, frame):
        if len(gen.generators) != 1:
            raise OutOfSubset(gen, "nested quantifier generators")
        g = gen.generators[0]
        if isinstance(g.target, ast.Name) and not (isinstance(g.iter, ast.Call) and isinstance(g.iter.func, ast.Name) and g.iter.func.id == "range"):
            # quantification over the members of a tracked set of untracked values (characteristic array over Val)
            dv = self.deref(self.eval(g.iter, frame))
            if isinstance(dv, VSet) and dv.arr is not None and dv.arr.sort().domain() == self.models.Val:
                x = z3.Const(fresh_name("bv!" + g.target.id), self.models.Val)
                saved = self.spec_env
                self.spec_env = dict(saved or {})
                self.spec_env[g.target.id] = VOpaque(x, tag="member")
                try:
                    conds = [self.truth(self.eval(c, frame)) for c in g.ifs]
                    body = self.truth(self.eval(gen.elt, frame))
                finally:
                    self.spec_env = saved
                dom = z3.And([dv.arr[x]] + conds)
                return VBool(z3.ForAll([x], z3.Implies(dom, body)) if which == "all" else z3.Exists([x], z3.And(dom, body)))
        if not (isinstance(g.iter, ast.Call) and isinstance(g.iter.func, ast.Name) and g.iter.func.id == "range" and isinstance(g.target, ast.Name)):
            raise OutOfSubset(gen, "quantifier domain must be range(...)")
        bounds = [self.eval(a, frame) for a in g.iter.args]
        if len(bounds) == 1:
            lo, hi = z3.IntVal(0), bounds[0].t
        else:
            lo, hi = bounds[0].t, bounds[1].t
        k = z3.Int(fresh_name("bv!" + g.target.id))
        saved = self.spec_env
        self.spec_env = dict(saved or {})
        self.spec_env[g.target.id] = VInt(k)
        try:
            conds = [self.truth(self.eval(c, frame)) for c in g.ifs]
            body = self.truth(self.eval(gen.elt, frame))
        finally:
            self.spec_env = saved
        dom = z3.And([lo <= k, k < hi] + conds)
        if which == "all":
            return VBool(z3.ForAll([k], z3.Implies(dom, body)))
        ex = z3.Exists([k], z3.And(dom, body))
        con0 = getattr(self.vf, "current", None)
        wexpr = (con0.options.get("witness", {}) if con0 is not None else {}).get(g.target.id)
        if wexpr is not None and self.goal_mode and self.call_depth == 0:
            # the contract names a witness for this existential (options.witness): body[w] /\ dom[w] implies the existential,
            # so offering it as a disjunct is sound and spares the solver the instantiation
            try:
                w = self.eval(self.vf.parse_spec(wexpr), frame)
                wt = self.models.as_int(self, w)
                if wt is not None:
                    # re-evaluate the body AT the witness (not a substitution): spec functions then unfold for these terms
                    saved2 = self.spec_env
                    self.spec_env = dict(saved2 or {})
                    self.spec_env[g.target.id] = VInt(wt)
                    try:
                        conds_w = [self.truth(self.eval(c, frame)) for c in g.ifs]
                        body_w = self.truth(self.eval(gen.elt, frame))
                    finally:
                        self.spec_env = saved2
                    ex = z3.Or(ex, z3.And([lo <= wt, wt < hi] + conds_w + [body_w]))
            except (OutOfSubset, EngineError):
                pass
        return VBool(ex)

    # ---------------------------------------------------------------- spec evaluation
    def eval_spec(self, expr: str, frame, extra=None) -> V:
        node = self.vf.parse_spec(expr)
        saved = (self.spec, self.spec_env)
        self.spec = True
        env = dict(self.spec_env or {}) if saved[0] else {}
        gf = getattr(frame, "ghost_fns", None)
        if gf:
            for k2, v2 in gf.items():
                env.setdefault(k2, v2)      # witness functions of loops already passed (lowest priority)
        if extra:
            env.update(extra)
        self.spec_env = env
        try:
            return self.eval(node, frame)
        except OutOfSubset as ex:
            raise EngineError(f"spec expression {expr!r}: {ex}")
        finally:
            self.spec, self.spec_env = saved

    def eval_spec_bool(self, expr, frame, extra=None):
        try:
            return self.truth(self.eval_spec(expr, frame, extra))
        except EngineError as ex:
            if "VNone" in str(ex) or "NoneType" in str(ex):
                # the clause is ill-typed in this state (a value it dereferences is None here): it does not hold
                return z3.BoolVal(False)
            raise

    def eval_goal(self, expr, frame, extra=None):
        """Evaluate a spec expression that is about to be proved (spec functions may unfold)."""
        saved = self.goal_mode
        self.goal_mode = True
        try:
            return self.truth(self.eval_spec(expr, frame, extra))
        finally:
            self.goal_mode = saved

    # ---------------------------------------------------------------- calls
    def call(self, f, args, kwargs, node, frame):
        if isinstance(f, VFunc):
            if f.kind == "spec":
                return self.vf.specs[f.name].sym(self, *args, **kwargs)
            if f.kind == "model":
                return self.models.call_model(self, f, args, kwargs, node, frame)
            if f.kind == "bound":
                return self.call_method(f.recv, f.name, args, kwargs, node, frame)
            if f.kind == "def":
                return self.call_def(f, args, kwargs, node, frame)
            if f.kind == "lambda":
                return self.call_lambda(f, args, kwargs, node)
            if f.kind == "abstract":
                return self.models.call_abstract(self, f, args, kwargs, node, frame)
            if f.kind == "native":
                return f.fn(self, args, kwargs, node, frame)
        if isinstance(f, VClass):
            return self.models.construct(self, f, args, kwargs, node, frame)
        if isinstance(f, VOpaque):
            mm = getattr(f, "maybe_method", None)
            if mm is not None:
                return self.call_method(mm[0], mm[1], args, kwargs, node, frame)
            return self.opaque_call(f"<call of {f.tag}>", [f] + args, node)
        raise OutOfSubset(node, f"call of {f!r}")

    def call_lambda(self, f, args, kwargs, node):
        fr = Frame(f.frame.module, f.frame.qualname + ".<lambda>", parent=f.frame)
        a = f.node.args
        for p, v in zip(a.args, args):
            fr.env[p.arg] = v
        return self.eval(f.node.body, fr)

    def call_def(self, f: VFunc, args, kwargs, node, frame):
        con = C.lookup(f.module.relpath, f.qualname)
        cur = getattr(self.vf, "current", None)
        if cur is not None and self.call_depth == 0:
            ov = cur.options.get("callee_contracts", {}).get(f.qualname)
            if ov is not None:
                # the caller is verified against a ghost-level view of this callee
                con = C.lookup(*ov)
        inline = False
        if cur is not None and (f.qualname in cur.inline or f.name in cur.inline):
            inline = True
        if self.vf.inline_all:
            inline = True
        if con is not None and not inline:
            return self.call_contract(con, args, kwargs, node, frame, closure_frame=f.frame)
        if inline or (f.frame is not None and con is None and self.vf.inline_closures):
            return self.inline_call(f, args, kwargs, node)
        return self.opaque_call(f"{f.module.relpath}:{f.qualname}", args + list(kwargs.values()), node)

    def bind_args(self, fn_node, args, kwargs, node, frame_for_defaults):
        """Bind call arguments to parameter names following Python's rules."""
        a = fn_node.args
        params = [p.arg for p in a.posonlyargs + a.args]
        bound = {}
        if len(args) > len(params) and a.vararg is None:
            self.raise_exc("TypeError", node)
        for p, v in zip(params, args):
            bound[p] = v
        if a.vararg is not None:
            bound[a.vararg.arg] = VTuple(args[len(params):])
        for k, v in kwargs.items():
            if k in bound:
                self.raise_exc("TypeError", node)
            bound[k] = v
        defaults = a.defaults
        for p, d in zip(params[len(params) - len(defaults):], defaults):
            if p not in bound:
                bound[p] = self.eval(d, frame_for_defaults)
        for p, d in zip(a.kwonlyargs, a.kw_defaults):
            if p.arg not in bound and d is not None:
                bound[p.arg] = self.eval(d, frame_for_defaults)
        for p in params:
            if p not in bound:
                self.raise_exc("TypeError", node)
        return bound

    def inline_call(self, f: VFunc, args, kwargs, node):
        self.call_depth += 1
        if self.call_depth > 12:
            raise OutOfSubset(node, "inline depth")
        fr = Frame(f.module, f.qualname, parent=f.frame)
        fr.fn_node = f.node
        fr.contract = C.lookup(f.module.relpath, f.qualname)
        defaults_frame = f.frame if f.frame is not None else Frame(f.module, "<module>")
        fr.env.update(self.bind_args(f.node, args, kwargs, node, defaults_frame))
        is_gen = any(isinstance(n, (ast.Yield, ast.YieldFrom)) for n in _walk_no_defs(f.node))
        if is_gen:
            fr.env["__yielded__"] = self.alloc(VChunks(seq_const(b""), 0))
        try:
            self.exec_block(f.node.body, fr)
            res = NONE
        except ReturnSig as r:
            res = r.value
        finally:
            self.call_depth -= 1
        if is_gen:
            return fr.env["__yielded__"]
        return res

    def call_method(self, recv, name, args, kwargs, node, frame):
        r = self.deref(recv)
        if isinstance(r, VObj):
            con = C.find_method(r.cls, name)
            cur0 = getattr(self.vf, "current", None)
            if cur0 is not None and self.call_depth == 0:
                ov = cur0.options.get("callee_contracts", {}).get(f"{r.cls}.{name}")
                if ov is not None:
                    con = C.lookup(*ov)
            if con is not None:
                cur = getattr(self.vf, "current", None)
                if cur is not None and (con.func in cur.inline):
                    mod = ModuleInfo.get(self.root, con.file)
                    fn, _ = mod.find_function(con.func)
                    return self.inline_call(VFunc("def", module=mod, qualname=con.func, node=fn, frame=None, name=name), [recv] + args, kwargs, node)
                return self.call_contract(con, [recv] + args, kwargs, node, frame)
            om = self.models.OBJ_MODELS.get((r.cls, name))
            if om is not None:
                return om(self, recv, args, kwargs, node)
            loc = self.vf.find_method_def(r.cls, name)
            cur = getattr(self.vf, "current", None)
            if loc is not None and cur is not None and (f"{loc[2]}.{name}" in cur.inline or self.vf.inline_all):
                mod, fn, owner = loc
                return self.inline_call(VFunc("def", module=mod, qualname=f"{owner}.{name}", node=fn, frame=None, name=name), [recv] + args, kwargs, node)
            return self.models.opaque_method(self, recv, r, name, args, kwargs, node)
        return self.models.call_method(self, recv, r, name, args, kwargs, node, frame)

    def opaque_call(self, what, args, node, may_raise=True, havoc_args=True):
        """Unknown callee: result unknown, mutable arguments havocked, may raise anything."""
        self.opaque_calls.add(what)
        if havoc_args:
            self.guard_typestate_args(what, args, node)
            for a in args:
                self.havoc_reachable(a)
        if may_raise and not self.spec and not self.faults_pruned():
            if self.branch(fresh_bool("opaque_raises"), free=True):
                raise PyExc(None, site=getattr(node, "lineno", None), any_of=self.fault_bound())
        return VOpaque(tag=f"ret:{what}")

    def faults_pruned(self):
        """options faults="caught": an opaque callee's exception is explored only where the function
        itself can observe it (inside a try/with); elsewhere it merely leaves the function, which
        carries no obligation for contracts without exceptional postconditions."""
        cur = getattr(self.vf, "current", None)
        return cur is not None and cur.options.get("faults") == "caught" and self.try_depth == 0 and self.call_depth == 0

    def fault_bound(self):
        cur = getattr(self.vf, "current", None)
        if cur is not None and cur.options.get("faults") == "base":
            return "BaseException"       # incl. KeyboardInterrupt (C07 fault quantifier)
        return "Exception"

    def havoc_effects(self, ref, effects, name):
        """Havoc the part of the heap object behind `ref` that the syntactic effects may change."""
        cur = self.heap[ref.addr]
        if not isinstance(cur, VObj):
            self.heap[ref.addr] = self.havoc_like(cur, name)
            return
        fields = set()
        whole = False
        for eff in effects:
            if eff == "*":
                whole = True
            elif isinstance(eff, tuple):
                meth = eff[1]
                if cur.cls == "BytesIO" and meth in ("read", "read1", "tell", "seek", "getvalue"):
                    fields.add("pos")           # exact model: these never change the content
                    continue
                if (cur.cls, meth) in self.models.OBJ_MODELS:
                    whole = True
                    continue
                con = C.find_method(cur.cls, meth)
                if con is None:
                    whole = True
                else:
                    for m in con.modifies:
                        if m.startswith("self."):
                            fields.add(m[5:])
            else:
                fields.add(eff)
        if whole:
            self.deep_havoc(ref, name, 0)
            return
        cs = C.CLASS_SPECS.get(cur.cls)
        for f in sorted(fields):
            o = self.heap[ref.addr]
            sub = f.endswith(".*") or "." in f
            fld = f.split(".")[0]
            curv = o.fields.get(fld)
            declared = cs.fields.get(fld) if cs else None
            nf = dict(o.fields)
            if sub:
                if isinstance(curv, VRef):
                    self.deep_havoc(curv, f"{name}.{fld}", 1)
                continue
            if declared and (curv is None or isinstance(curv, (VNone, VRef)) or declared.endswith("?")):
                nf[fld] = self.make(declared, f"{name}.{fld}")
            elif isinstance(curv, VRef):
                self.deep_havoc(curv, f"{name}.{fld}", 1)
            elif curv is not None:
                nf[fld] = self.havoc_like(curv, f"{name}.{fld}")
            self.heap[ref.addr] = VObj(o.cls, nf, o.ident)

    def deep_havoc(self, ref, name, depth):
        cur = self.heap[ref.addr]
        if isinstance(cur, VObj):
            cs = C.CLASS_SPECS.get(cur.cls)
            nf = {}
            for f, x in cur.fields.items():
                declared = cs.fields.get(f) if cs else None
                if isinstance(x, VRef):
                    if depth < 3:
                        self.deep_havoc(x, f"{name}.{f}", depth + 1)
                    nf[f] = x if not (declared and declared.endswith("?")) else self.make(declared, f"{name}.{f}")
                elif declared and (isinstance(x, VNone) or declared.endswith("?")):
                    nf[f] = self.make(declared, f"{name}.{f}")
                else:
                    nf[f] = self.havoc_like(x, f"{name}.{f}")
            self.heap[ref.addr] = VObj(cur.cls, nf, cur.ident)
        else:
            self.heap[ref.addr] = self.havoc_like(cur, name)

    def guard_typestate_args(self, what, args, node):
        """A typestate-carrying object (class spec with `stable` fields) handed to a callee without
        contract keeps its stable fields - provided, syntactically, no definition of that callee
        closes / aborts / stores / forwards-to-a-closer the handle.  Otherwise: out of subset."""
        if node is None or not isinstance(node, ast.Call):
            return
        pos = []
        for i, a in enumerate(node.args):
            pass
        stable_idx = []
        muts = set()
        # args as evaluated correspond to node.args then keywords; receivers are prepended by callers
        vals = list(args)
        for v in vals:
            if isinstance(v, VRef):
                o = self.heap.get(v.addr)
                if isinstance(o, VObj):
                    cs = C.CLASS_SPECS.get(o.cls)
                    if cs and cs.stable:
                        stable_idx.append(v)
                        muts |= set(cs.mutators)
        if not stable_idx:
            return
        # locate the syntactic positions of those handles among the call's arguments
        positions, kwnames = [], []
        frame_vals = {}
        for i, a in enumerate(node.args):
            if isinstance(a, ast.Name):
                positions.append(i) if any(self._names_ref(a.id, v) for v in stable_idx) else None
        for k in node.keywords:
            if isinstance(k.value, ast.Name) and k.arg and any(self._names_ref(k.value.id, v) for v in stable_idx):
                kwnames.append(k.arg)
        cname = node.func.attr if isinstance(node.func, ast.Attribute) else (node.func.id if isinstance(node.func, ast.Name) else None)
        if cname is None or (not positions and not kwnames):
            raise OutOfSubset(node, f"typestate object passed to {what} in a way the escape guard cannot follow")
        r = self.vf.callee_may_touch(cname, positions, kwnames, muts)
        self.vf.escape_checked.add(f"{cname}({positions}{kwnames})")
        if r:
            raise OutOfSubset(node, f"uncontracted-effect-callee: {what}: {r}; it needs a contract")

    def _names_ref(self, name, ref):
        f = self.cur_frame
        v = f.lookup(name) if f is not None else None
        return isinstance(v, VRef) and v.addr == ref.addr

    def havoc_reachable(self, v, depth=0):
        if isinstance(v, VRef) and depth < 3:
            cur = self.heap[v.addr]
            if isinstance(cur, VObj) and cur.cls in self.vf.stable_classes:
                return
            if isinstance(cur, VObj):
                cs = C.CLASS_SPECS.get(cur.cls)
                if cs and cs.stable:
                    nf = {}
                    for f, x in cur.fields.items():
                        nf[f] = x if (f in cs.stable or isinstance(x, VRef)) else self.havoc_like(x, f"hv{v.addr}.{f}")
                    self.heap[v.addr] = VObj(cur.cls, nf, cur.ident)
                    return
            self.heap[v.addr] = self.havoc_like(cur, f"hv{v.addr}")
        elif isinstance(v, VTuple):
            for x in v.items:
                self.havoc_reachable(x, depth + 1)

    # ---- modular call through a contract
    def call_contract(self, con: C.Contract, args, kwargs, node, frame, closure_frame=None):
        self.assumed_contracts.add(f"{con.file}:{con.func}" + (" [trusted]" if con.trusted else ""))
        mod = ModuleInfo.get(self.root, con.file) if con.file.endswith(".py") and os.path.exists(os.path.join(self.root, con.file)) else None
        fn = None
        if mod is not None:
            fn, _ = mod.find_function(con.func)
        if fn is not None:
            defaults_frame = closure_frame if closure_frame is not None else Frame(mod, "<module>")
            bound = self.bind_args(fn, args, kwargs, node, defaults_frame)
        else:
            names = list(con.params)
            bound = dict(zip(names, args))
            bound.update(kwargs)
        env = dict(bound)
        # free variables come from the caller's lexical frame
        src_frame = closure_frame if closure_frame is not None else frame
        for fv in con.free:
            v = src_frame.lookup(fv) if src_frame is not None else None
            if v is None:
                raise OutOfSubset(node, f"free variable {fv} of {con.func} not bound at call site")
            env[fv] = v
        cfr = Frame(mod or frame.module, con.func)
        pfx = self.vf.oid_prefix(frame)
        line = getattr(node, "lineno", 0) - (frame.fn_node.lineno if getattr(frame, "fn_node", None) is not None else 0)
        for j, r in enumerate(con.requires):
            self.prove(f"{pfx}:pre-at-call:{con.func}#{j + 1}", self.eval_goal(r, cfr, extra=env), "pre-at-call", node, detail=r, frame=cfr, extra=env,
                       props=(con.prop if con.trusted and con.file in ("<stdlib>", "<abstract>") and con.options.get("own_props", True) else None))
        old = (dict(env), dict(self.heap))
        # havoc what the callee may modify
        for mname in con.modifies:
            if mname in con.free:
                o = src_frame.owner(mname)
                nv = self.havoc_like(o.env[mname], mname, con.free.get(mname))
                o.env[mname] = nv
                env[mname] = nv
            elif mname in bound and isinstance(bound[mname], VRef):
                self.heap[bound[mname].addr] = self.havoc_like(self.heap[bound[mname].addr], mname)
            elif "." in mname:
                parts = mname.split(".")
                b = env.get(parts[0])
                # walk to the object that owns the last field
                for fld in parts[1:-1]:
                    if isinstance(b, VRef) and isinstance(self.heap[b.addr], VObj):
                        b = self.get_attr(b, fld, node, frame)
                    else:
                        b = None
                fld = parts[-1]
                if isinstance(b, VRef) and isinstance(self.heap[b.addr], VObj):
                    o = self.heap[b.addr]
                    nf = dict(o.fields)
                    cs = C.CLASS_SPECS.get(o.cls)
                    declared = cs.fields.get(fld) if cs else None
                    curv = nf.get(fld)
                    if declared and (curv is None or isinstance(curv, VNone) or declared.endswith("?") or declared.startswith("obj:")):
                        nf[fld] = self.make(declared, mname)      # may become another object / None
                    elif isinstance(curv, VRef):
                        self.heap[curv.addr] = self.havoc_like(self.heap[curv.addr], mname)
                    elif curv is not None:
                        nf[fld] = self.havoc_like(curv, mname)
                    self.heap[b.addr] = VObj(o.cls, nf, o.ident)
        saved_old = self.old_state
        self.old_state = old
        try:
            # exceptional outcomes
            if not self.spec:
                excs = list(con.raises.items())
                for exc, posts in excs:
                    if self.branch(fresh_bool(f"raises_{exc}"), free=True):
                        for p in posts or []:
                            self.assume(self.eval_spec_bool(p, cfr, extra=env))
                        if exc in ("BaseException", "Exception"):
                            # "any other exception": class unknown, bounded by exc, and not one of
                            # the classes the contract lists separately
                            pe = PyExc(None, site=getattr(node, "lineno", None), any_of=exc)
                            pe.excluded = [x for x in con.raises if x != exc]
                            raise pe
                        raise PyExc(exc, site=getattr(node, "lineno", None))
                if con.raises_any:
                    if self.branch(fresh_bool("raises_any"), free=True):
                        raise PyExc(None, site=getattr(node, "lineno", None), any_of="Exception")
            for path, ex in con.assigns.items():
                parts = path.split(".")
                tgt = env.get(parts[0])
                for fld in parts[1:-1]:
                    tgt = self.get_attr(tgt, fld, node, frame)
                self.set_attr(tgt, parts[-1], self.eval_spec(ex, cfr, extra=env), node)
            if con.returns == "self":
                res = args[0]
            elif con.options.get("result_is"):
                # the result is (an alias of) a value in the post-state, e.g. a field of self
                res = self.eval_spec(con.options["result_is"], cfr, extra=env)
            elif con.returns.startswith("iter:"):
                # an iterable whose items have a declared type and assumed properties (item_ensures)
                res = VOpaque(tag=f"iter:{con.func}")
                res.item_type = con.returns[5:]
                res.item_ensures = list(con.options.get("item_ensures", []))
                res.item_env = dict(env)
                res.item_frame = cfr
                res.iter_opaque = True
            else:
                res = self.make(con.returns, f"ret_{con.func.split('.')[-1]}")
            env2 = dict(env)
            env2["result"] = res
            for p in con.ensures:
                self.assume(self.eval_spec_bool(p, cfr, extra=env2))
            if not self.spec and con.ensures:
                site = (con.func, getattr(node, "lineno", 0))
                st = self.vf.call_feas.setdefault(site, [0, 0])
                if self.solver.check() == z3.unsat:
                    st[1] += 1
                    raise PathEnd("callee postcondition contradicts the caller's state")
                st[0] += 1
        finally:
            self.old_state = saved_old
        return res


def _smt_lit(v):
    if isinstance(v, bool):
        return "true" if v else "false"
    return str(v) if v >= 0 else f"(- {-v})"


def _split_top(s):
    out, depth, cur = [], 0, ""
    for ch in s:
        if ch in "[(":
            depth += 1
        elif ch in "])":
            depth -= 1
        if ch == "," and depth == 0:
            out.append(cur.strip())
            cur = ""
        else:
            cur += ch
    if cur.strip():
        out.append(cur.strip())
    return out



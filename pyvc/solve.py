"""External solver portfolio on SMT-LIB2 dumps: z3 4.8.12 (/usr/bin/z3), cvc5, z3 5.1 CLI (z3-new)."""
from __future__ import annotations

import os
import re
import shutil
import subprocess
import tempfile
import time

BACKENDS = [
    ("z3-4.8.12", lambda f, t: ["/usr/bin/z3", f"-T:{t}", f]),
    ("cvc5", lambda f, t: ["cvc5", f"--tlimit={t * 1000}", "--lang=smt2", "--produce-models", f]),
    ("z3-5.1-cli", lambda f, t: ["z3-new", f"-T:{t}", "smt.random_seed=7", f]),
]


def _run(cmd, timeout):
    try:
        p = subprocess.run(cmd, capture_output=True, text=True, timeout=timeout + 5)
        return p.stdout.strip(), p.stderr.strip()
    except subprocess.TimeoutExpired:
        return "timeout", ""


def _prep(smt2: str, logic_for_cvc5=False):
    txt = smt2
    if logic_for_cvc5 and "(set-logic" not in txt:
        txt = "(set-logic ALL)\n" + txt
    return txt


def check(smt2: str, timeout_s: int, backends=None, tmpdir=None):
    """Returns (status, backend, secs, log).  status in sat/unsat/unknown."""
    d = tempfile.mkdtemp(prefix="pyvc_", dir=tmpdir)
    log = []
    try:
        for name, mk in BACKENDS:
            if backends and name not in backends:
                continue
            f = os.path.join(d, f"q_{name}.smt2")
            with open(f, "w") as fh:
                fh.write(_prep(smt2, name == "cvc5"))
            t0 = time.time()
            out, err = _run(mk(f, timeout_s), timeout_s)
            dt = time.time() - t0
            first = out.splitlines()[0].strip() if out else ""
            log.append(f"{name}: {first or err[:80]} ({dt:.2f}s)")
            if first in ("sat", "unsat"):
                return first, name, dt, log
        return "unknown", "portfolio", 0.0, log
    finally:
        shutil.rmtree(d, ignore_errors=True)


def get_values(smt2: str, terms: list[str], timeout_s: int, extra_asserts=(), backend="z3-4.8.12", tmpdir=None):
    """Ask z3 for the values of `terms` (s-expressions) in a model of the query."""
    d = tempfile.mkdtemp(prefix="pyvc_", dir=tmpdir)
    try:
        body = smt2.replace("(check-sat)", "")
        txt = "(set-option :produce-models true)\n" + body + "\n".join(f"(assert {a})" for a in extra_asserts)
        txt += "\n(check-sat)\n"
        # one get-value per term so that a failure on one does not lose the others
        for t in terms:
            txt += f"(get-value ({t}))\n"
        f = os.path.join(d, "m.smt2")
        with open(f, "w") as fh:
            fh.write(txt)
        mk = dict(BACKENDS)[backend]
        out, err = _run(mk(f, timeout_s), timeout_s)
        lines = out.splitlines()
        if not lines or lines[0].strip() != "sat":
            return None
        vals = []
        rest = "\n".join(lines[1:])
        # each answer looks like ((term value))
        chunks = _split_sexprs(rest)
        for ch in chunks:
            vals.append(_parse_value(ch))
        if len(vals) != len(terms):
            return None
        return vals
    finally:
        shutil.rmtree(d, ignore_errors=True)


def _split_sexprs(s):
    out, depth, cur = [], 0, ""
    for ch in s:
        if ch == "(":
            depth += 1
        if depth > 0:
            cur += ch
        if ch == ")":
            depth -= 1
            if depth == 0:
                out.append(cur)
                cur = ""
    return out


def _parse_value(answer: str):
    """'((term value))' -> python int/bool or None."""
    inner = answer.strip()[2:-2].strip()
    # the value is the last s-expression / atom
    m = re.search(r"(\(- \d+\)|-?\d+|true|false)\s*$", inner)
    if not m:
        return None
    v = m.group(1)
    if v == "true":
        return True
    if v == "false":
        return False
    if v.startswith("(-"):
        return -int(v[3:-1])
    return int(v)

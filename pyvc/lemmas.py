"""Lemma runner.  A lemma is a universally quantified statement over spec functions (and, for
harness lemmas, over calls of real functions through their contracts); optional induction on one
integer variable.  Every auto-fact a spec function assumes (specs.py) must be the conclusion of a
lemma registered here with `proves_fact`, proved with that fact (and all later ones) disabled.
"""
from __future__ import annotations

import time
import traceback

import z3

from . import contract as C
from .engine import Engine, EngineError, Frame, ModuleInfo, OutOfSubset, PathEnd, PyExc
from .values import VInt

FACT_ORDER = ["le128_frame", "le128_bound", "le128_shift_ext", "ofsval_frame", "ofsval_bound", "ofsval_prepend", "ofsval_shift_ext", "msb_run_end"]


def run_lemma(vf, lem):
    res = {"name": lem.name, "status": "ok", "obligations": {}, "secs": 0.0, "message": ""}
    t0 = time.time()
    try:
        pending = [[]]
        paths = 0
        while pending:
            trace = pending.pop()
            paths += 1
            if paths > 500:
                raise EngineError("lemma path limit")
            eng = Engine(vf, trace)
            fact = getattr(lem, "proves_fact", None) or lem.note if False else None
            pf = lem.__dict__.get("proves_fact")
            if pf:
                eng.disabled_facts = set(FACT_ORDER[FACT_ORDER.index(pf):])
            try:
                _run_lemma_path(vf, eng, lem, res)
            except PathEnd:
                pass
            except PyExc as e:
                # a step of the harness raised: that must be impossible under the lemma's assumptions
                goal = False
                if lem.exc_ok and getattr(eng, "lemma_frame", None) is not None:
                    goal = eng.eval_spec_bool(lem.exc_ok, eng.lemma_frame)
                eng.prove(f"lemma:{lem.name}:no-exception", goal, "lemma", None, assume_after=False,
                          detail=f"{e}" + (f" allowed only if {lem.exc_ok}" if lem.exc_ok else ""))
                _collect(eng, res)
            pending.extend(eng.pending)
        if res.get("canaries", 0) > 0 and res.get("canary_proved", 0) == res.get("canaries"):
            res["status"] = "vacuous"
            res["message"] = "every path of the lemma has inconsistent hypotheses"
    except (EngineError, OutOfSubset) as ex:
        res["status"] = "error"
        res["message"] = str(ex)
    except Exception as ex:
        res["status"] = "error"
        res["message"] = "crash: " + "".join(traceback.format_exception(type(ex), ex, ex.__traceback__))[-1500:]
    res["secs"] = time.time() - t0
    return res


def _run_lemma_path(vf, eng, lem, res):
    import os
    here = os.path.dirname(os.path.dirname(os.path.abspath(__file__)))
    if lem.file:
        mod = ModuleInfo.get(vf.root, lem.file)
    else:
        mod = ModuleInfo.get(here, "contracts/specs_py.py")
    frame = Frame(mod, "lemma:" + lem.name)
    eng.lemma_frame = frame
    env = {}
    for name, ty in lem.forall.items():
        env[name] = eng.make(ty, name)
    frame.env.update(env)
    eng.inputs = dict(env)
    eng.heap_at_entry = dict(eng.heap)
    eng.old_state = (dict(env), dict(eng.heap))
    for a in lem.assume:
        eng.assume(eng.eval_spec_bool(a, frame))
    # harness steps: real calls through contracts, `name = call expression`
    for st in lem.steps:
        if len(st) == 2:
            target, expr = st
            v = eng.eval(vf.parse_spec(expr), frame)
        else:
            target, key, argexprs = st
            con = C.REGISTRY[key]
            args = [eng.eval(vf.parse_spec(a), frame) for a in argexprs]
            v = eng.call_contract(con, args, {}, None, frame, closure_frame=frame)
        frame.env[target] = v
        for ci, (after, ex) in enumerate(lem.cuts):
            if after == target:
                eng.prove(f"lemma:{lem.name}:cut#{ci + 1}", eng.eval_goal(ex, frame), "lemma", None, detail=ex)
    for ci, (after, ex) in enumerate(lem.cuts):
        if after is None:
            eng.prove(f"lemma:{lem.name}:cut#{ci + 1}", eng.eval_goal(ex, frame), "lemma", None, detail=ex)
    apply_hints(vf, eng, lem.uses, frame)
    pfx = "lemma:" + lem.name
    if lem.induction:
        var, base = lem.induction
        saved = frame.env[var]
        frame.env[var] = VInt(saved.t - 1)
        hyp_a = [eng.eval_spec_bool(a, frame) for a in lem.assume]
        eng.goal_mode = True
        try:
            hyp_s = [eng.eval_spec_bool(s, frame) for s in lem.show]
        finally:
            eng.goal_mode = False
        frame.env[var] = saved
        base_t = eng.eval_spec(base, frame).t
        eng.assume(z3.Implies(saved.t > base_t, z3.Implies(z3.And(hyp_a), z3.And(hyp_s))))
    for j, s in enumerate(lem.show):
        ob = eng.prove(f"{pfx}:show#{j + 1}", eng.eval_goal(s, frame), "lemma", None, detail=s)
    # must-fail canary: the lemma's hypotheses (and harness steps) are consistent
    cs = z3.Solver()
    cs.set("timeout", 1500)
    cs.add(eng.pc)
    if cs.check() == z3.unsat:
        res["canary_proved"] = res.get("canary_proved", 0) + 1
    res["canaries"] = res.get("canaries", 0) + 1
    _collect(eng, res)


def _collect(eng, res):
    for ob in eng.obligations:
        d = res["obligations"].setdefault(ob.oid, {"kind": ob.kind, "status": "unsat", "instances": 0, "secs": 0.0, "detail": ob.detail,
                                                   "line": None, "model": None, "path": None})
        d["instances"] += 1
        d["secs"] = round(d["secs"] + ob.secs, 4)
        rank = {"unsat": 0, "unknown": 1, "sat": 2}
        if rank[ob.status] > rank[d["status"]]:
            d["status"] = ob.status
            d["model"] = ob.model
            d["detail"] = ob.detail
            if ob.smt2:
                d["smt2"] = ob.smt2


def apply_hints(vf, eng, uses, frame, extra=None):
    """Assume instances of lemmas that are proved separately in this run: (name, {var: expr})."""
    for name, inst in uses:
        lem = next((l for l in C.LEMMAS if l.name == name), None)
        if lem is None:
            raise EngineError(f"unknown lemma {name}")
        env = dict(extra or {})
        for var in lem.forall:
            if var not in inst:
                raise EngineError(f"hint {name}: no instance for {var}")
            env[var] = eng.eval_spec(inst[var], frame, extra=extra)
        if lem.steps:
            raise EngineError(f"lemma {name} has harness steps and cannot be used as a hint")
        hyp = [eng.eval_spec_bool(a, frame, extra=env) for a in lem.assume]
        con = [eng.eval_spec_bool(s, frame, extra=env) for s in lem.show]
        eng.assume(z3.Implies(z3.And(hyp) if hyp else z3.BoolVal(True), z3.And(con)))
        vf.lemmas_used.add(name)


def run_lemmas(vf, prop, jobs=1):
    out = []
    for lem in C.LEMMAS:
        if prop in lem.prop:
            out.append(run_lemma(vf, lem))
    return out

"""z3-free AST utilities shared by the engine (python3-vt) and the native checker (/venv/bin/python)."""
from __future__ import annotations

import ast
import hashlib
import os


# ----------------------------------------------------------------------------------------------
# module info
# ----------------------------------------------------------------------------------------------
class ModuleInfo:
    _cache: dict = {}

    def __init__(self, root, relpath):
        self.root = root
        self.relpath = relpath
        self.path = os.path.join(root, relpath)
        with open(self.path, "rb") as f:
            self.src = f.read().decode("utf-8")
        self.tree = ast.parse(self.src)
        self.defs = {}       # top-level name -> node (FunctionDef/ClassDef)
        self.assigns = {}    # top-level name -> value node
        self.imports = {}    # local name -> dotted path
        self.classes = {}
        self._segs = {}
        self._index(self.tree.body)

    def _index(self, body):
        for n in body:
            if isinstance(n, (ast.FunctionDef, ast.AsyncFunctionDef)):
                if is_overload_stub(n):
                    continue
                self.defs[n.name] = n          # a later definition replaces an earlier one
            elif isinstance(n, ast.ClassDef):
                self.defs.setdefault(n.name, n)
                self.classes[n.name] = n
            elif isinstance(n, ast.Assign):
                for t in n.targets:
                    if isinstance(t, ast.Name):
                        self.assigns[t.id] = n.value
            elif isinstance(n, ast.AnnAssign) and isinstance(n.target, ast.Name) and n.value is not None:
                self.assigns[n.target.id] = n.value
            elif isinstance(n, ast.Import):
                for a in n.names:
                    self.imports[a.asname or a.name.split(".")[0]] = a.name if a.asname else a.name.split(".")[0]
            elif isinstance(n, ast.ImportFrom):
                mod = n.module or ""
                if n.level:
                    pkg = self.relpath[:-3].replace("/", ".").split(".")
                    base = pkg[: len(pkg) - n.level]
                    mod = ".".join(base + ([mod] if mod else []))
                for a in n.names:
                    self.imports[a.asname or a.name] = f"{mod}.{a.name}"
            elif isinstance(n, (ast.If, ast.Try)):
                # conditional definitions (TYPE_CHECKING imports, try: import): index all arms,
                # first definition wins (the pure-Python definitions precede the Rust override)
                for sub in ast.iter_child_nodes(n):
                    if isinstance(sub, list):
                        continue
                self._index(getattr(n, "body", []))
                for h in getattr(n, "handlers", []):
                    self._index(h.body)
                self._index(getattr(n, "orelse", []))

    @classmethod
    def get(cls, root, relpath):
        key = (root, relpath)
        if key not in cls._cache:
            cls._cache[key] = ModuleInfo(root, relpath)
        return cls._cache[key]

    def find_function(self, qualname):
        """Return (node, enclosing chain) for 'f', 'f.g' (nested def), 'Class.m', 'Class.m.g'."""
        parts = qualname.split("#")[0].split(".")       # "f#variant": a second contract on the same function (another input class)
        body = self.tree.body
        node = None
        chain = []
        for p in parts:
            found = None
            for n in self._walk_defs(body):
                if isinstance(n, (ast.FunctionDef, ast.ClassDef, ast.AsyncFunctionDef)) and n.name == p:
                    if isinstance(n, ast.FunctionDef) and is_overload_stub(n):
                        continue
                    found = n          # last definition wins, as at run time
            if found is None:
                return None, chain
            node = found
            chain.append(found)
            body = found.body
        return node, chain

    def _walk_defs(self, body):
        """Yield def/class nodes reachable in `body` without entering other defs."""
        for n in body:
            if isinstance(n, (ast.FunctionDef, ast.ClassDef, ast.AsyncFunctionDef)):
                yield n
            else:
                for fld in ("body", "orelse", "finalbody"):
                    sub = getattr(n, fld, None)
                    if isinstance(sub, list):
                        yield from self._walk_defs(sub)
                for h in getattr(n, "handlers", []) or []:
                    yield from self._walk_defs(h.body)

    def segment(self, node):
        key = id(node)
        c = self._segs.get(key)
        if c is None:
            if not hasattr(self, "_lines"):
                self._lines = self.src.splitlines(keepends=True)
            try:
                ls = self._lines[node.lineno - 1: node.end_lineno]
                if len(ls) == 1:
                    c = ls[0].encode()[node.col_offset: node.end_col_offset].decode()
                else:
                    first = ls[0].encode()[node.col_offset:].decode()
                    last = ls[-1].encode()[: node.end_col_offset].decode()
                    c = "".join([first] + ls[1:-1] + [last])
            except Exception:
                c = ast.get_source_segment(self.src, node) or ""
            self._segs[key] = c
        return c

    def source_hash(self, node):
        return hashlib.sha256(self.segment(node).encode()).hexdigest()[:16]


def is_overload_stub(fn):
    for d in fn.decorator_list:
        name = d.id if isinstance(d, ast.Name) else (d.attr if isinstance(d, ast.Attribute) else None)
        if name == "overload":
            return True
    return False


def loops_of(fn_node):
    """Loop nodes of a function in source order, not entering nested defs."""
    out = []

    def walk(n):
        for ch in ast.iter_child_nodes(n):
            if isinstance(ch, (ast.FunctionDef, ast.AsyncFunctionDef, ast.ClassDef, ast.Lambda)):
                continue
            if isinstance(ch, (ast.While, ast.For)):
                out.append(ch)
            walk(ch)

    walk(fn_node)
    out.sort(key=lambda n: (n.lineno, n.col_offset))
    return out


MUTATING_METHODS = {"append", "extend", "insert", "pop", "remove", "clear", "add", "update", "discard",
                    "sort", "reverse", "setdefault", "popitem", "write", "writelines", "seek", "read",
                    "truncate", "appendleft", "popleft"}


def _attr_chain(node):
    """name.a.b -> ("name", ["a", "b"]) or None."""
    parts = []
    while isinstance(node, (ast.Attribute, ast.Subscript)):
        if isinstance(node, ast.Attribute):
            parts.append(node.attr)
        else:
            parts.append("[]")
        node = node.value
    if isinstance(node, ast.Name):
        return node.id, list(reversed(parts))
    return None


# builtins that never mutate a list / dict / bytearray argument (they may consume an iterator: iterators are not tracked)
PURE_BUILTINS = {"enumerate", "len", "list", "tuple", "sorted", "zip", "range", "isinstance", "reversed", "min", "max", "sum", "any", "all",
                 "set", "frozenset", "dict", "bytes", "bool", "int", "str", "repr", "abs", "hash", "id", "type", "ord", "chr", "memoryview"}


def assigned_names(nodes):
    """(rebound names, names whose referenced heap object is mutated, call nodes) in statements.
    The second component is a dict name -> set of effects: "*" (anything reachable), "f" (field f
    rebound), "f.*" (object under field f mutated), ("call", m) (method m called on it)."""
    rebound, mutated, calls = set(), {}, []

    def mut(name, eff):
        mutated.setdefault(name, set()).add(eff)

    def tgt(t):
        if isinstance(t, ast.Name):
            rebound.add(t.id)
        elif isinstance(t, (ast.Tuple, ast.List)):
            for e in t.elts:
                tgt(e)
        elif isinstance(t, ast.Starred):
            tgt(t.value)
        elif isinstance(t, (ast.Subscript, ast.Attribute)):
            ch = _attr_chain(t)
            if ch:
                name, parts = ch
                if len(parts) == 1 and parts[0] != "[]":
                    mut(name, parts[0])
                elif parts and parts[0] != "[]":
                    mut(name, parts[0] + ".*")
                else:
                    mut(name, "*")

    def walk(n):
        if isinstance(n, (ast.FunctionDef, ast.AsyncFunctionDef, ast.ClassDef, ast.Lambda)):
            if isinstance(n, (ast.FunctionDef, ast.AsyncFunctionDef)):
                rebound.add(n.name)
            return
        if isinstance(n, ast.Assign):
            for t in n.targets:
                tgt(t)
        elif isinstance(n, (ast.AugAssign, ast.AnnAssign)):
            tgt(n.target)
        elif isinstance(n, ast.For):
            tgt(n.target)
        elif isinstance(n, ast.With):
            for it in n.items:
                if it.optional_vars is not None:
                    tgt(it.optional_vars)
        elif isinstance(n, ast.ExceptHandler):
            if n.name:
                rebound.add(n.name)
        elif isinstance(n, ast.NamedExpr):
            tgt(n.target)
        elif isinstance(n, ast.Delete):
            for t in n.targets:
                tgt(t)
        elif isinstance(n, ast.Call):
            calls.append(n)
            f = n.func
            if isinstance(f, ast.Attribute):
                ch = _attr_chain(f.value)
                if ch:
                    name, parts = ch
                    if not parts:
                        mut(name, ("call", f.attr))
                    elif parts[0] != "[]":
                        mut(name, parts[0] + ".*")
                    else:
                        mut(name, "*")
            pure = isinstance(f, ast.Name) and f.id in PURE_BUILTINS
            for a in ([] if pure else list(n.args) + [k.value for k in n.keywords]):
                ch = _attr_chain(a)
                if ch:
                    name, parts = ch
                    if not parts:
                        mut(name, "*")       # a callee may mutate a mutable argument
                    elif parts[0] != "[]":
                        mut(name, parts[0] + ".*")
        for ch in ast.iter_child_nodes(n):
            walk(ch)

    for s in nodes:
        walk(s)
    return rebound, mutated, calls


def _walk_no_defs(fn):
    todo = list(fn.body)
    while todo:
        n = todo.pop()
        if isinstance(n, (ast.FunctionDef, ast.AsyncFunctionDef, ast.ClassDef, ast.Lambda)):
            continue
        yield n
        for ch in ast.iter_child_nodes(n):
            if isinstance(ch, (ast.FunctionDef, ast.AsyncFunctionDef, ast.ClassDef, ast.Lambda)):
                continue
            todo.append(ch)

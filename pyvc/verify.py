"""Verifier: explores all paths of a function under contract and aggregates obligations."""
from __future__ import annotations

import ast
import builtins
import glob
import os
import time
import traceback

import z3

from . import contract as C
from .engine import (Engine, EngineError, Frame, ModuleInfo, OutOfSubset, PathEnd, PyExc, ReturnSig,
                     BreakSig, ContinueSig, _walk_no_defs, loops_of)
from .values import NONE, VChunks, VInt, VRef, VSeq, VTuple, seq_const


class Hierarchy:
    def __init__(self, root):
        self.bases = {}
        for f in glob.glob(os.path.join(root, "dulwich", "**", "*.py"), recursive=True):
            if "/tests/" in f:
                continue
            try:
                tree = ast.parse(open(f, "rb").read())
            except SyntaxError:
                continue
            for n in ast.walk(tree):
                if isinstance(n, ast.ClassDef):
                    bs = []
                    for b in n.bases:
                        if isinstance(b, ast.Name):
                            bs.append(b.id)
                        elif isinstance(b, ast.Attribute):
                            bs.append(b.attr)
                    self.bases.setdefault(n.name, bs)
        self.bases.setdefault("error", ["Exception"])          # zlib.error, struct.error, socket.error
        self.bases.setdefault("zlib.error", ["Exception"])
        self.bases.setdefault("struct.error", ["Exception"])

    def is_subclass(self, a, b):
        if a == b or b in ("object",):
            return True
        seen = set()
        todo = [a]
        while todo:
            c = todo.pop()
            if c in seen:
                continue
            seen.add(c)
            if c == b:
                return True
            if c in self.bases:
                todo.extend(self.bases[c])
            else:
                pa, pb = getattr(builtins, c, None), getattr(builtins, b, None)
                if isinstance(pa, type) and isinstance(pb, type):
                    if issubclass(pa, pb):
                        return True
                elif isinstance(pa, type):
                    for m in pa.__mro__[1:]:
                        todo.append(m.__name__)
        return False


class SpecFn:
    def __init__(self, name, sym, conc=None, doc=""):
        self.name = name
        self.sym = sym
        self.conc = conc
        self.doc = doc


class FunctionResult:
    def __init__(self, con):
        self.contract = con
        self.obligations = {}      # oid -> dict(kind, status, instances, secs, detail, model, line)
        self.paths = 0
        self.exits = {"normal": 0, "raised": 0, "ended": 0}
        self.feasible_exits = 0
        self.status = "ok"         # ok | out-of-subset | error | stale | vacuous
        self.message = ""
        self.secs = 0.0
        self.source_hash = None
        self.uncovered = []
        self.assumed = set()
        self.opaque = set()
        self.lines = (0, 0)
        self.raised_classes = {}
        self.canaries = 0
        self.canary_proved = 0
        self.leftover = []
        self.covered = []
        self.body_lines = []

    def to_json(self):
        return {
            "function": f"{self.contract.file}:{self.contract.func}",
            "status": self.status, "message": self.message, "paths": self.paths, "exits": self.exits,
            "feasible_exits": self.feasible_exits, "secs": round(self.secs, 3),
            "source_hash": self.source_hash, "uncovered_lines": self.uncovered,
            "callee_contracts_used": sorted(self.assumed), "opaque_calls": sorted(self.opaque),
            "call_feas": getattr(self, "call_feas", {}), "raised": self.raised_classes, "canaries": self.canaries, "canary_proved": self.canary_proved, "infeasible_full": getattr(self, "infeasible_full", 0),
            "obligations": {k: {kk: vv for kk, vv in v.items() if kk not in ("smt2",)} for k, v in self.obligations.items()},
        }


class Verifier:
    def __init__(self, root, specs=None, timeout_ms=5000, feas_timeout_ms=2000):
        self.root = root
        self.specs = specs or {}
        self.timeout_ms = timeout_ms
        self.feas_timeout_ms = feas_timeout_ms
        self.hierarchy = Hierarchy(root)
        self.max_steps = 200000
        self.unroll_limit = 8
        self.unroll_mode = False
        self.unroll_bound = 64
        self.inline_all = False
        self.inline_closures = False
        self.keep_smt = False
        self.global_cache = {}
        self.current = None
        self._spec_cache = {}
        self.stable_classes = set()
        self.assumptions = set()
        self._methods_cache = {}
        self.concrete_inputs = None
        self.matched_asserts = set()
        self.feas_stats = []
        self.refuted = set()
        self.proved_cache = set()
        self.call_feas = {}
        self.known = {}
        self.lemmas_used = set()
        self.escape_checked = set()
        self.relativised = set()
        self.ext_timeout_s = 30
        self.tmpdir = None

    # ---- helpers used by the engine
    def parse_spec(self, expr):
        n = self._spec_cache.get(expr)
        if n is None:
            n = ast.parse(expr.strip(), mode="eval").body
            self._spec_cache[expr] = n
        return n

    def oid_prefix(self, frame):
        cur = self.current
        return cur.oid_prefix if cur is not None else frame.qualname

    def note_assumption(self, text):
        self.assumptions.add(text)

    def seq_to_val(self, eng, v):
        """Injection of a byte string into the opaque sort: constants are interned (so that
        comparisons of an unknown object with the same literal agree), others get one value each."""
        from .values import fresh_val, Val
        const = getattr(v, "const", None)
        if const is None and v.esort == "int" and v.kind in ("bytes", "bytearray"):
            # a byte string whose length and elements are all concrete (e.g. b"0" * 40) is a constant too
            cl = v.const_len()
            if cl is not None and cl <= 256:
                vals = [z3.simplify(v.at(z3.IntVal(i))) for i in range(cl)]
                if all(z3.is_int_value(x) and 0 <= x.as_long() <= 255 for x in vals):
                    const = bytes(x.as_long() for x in vals)
        if const is not None:
            return z3.Const("bytes!" + const.hex(), Val)
        cached = getattr(v, "_val", None)
        if cached is None:
            cached = fresh_val("seqval")
            v._val = cached
        return cached

    def find_method_def(self, cls, name):
        """Locate `def name` in class `cls` or its bases (by class name over dulwich modules)."""
        key = (cls, name)
        if key in self._methods_cache:
            return self._methods_cache[key]
        res = None
        seen = set()
        todo = [cls]
        while todo and res is None:
            c = todo.pop(0)
            if c in seen:
                continue
            seen.add(c)
            for rel in self._class_files(c):
                mod = ModuleInfo.get(self.root, rel)
                cn = mod.classes.get(c)
                if cn is None:
                    continue
                for n in cn.body:
                    if isinstance(n, ast.FunctionDef) and n.name == name:
                        res = (mod, n, c)
                        break
                if res:
                    break
            todo.extend(self.hierarchy.bases.get(c, []))
        self._methods_cache[key] = res
        return res

    def _class_files(self, cls):
        if not hasattr(self, "_cls_index"):
            self._cls_index = {}
            for f in glob.glob(os.path.join(self.root, "dulwich", "**", "*.py"), recursive=True):
                if "/tests/" in f:
                    continue
                rel = os.path.relpath(f, self.root)
                try:
                    tree = ast.parse(open(f, "rb").read())
                except SyntaxError:
                    continue
                for n in tree.body:
                    if isinstance(n, ast.ClassDef):
                        self._cls_index.setdefault(n.name, []).append(rel)
        return self._cls_index.get(cls, [])

    # ---- syntactic closure for typestate-carrying objects (DESIGN.md 1.5 (C)) ----------------------
    def defs_named(self, name):
        if not hasattr(self, "_defs_by_name"):
            self._defs_by_name = {}
            for f in glob.glob(os.path.join(self.root, "dulwich", "**", "*.py"), recursive=True):
                if "/tests/" in f:
                    continue
                try:
                    tree = ast.parse(open(f, "rb").read())
                except SyntaxError:
                    continue
                rel = os.path.relpath(f, self.root)
                for n in ast.walk(tree):
                    if isinstance(n, ast.ClassDef):
                        for m in n.body:
                            if isinstance(m, ast.FunctionDef):
                                self._defs_by_name.setdefault(m.name, []).append((rel, n.name, m))
                                if m.name == "__init__":
                                    self._defs_by_name.setdefault(n.name, []).append((rel, n.name, m))
                for n in tree.body:
                    if isinstance(n, ast.FunctionDef):
                        self._defs_by_name.setdefault(n.name, []).append((rel, None, n))
        return self._defs_by_name.get(name, [])

    def callee_may_touch(self, name, positions, kwnames, mutators, depth=0, seen=None):
        """Does any definition called `name` close/abort/store/forward the argument(s) at the given
        positional indexes / keyword names?  Purely syntactic, by name, over dulwich/**."""
        seen = seen if seen is not None else set()
        key = (name, tuple(positions), tuple(kwnames))
        if key in seen or depth > 3:
            return None
        seen.add(key)
        for rel, cls, fn in self.defs_named(name):
            a = fn.args
            params = [p.arg for p in a.posonlyargs + a.args]
            if cls is not None and params and params[0] in ("self", "cls"):
                params = params[1:]
            names = set()
            for i in positions:
                if i < len(params):
                    names.add(params[i])
                elif a.vararg:
                    names.add(a.vararg.arg)
            for k in kwnames:
                if k in params or k in [p.arg for p in a.kwonlyargs]:
                    names.add(k)
            if not names:
                continue
            for n in ast.walk(fn):
                if isinstance(n, ast.Call) and isinstance(n.func, ast.Attribute) and isinstance(n.func.value, ast.Name) and n.func.value.id in names:
                    if n.func.attr in mutators:
                        return f"{rel}:{(cls + '.') if cls else ''}{fn.name} calls .{n.func.attr}() on the handle"
                if isinstance(n, ast.With):
                    for it in n.items:
                        if isinstance(it.context_expr, ast.Name) and it.context_expr.id in names:
                            return f"{rel}:{fn.name} uses the handle as a context manager"
                if isinstance(n, ast.Assign) and isinstance(n.value, ast.Name) and n.value.id in names:
                    for t in n.targets:
                        if isinstance(t, (ast.Attribute, ast.Subscript)):
                            return f"{rel}:{(cls + '.') if cls else ''}{fn.name} stores the handle ({ast.unparse(t)})"
                if isinstance(n, ast.Return) and isinstance(n.value, ast.Name) and n.value.id in names:
                    pass
                if isinstance(n, ast.Call):
                    pos = [i for i, x in enumerate(n.args) if isinstance(x, ast.Name) and x.id in names]
                    kws = [k.arg for k in n.keywords if isinstance(k.value, ast.Name) and k.value.id in names and k.arg]
                    if pos or kws:
                        cn = n.func.attr if isinstance(n.func, ast.Attribute) else (n.func.id if isinstance(n.func, ast.Name) else None)
                        if cn and cn not in ("isinstance", "len", "print", "repr", "str", "id", "type", "hasattr", "getattr"):
                            r = self.callee_may_touch(cn, pos, kws, mutators, depth + 1, seen)
                            if r:
                                return r
        return None

    def has_method(self, cls, name):
        return self.find_method_def(cls, name) is not None

    # ---- verification of one function
    def verify(self, con: C.Contract, prefixes=None, max_paths=None) -> FunctionResult:
        """Explore the decision subtrees rooted at `prefixes` (default: the whole function).
        With max_paths, stops early and leaves the unexplored prefixes in res.leftover."""
        res = FunctionResult(con)
        res.leftover = []
        t0 = time.time()
        self.current = con
        self.proved_cache = set()
        self.call_feas = {}
        self.refuted = set(getattr(self, "pre_refuted", ()))
        try:
            mod = ModuleInfo.get(self.root, con.file)
            fn, chain = mod.find_function(con.func)
            if fn is None:
                res.status = "stale"
                res.message = f"function {con.func} not found in {con.file}"
                return res
            res.source_hash = mod.source_hash(fn)
            res.lines = (fn.lineno, fn.end_lineno)
            nloops = len(loops_of(fn))
            if con.loops and max(con.loops) > nloops and nloops > 0:
                # (a function that has become loop-free needs no invariants: its obligations are still well defined)
                res.status = "stale"
                res.message = f"contract names loop {max(con.loops)} but the function has {nloops} loops"
                return res
            for nm in con.options.get("immutable_sets", ()):
                # syntactic guard of the deterministic-membership assumption: the function never calls a mutator on the name,
                # never stores into it and never passes it on
                for n in ast.walk(fn):
                    bad = None
                    if isinstance(n, ast.Call) and isinstance(n.func, ast.Attribute) and isinstance(n.func.value, ast.Name) and n.func.value.id == nm \
                            and n.func.attr in ("add", "remove", "discard", "update", "pop", "clear", "difference_update", "intersection_update", "append", "extend", "insert", "__setitem__", "setdefault"):
                        bad = f"calls {nm}.{n.func.attr}()"
                    if isinstance(n, (ast.Subscript, ast.Attribute)) and isinstance(getattr(n, "ctx", None), (ast.Store, ast.Del)) and isinstance(n.value, ast.Name) and n.value.id == nm:
                        bad = f"stores into {nm}"
                    if isinstance(n, ast.AugAssign) and isinstance(n.target, ast.Name) and n.target.id == nm:
                        bad = f"augmented assignment to {nm}"
                    if bad:
                        res.status = "stale"
                        res.message = f"contract declares {nm!r} an immutable set but the function {bad} (line {n.lineno})"
                        return res
            pending = [list(p) for p in (prefixes if prefixes is not None else [[]])]
            covered = set()
            while pending:
                if max_paths is not None and res.paths >= max_paths:
                    res.leftover = pending
                    break
                trace = pending.pop()
                res.paths += 1
                if res.paths > con.verify_paths_limit:
                    res.status = "error"
                    res.message = f"path limit {con.verify_paths_limit} exceeded"
                    break
                eng = Engine(self, trace)
                if os.environ.get("PYVC_DEBUG"):
                    print(f"[path {res.paths}] pending={len(pending)} t={time.time() - t0:.1f}", flush=True)
                try:
                    self.run_path(eng, con, mod, fn, chain, res)
                except OutOfSubset as ex:
                    res.status = "out-of-subset"
                    res.message = str(ex)
                    break
                pending.extend(eng.pending)
                covered |= eng.cover
                res.assumed |= eng.assumed_contracts
                res.opaque |= eng.opaque_calls
                for ob in eng.obligations:
                    self.merge(res, ob)
            res.call_feas = {f"{k[0]}@{k[1]}": v for k, v in self.call_feas.items()}
            res.covered = sorted(covered)
            body_lines = {n.lineno for n in _walk_no_defs(fn) if isinstance(n, ast.stmt)}
            res.body_lines = sorted(body_lines)
            res.uncovered = sorted(l - fn.lineno for l in body_lines - covered if (l - fn.lineno) not in con.dead)
            if res.status == "ok" and res.feasible_exits == 0 and prefixes is None and not res.leftover:
                res.status = "vacuous"
                res.message = "no feasible path reaches an exit of the function"
        except EngineError as ex:
            # a contract clause naming a local that the function no longer has is a stale contract (undecided), not a checker crash
            res.status = "stale" if ("spec expression" in str(ex) and "unresolved name" in str(ex)) else "error"
            res.message = f"{ex}"
        except Exception as ex:  # engine crash
            res.status = "error"
            res.message = "crash: " + "".join(traceback.format_exception(type(ex), ex, ex.__traceback__))[-2000:]
        finally:
            self.current = None
            res.secs = time.time() - t0
        return res

    def merge(self, res, ob):
        d = res.obligations.setdefault(ob.oid, {"kind": ob.kind, "status": "unsat", "instances": 0, "secs": 0.0, "props": ob.props,
                                                "detail": ob.detail, "line": ob.line, "model": None, "smt2": None,
                                                "path": None})
        d["instances"] += 1
        d["secs"] = round(d["secs"] + ob.secs, 4)
        rank = {"unsat": 0, "unknown": 1, "sat": 2}
        if rank[ob.status] > rank[d["status"]]:
            d["status"] = ob.status
            d["model"] = ob.model
            d["smt2"] = ob.smt2
            d["path"] = ob.path
            d["detail"] = ob.detail
            d["line"] = ob.line
        elif ob.status == "unknown" and d["smt2"] is None:
            d["smt2"] = ob.smt2

    def setup_frame(self, eng, con, mod, fn, chain):
        frame = Frame(mod, con.func)
        frame.fn_node = fn
        frame.contract = con
        inputs = {}
        from . import models as _m
        eng.assume(_m.isnone_f(_m.none_val))
        if con.options.get("eq_symmetric"):
            a_, b_ = z3.Consts("ea!0 eb!0", _m.Val)
            eng.assume(z3.ForAll([a_, b_], _m.pyeq_f(a_, b_) == _m.pyeq_f(b_, a_), patterns=[_m.pyeq_f(a_, b_)]))
        if con.options.get("total_order"):
            before = len(eng.pc)
            for ax in _m.total_order_axioms():
                eng.assume(ax)
            eng.heavy_axioms = [t.get_id() for t in eng.pc[before:]]
        if con.free:
            parent = Frame(mod, ".".join(con.func.split(".")[:-1]))
            for name, ty in con.free.items():
                parent.env[name] = eng.make(ty, name)
                inputs[name] = parent.env[name]
            frame.parent = parent
            # sibling closures of the enclosing function are visible too
            outer = chain[-2] if len(chain) >= 2 else None
            if isinstance(outer, ast.FunctionDef):
                from .values import VFunc
                for n in outer.body:
                    if isinstance(n, ast.FunctionDef) and n.name not in parent.env:
                        parent.env[n.name] = VFunc("def", module=mod, qualname=f"{parent.qualname}.{n.name}", node=n, frame=parent, name=n.name)
        a = fn.args
        params = [p.arg for p in a.posonlyargs + a.args + a.kwonlyargs]
        if a.vararg:
            params.append(a.vararg.arg)
        for p in params:
            ty = con.params.get(p)
            if ty is None:
                if p == "self" and con.self_type:
                    ty = con.self_type
                elif con.options.get("default_param"):
                    ty = con.options["default_param"]
                elif p in ("self", "cls"):
                    ty = "opaque"
                else:
                    raise EngineError(f"contract for {con.func} gives no type for parameter {p!r}")
            frame.env[p] = eng.make(ty, p)
            inputs[p] = frame.env[p]
        for g, (ty, init) in con.ghost.items():
            frame.env[g] = eng.eval_spec(init, frame)
        if con.ghost_params:
            # a ghost input must not share its name with something the code binds: the code's assignment would silently
            # overwrite (and loop cuts havoc) the ghost value
            bound = {n.id for n in ast.walk(fn) if isinstance(n, ast.Name) and isinstance(n.ctx, (ast.Store, ast.Del))} | {a.arg for a in ast.walk(fn) if isinstance(a, ast.arg)}
            clash = sorted(set(con.ghost_params) & bound)
            if clash:
                raise EngineError(f"spec expression: ghost parameter(s) {clash} of {con.func} clash with names the function binds (unresolved name for the contract: rename the ghost)")
        for g, ty in con.ghost_params.items():
            frame.env[g] = eng.make(ty, g)
            inputs[g] = frame.env[g]
        eng.inputs = inputs
        if self.concrete_inputs is not None:
            self.constrain_concrete(eng, inputs, self.concrete_inputs)
        for r in con.requires:
            eng.assume(eng.eval_spec_bool(r, frame))
        env0 = dict(frame.env)
        if frame.parent is not None:
            env0.update(frame.parent.env)
        eng.old_state = (env0, dict(eng.heap))
        eng.heap_at_entry = dict(eng.heap)
        eng.entry_env = dict(frame.env)
        is_gen = any(isinstance(n, (ast.Yield, ast.YieldFrom)) for n in _walk_no_defs(fn))
        if is_gen:
            if con.options.get("yields") == "any":
                from .models import make_list
                frame.env["__yielded__"] = make_list(eng, [], fn)
            else:
                frame.env["__yielded__"] = eng.alloc(VChunks(seq_const(b""), 0))
        frame.is_gen = is_gen
        return frame

    def constrain_concrete(self, eng, inputs, conc):
        for name, val in conc.items():
            v = eng.deref(inputs[name])
            if isinstance(val, bool):
                eng.assume(v.t == val)
            elif isinstance(val, int):
                eng.assume(v.t == val)
            elif isinstance(val, (bytes, bytearray, list)):
                if isinstance(v, VChunks):
                    v = v.join
                    if isinstance(val, list):
                        val = b"".join(val)
                eng.assume(v.n == len(val))
                for i, x in enumerate(val):
                    eng.assume(v.at(z3.IntVal(i)) == x)
            elif val is None:
                pass
            else:
                raise EngineError(f"cannot constrain {name} to {val!r}")

    def run_path(self, eng, con, mod, fn, chain, res):
        try:
            frame = self.setup_frame(eng, con, mod, fn, chain)
        except PathEnd:
            return
        pfx = con.oid_prefix
        outcome = None
        try:
            eng.exec_block(fn.body, frame)
            outcome = ("normal", NONE)
        except ReturnSig as r:
            outcome = ("normal", r.value)
        except PyExc as e:
            outcome = ("raised", e)
        except PathEnd as p:
            res.exits["ended"] += 1
            return
        except (BreakSig, ContinueSig):
            raise EngineError("break/continue outside loop")
        kind, val = outcome
        res.exits[kind] += 1
        if eng.solver.check() == z3.unsat:
            return
        # the branch conditions were decided on the quantifier-free part only; an exit whose full
        # path condition is inconsistent is an infeasible path (and if every exit is, the contract's
        # assumptions are inconsistent: vacuity guard)
        if eng.quant_branched or not getattr(res, "full_ok", False):
            res.canaries += 1
            cs = z3.Solver()
            cs.set("timeout", 1500)
            cs.add(eng.pc)
            if cs.check() == z3.unsat:
                # infeasible exit (e.g. a raise site excluded by a quantified precondition); if every exit is infeasible
                # the function result is "vacuous" (feasible_exits == 0): that is the must-fail canary
                res.infeasible_full = getattr(res, "infeasible_full", 0) + 1
                return
            res.full_ok = True
        res.feasible_exits += 1
        env = dict(eng.entry_env)
        if frame.parent is not None:
            for name in con.free:
                env[name] = frame.parent.env[name]
        try:
            self.check_lock_discipline(eng, con, fn, kind, val)
            self.check_frame(eng, con, fn)
            if kind == "normal":
                if getattr(frame, "is_gen", False):
                    val = frame.env["__yielded__"]
                env["result"] = val
                self.check_result_type(eng, con, val)
                for path, ex in con.assigns.items():
                    from .models import compare as _cmp
                    a = eng.eval_spec(path, frame, extra=env)
                    b = eng.eval_spec(ex, frame, extra=env)
                    eng.prove(f"{pfx}:assigns:{path}", _cmp(eng, ast.Is(), a, b, fn), "post", fn, detail=f"{path} is {ex}", frame=frame, extra=env)
                for j, p in enumerate(con.ensures):
                    eng.prove(f"{pfx}:post#{j + 1}", eng.eval_goal(p, frame, extra=env), "post", fn, detail=p, frame=frame, extra=env)
            else:
                e = val
                cname = e.cls or f"<unknown:{e.any_of}>"
                res.raised_classes[cname] = res.raised_classes.get(cname, 0) + 1
                allowed = None
                for a in con.raises:
                    if self.hierarchy.is_subclass(e.cls if e.cls is not None else (e.any_of or "BaseException"), a):
                        allowed = a
                        break
                if allowed is None and not con.raises_any:
                    eng.prove(f"{pfx}:raises-only", False, "raises-only", fn,
                              detail=f"{cname} raised at line {e.site}; allowed: {sorted(con.raises)}", assume_after=False, frame=frame, extra=env)
                elif allowed is not None:
                    for j, p in enumerate(con.raises[allowed] or []):
                        eng.prove(f"{pfx}:raises:{allowed}#{j + 1}", eng.eval_goal(p, frame, extra=env), "raises-post", fn,
                                  detail=f"{p}  [{cname} raised at line {e.site}]", frame=frame, extra=env)
        except PathEnd:
            return

    def check_result_type(self, eng, con, val):
        pass

    def check_lock_discipline(self, eng, con, fn, kind, val):
        """C07 (options lock_discipline): every _GitFile created by this call and not handed to
        the caller is Released at every exit, and not committed at exceptional exits."""
        if not con.options.get("lock_discipline"):
            return
        from .values import VObj, VRef, VTuple
        escaped = set()
        if kind == "normal":
            todo = [val]
            while todo:
                v = todo.pop()
                if isinstance(v, VRef):
                    escaped.add(v.addr)
                elif isinstance(v, VTuple):
                    todo.extend(v.items)
        # stored into an object that existed at entry
        for addr, o in eng.heap.items():
            if addr in eng.heap_at_entry and isinstance(o, VObj):
                for f, x in o.fields.items():
                    if isinstance(x, VRef):
                        escaped.add(x.addr)
        pfx = con.oid_prefix
        for addr, o in sorted(eng.heap.items()):
            if addr in eng.heap_at_entry or not isinstance(o, VObj) or o.cls != "_GitFile":
                continue
            if addr in escaped and kind == "normal":
                continue
            owns = o.fields.get("owns")
            if owns is not None:
                stuck = o.fields.get("stuck")
                goal = z3.Not(owns.t) if stuck is None else z3.Or(z3.Not(owns.t), stuck.t)
                eng.prove(f"{pfx}:lock-released@{kind}", goal, "ghost-post", fn, props=["C07"],
                          detail=f"lock taken in this call is released on every {kind} exit (unless the OS refused to remove the lock file)", assume_after=False)

    def check_frame(self, eng, con, fn):
        """Frame condition: everything reachable from the parameters at entry that the contract
        does not list under `modifies` is unchanged at exit (obligation `frame:<path>`)."""
        import z3 as _z3
        from .values import VObj, VSeq, VInt, VBool, VRef, VChunks, VDict, seq_eq
        from .models import py_eq
        mods = list(con.modifies)
        pfx = con.oid_prefix

        def allowed(path):
            return any(path == m or path.startswith(m + ".") for m in mods)

        def same(path, old, new, depth):
            if allowed(path) or (old is new and not isinstance(old, VRef)):
                return
            if isinstance(old, VRef) and isinstance(new, VRef):
                if old.addr != new.addr:
                    eng.prove(f"{pfx}:frame:{path}", False, "frame", fn, detail=f"{path} rebound to another object but not listed in modifies", assume_after=False)
                    return
                o0 = eng.heap_at_entry.get(old.addr)
                o1 = eng.heap.get(old.addr)
                if o0 is o1 or o0 is None:
                    return
                if isinstance(o0, VObj) and isinstance(o1, VObj):
                    for f in sorted(set(o0.fields) | set(o1.fields)):
                        a, b = o0.fields.get(f), o1.fields.get(f)
                        if a is None:
                            continue     # attribute created lazily on first read: not a write
                        if b is None:
                            continue
                        if depth < 4:
                            same(f"{path}.{f}", a, b, depth + 1)
                    return
                same(path, o0, o1, depth + 1)
                return
            if isinstance(old, (VInt, VBool)) and isinstance(new, (VInt, VBool)):
                eng.prove(f"{pfx}:frame:{path}", py_eq(eng, old, new, fn), "frame", fn, detail=f"{path} unchanged (not in modifies)")
                return
            if isinstance(old, VSeq) and isinstance(new, VSeq):
                eng.prove(f"{pfx}:frame:{path}", seq_eq(old, new), "frame", fn, detail=f"{path} unchanged (not in modifies)")
                return
            if isinstance(old, VChunks) and isinstance(new, VChunks):
                eng.prove(f"{pfx}:frame:{path}", _z3.And(seq_eq(old.join, new.join), old.count == new.count), "frame", fn, detail=f"{path} unchanged (not in modifies)")
                return
            if type(old) is type(new) and getattr(old, "t", None) is not None and getattr(new, "t", None) is not None:
                try:
                    eng.prove(f"{pfx}:frame:{path}", old.t == new.t, "frame", fn, detail=f"{path} unchanged (not in modifies)")
                    return
                except Exception:
                    pass
            eng.prove(f"{pfx}:frame:{path}", False, "frame", fn, detail=f"{path} changed ({type(old).__name__} -> {type(new).__name__}) but not listed in modifies", assume_after=False)

        for name, v in eng.entry_env.items():
            if isinstance(v, VRef):
                same(name, v, v, 0)

    # ---- precondition satisfiable / canary
    def check_requires_sat(self, con):
        self.current = con
        try:
            mod = ModuleInfo.get(self.root, con.file)
            fn, chain = mod.find_function(con.func)
            eng = Engine(self, [])
            try:
                self.setup_frame(eng, con, mod, fn, chain)
            except PathEnd:
                return False
            return eng.solver.check() != z3.unsat
        finally:
            self.current = None

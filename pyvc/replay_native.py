"""Native replay of a counterexample against the real code (runs under /venv/bin/python, no z3).

usage: replay_native.py <replay.json> [--repo /repo]
Prints one JSON line {"confirmed": bool, "why": str, "observed": ...}; exit 0 always.
"""
import json
import os
import sys

HERE = os.path.dirname(os.path.dirname(os.path.abspath(__file__)))
sys.path.insert(0, HERE)


def main():
    rp = json.load(open(sys.argv[1]))
    repo = os.environ.get("VERIF_REPO", "/repo")
    if "--repo" in sys.argv:
        repo = sys.argv[sys.argv.index("--repo") + 1]
    from pyvc import native
    native.setup(repo, block_rust=not rp.get("with_rust", False))
    out = {"confirmed": False, "why": "", "observed": None}
    if rp.get("bounded") and not rp.get("func"):
        # failure found by a bounded stand-in without a per-function replay: re-run that stand-in
        import subprocess
        from bounded.registry import BOUNDED
        item = next((it for it in BOUNDED.get(rp["property"], []) if it["name"] == rp["bounded"]), None)
        if item is None:
            out["why"] = "unknown bounded stand-in"
            print(json.dumps(out))
            return
        env = dict(os.environ, VERIF_REPO=repo, PYTHONPATH=HERE)
        pr = subprocess.run([sys.executable, os.path.join(HERE, "bounded", item["script"])] + item.get("args", []) + ["--tier", "quick"],
                            capture_output=True, text=True, env=env)
        try:
            res = json.loads(pr.stdout.strip().splitlines()[-1])
            out["confirmed"] = bool(res.get("failures"))
            out["why"] = f"bounded stand-in re-run: {len(res.get('failures', []))} failing case(s)"
            out["observed"] = res.get("failures", [])[:2]
        except Exception as e:
            out["why"] = f"bounded stand-in crashed: {e!r} {pr.stderr[-300:]}"
        print(json.dumps(out))
        return
    try:
        C = native.load_contracts()
        con = C.REGISTRY[(rp["file"], rp["func"])]
        nc = native.NativeContract(con, repo)
        inputs = {k: native.decode_value(v) for k, v in rp["inputs"].items()}
        args = {k: inputs[k] for k in nc.params if k in inputs}
        missing = [k for k in nc.params if k not in inputs]
        if missing:
            out["why"] = f"model gives no value for {missing}"
            print(json.dumps(out))
            return
        free = {k: inputs.get(k) for k in con.free}
        only = {rp["obligation"]}
        r = nc.run(args, free, only=only)
    except Exception as e:
        out["why"] = f"replay error: {e!r}"
        print(json.dumps(out))
        return
    out["observed"] = {"raised": r["raised"], "result": native._brief(r["result"]), "skipped": r["skipped"]}
    if r["skipped"]:
        out["why"] = r["skipped"]
    elif r["failures"]:
        out["confirmed"] = True
        out["why"] = "clause false on the real code"
        out["observed"]["failures"] = r["failures"][:3]
    else:
        out["why"] = "clause held on the real code for this input"
    print(json.dumps(out))


if __name__ == "__main__":
    main()

"""Symbolic value model of pyvc.

Python values are represented at the meta level by small wrapper classes around z3 terms.
Sequences (bytes, bytearray, list[int], tuple[int]) are a pair (index -> element term, length
term); the index function is a *meta-level* closure so that slicing / concatenation never
introduce quantifiers.  Mutable values live on the engine's heap and are referenced by VRef.
"""
from __future__ import annotations

import itertools
import z3

Val = z3.DeclareSort("Val")          # opaque Python objects
IntS = z3.IntSort()
BoolS = z3.BoolSort()

_counter = itertools.count()


def fresh_name(prefix: str) -> str:
    return f"{prefix}!{next(_counter)}"


def fresh_int(prefix="i"):
    return z3.Int(fresh_name(prefix))


def fresh_bound(prefix="k"):
    """A constant that will be bound by a quantifier (recognisable by its name)."""
    return z3.Int(fresh_name("bv!" + prefix))


def mentions_bound(t):
    """True when the term mentions a to-be-bound constant or a de Bruijn variable."""
    todo = [t]
    seen = set()
    while todo:
        x = todo.pop()
        i = x.get_id()
        if i in seen:
            continue
        seen.add(i)
        if z3.is_var(x):
            return True
        if z3.is_const(x) and x.decl().kind() == z3.Z3_OP_UNINTERPRETED and x.decl().name().startswith("bv!"):
            return True
        if z3.is_quantifier(x):
            todo.append(x.body())
        else:
            todo.extend(x.children())
    return False


def has_quantifier(t):
    todo = [t]
    seen = set()
    while todo:
        x = todo.pop()
        i = x.get_id()
        if i in seen:
            continue
        seen.add(i)
        if z3.is_quantifier(x):
            return True
        todo.extend(x.children())
    return False


def fresh_bool(prefix="b"):
    return z3.Bool(fresh_name(prefix))


def fresh_val(prefix="o"):
    return z3.Const(fresh_name(prefix), Val)


def fresh_arr(prefix="a", rng=IntS):
    return z3.Array(fresh_name(prefix), IntS, rng)


# uninterpreted helpers over opaque values
truthy_f = z3.Function("truthy", Val, BoolS)
isnone_f = z3.Function("isnone", Val, BoolS)
val_of_int = z3.Function("val_of_int", IntS, Val)
int_of_val = z3.Function("int_of_val", Val, IntS)
str_id = z3.Function("str_id", Val, IntS)


class V:
    """Base class of symbolic values."""

    def truthy(self):
        raise NotImplementedError(type(self).__name__)

    def pytype(self) -> str:
        return type(self).__name__


class VInt(V):
    def __init__(self, t):
        if isinstance(t, int):
            t = z3.IntVal(t)
        self.t = t

    def truthy(self):
        return self.t != 0

    def pytype(self):
        return "int"

    def __repr__(self):
        return f"VInt({self.t})"


class VBool(V):
    def __init__(self, t):
        if isinstance(t, bool):
            t = z3.BoolVal(t)
        self.t = t

    def truthy(self):
        return self.t

    def pytype(self):
        return "bool"

    def __repr__(self):
        return f"VBool({self.t})"


class VNone(V):
    def truthy(self):
        return z3.BoolVal(False)

    def pytype(self):
        return "NoneType"

    def __repr__(self):
        return "VNone"


NONE = VNone()


class VStr(V):
    """Python str.  Constant strings keep their text; symbolic ones are interned ids."""

    _intern: dict = {}

    def __init__(self, s=None, t=None):
        self.s = s
        if t is None:
            if s is None:
                t = fresh_int("str")
            else:
                if s not in VStr._intern:
                    VStr._intern[s] = len(VStr._intern)
                t = z3.IntVal(VStr._intern[s])
        self.t = t

    def truthy(self):
        if self.s is not None:
            return z3.BoolVal(bool(self.s))
        return fresh_bool("strtruth")

    def pytype(self):
        return "str"

    def __repr__(self):
        return f"VStr({self.s!r})"


class VSeq(V):
    """bytes / bytearray / list[int] / tuple[int] as (at, n).

    kind: 'bytes' | 'bytearray' | 'list' | 'tuple' | 'memoryview'
    byte: True when elements are known to be in 0..255 (added as facts on demand)
    arr:  optional z3 array with at(k) == arr[k] (needed by array spec functions)
    """

    def __init__(self, at, n, kind="bytes", arr=None, esort="int", off=0):
        self.at = at
        self.n = n if not isinstance(n, int) else z3.IntVal(n)
        self.kind = kind
        self.arr = arr          # when set: at(k) == arr[off + k]
        self.off = off if not isinstance(off, int) else z3.IntVal(off)
        self.esort = esort

    def truthy(self):
        return self.n != 0

    def pytype(self):
        return self.kind

    origin = None     # id of the parameter array this value is a slice of (provenance), if any

    def with_kind(self, kind):
        r = VSeq(self.at, self.n, kind, self.arr, self.esort, self.off)
        r.origin = self.origin
        return r

    def const_len(self):
        n = z3.simplify(self.n)
        if z3.is_int_value(n):
            return n.as_long()
        return None

    def __repr__(self):
        return f"VSeq<{self.kind}>(n={self.n})"


def seq_from_array(arr, n, kind="bytes", esort="int", off=0):
    o = off if not isinstance(off, int) else z3.IntVal(off)
    if z3.is_int_value(o) and o.as_long() == 0:
        return VSeq(lambda k, a=arr: a[k], n, kind, arr=arr, esort=esort)
    return VSeq(lambda k, a=arr, o=o: a[k + o], n, kind, arr=arr, esort=esort, off=o)


def seq_const(bs, kind="bytes"):
    """A sequence with concrete content (bytes or list of ints)."""
    items = list(bs)
    n = len(items)

    def at(k, items=items):
        if isinstance(k, int):
            return z3.IntVal(items[k]) if 0 <= k < len(items) else z3.IntVal(0)
        ks = z3.simplify(k)
        if z3.is_int_value(ks):
            i = ks.as_long()
            return z3.IntVal(items[i]) if 0 <= i < len(items) else z3.IntVal(0)
        t = z3.IntVal(0)
        for i in reversed(range(len(items))):
            t = z3.If(k == i, z3.IntVal(items[i]), t)
        return t

    v = VSeq(at, n, kind)
    v.const = bytes(items) if all(0 <= x < 256 for x in items) else None
    v.items = items
    return v


def seq_of_terms(terms, kind="list", esort="int"):
    terms = list(terms)

    def at(k, terms=terms):
        ks = z3.simplify(k) if not isinstance(k, int) else z3.IntVal(k)
        if z3.is_int_value(ks):
            i = ks.as_long()
            return terms[i] if 0 <= i < len(terms) else (z3.IntVal(0) if esort == "int" else fresh_val())
        t = terms[-1] if terms else z3.IntVal(0)
        for i in reversed(range(len(terms) - 1)):
            t = z3.If(k == i, terms[i], t)
        return t

    v = VSeq(at, len(terms), kind, esort=esort)
    v.terms = terms
    return v


def seq_concat(a: VSeq, b: VSeq, kind=None):
    an = a.n
    r = VSeq(lambda k: z3.If(k < an, a.at(k), b.at(k - an)), a.n + b.n, kind or a.kind, esort=a.esort)
    # remember the pieces: when r is materialised into an array, that array agrees with the pieces' arrays
    # on their ranges (used by the spec functions' shift/extensionality lemmas)
    pa = getattr(a, "parts", None) or [(a, z3.IntVal(0))]
    pb = getattr(b, "parts", None) or [(b, z3.IntVal(0))]
    r.parts = list(pa) + [(p, z3.simplify(st + an)) for p, st in pb]
    return r


def seq_slice_raw(a: VSeq, lo, ln, kind=None):
    """a[lo:lo+ln] where 0<=lo, lo+ln<=a.n is already established by the caller."""
    if a.arr is not None:
        # stay array-backed: a window into the same array (no materialisation needed by specs)
        r = VSeq(lambda k: a.at(k + lo), ln, kind or a.kind, arr=a.arr, esort=a.esort, off=z3.simplify(a.off + lo))
    else:
        r = VSeq(lambda k: a.at(k + lo), ln, kind or a.kind, esort=a.esort)
    r.origin = getattr(a, "origin", None)
    return r


def seq_append(a: VSeq, x):
    an = a.n
    if a.arr is not None:
        return seq_from_array(z3.Store(a.arr, a.off + an, x), an + 1, a.kind, a.esort, a.off)
    return VSeq(lambda k: z3.If(k == an, x, a.at(k)), an + 1, a.kind, esort=a.esort)


def seq_prepend(a: VSeq, x):
    if a.arr is not None:
        return seq_from_array(z3.Store(a.arr, a.off - 1, x), a.n + 1, a.kind, a.esort, z3.simplify(a.off - 1))
    return VSeq(lambda k: z3.If(k == 0, x, a.at(k - 1)), a.n + 1, a.kind, esort=a.esort)


def seq_store(a: VSeq, i, x):
    if a.arr is not None:
        return seq_from_array(z3.Store(a.arr, a.off + i, x), a.n, a.kind, a.esort, a.off)
    return VSeq(lambda k: z3.If(k == i, x, a.at(k)), a.n, a.kind, esort=a.esort)


def seq_eq(a: VSeq, b: VSeq):
    """z3 Bool: same length and same elements."""
    la, lb = a.const_len(), b.const_len()
    if la is not None and lb is not None:
        if la != lb:
            return z3.BoolVal(False)
        return z3.And([a.at(z3.IntVal(i)) == b.at(z3.IntVal(i)) for i in range(la)] or [z3.BoolVal(True)])
    if la is not None or lb is not None:
        L = la if la is not None else lb
        if L <= 64:
            return z3.And([a.n == b.n] + [a.at(z3.IntVal(i)) == b.at(z3.IntVal(i)) for i in range(L)])
    if a.arr is not None and b.arr is not None and z3.eq(a.arr, b.arr) and z3.eq(z3.simplify(a.off), z3.simplify(b.off)):
        return a.n == b.n
    k = fresh_bound("k")
    return z3.And(a.n == b.n, z3.ForAll([k], z3.Implies(z3.And(0 <= k, k < a.n), a.at(k) == b.at(k))))


class VTuple(V):
    def __init__(self, items):
        self.items = list(items)

    def truthy(self):
        return z3.BoolVal(bool(self.items))

    def pytype(self):
        return "tuple"

    def __repr__(self):
        return f"VTuple({self.items})"


class VRef(V):
    """Reference to a mutable heap value (bytearray, list, object, dict, set, chunk list)."""

    def __init__(self, addr):
        self.addr = addr

    def __repr__(self):
        return f"VRef({self.addr})"


class VObj(V):
    """Heap content: instance of a class with named fields."""

    def __init__(self, cls, fields=None, ident=None):
        self.cls = cls
        self.fields = dict(fields or {})
        self.ident = ident if ident is not None else fresh_val("obj")

    def truthy(self):
        return z3.BoolVal(True)

    def pytype(self):
        return self.cls

    def __repr__(self):
        return f"VObj<{self.cls}>({list(self.fields)})"


class VChunks(V):
    """list[bytes] abstracted to its concatenation, total length and element count."""

    def __init__(self, join: VSeq, count):
        self.join = join
        self.count = count if not isinstance(count, int) else z3.IntVal(count)

    def truthy(self):
        return self.count != 0

    def pytype(self):
        return "list"

    def __repr__(self):
        return f"VChunks(count={self.count}, total={self.join.n})"


class VOpaque(V):
    def __init__(self, t=None, tag=""):
        self.t = t if t is not None else fresh_val("op")
        self.tag = tag

    def truthy(self):
        return truthy_f(self.t)

    def pytype(self):
        return "opaque"

    def __repr__(self):
        return f"VOpaque({self.tag})"


class VClass(V):
    """A class object (exception classes, bytes, int ...)."""

    def __init__(self, name, module=None):
        self.name = name
        self.module = module

    def truthy(self):
        return z3.BoolVal(True)

    def __repr__(self):
        return f"VClass({self.name})"


class VFunc(V):
    """A callable known to the engine: ('def', module, qualname, node, defining frame) or
    ('model', dotted name) or ('bound', receiver V, method name)."""

    def __init__(self, kind, **kw):
        self.kind = kind
        self.__dict__.update(kw)

    def truthy(self):
        return z3.BoolVal(True)

    def __repr__(self):
        return f"VFunc({self.kind}, {getattr(self, 'name', getattr(self, 'qualname', ''))})"


class VModule(V):
    def __init__(self, name):
        self.name = name

    def truthy(self):
        return z3.BoolVal(True)

    def __repr__(self):
        return f"VModule({self.name})"


class VSet(V):
    """frozenset/set of ints with concrete membership (used for character classes) or symbolic
    characteristic array."""

    def __init__(self, members=None, arr=None, count=None):
        self.members = members  # python frozenset of ints, or None
        self.arr = arr          # z3 Array Int->Bool (or Val->Bool)
        self.count = count

    def contains_term(self, x):
        if self.members is not None:
            return z3.Or([x == m for m in sorted(self.members)] or [z3.BoolVal(False)])
        return self.arr[x]

    def truthy(self):
        if self.members is not None:
            return z3.BoolVal(bool(self.members))
        return fresh_bool("settruth")

    def pytype(self):
        return "set"


class VDict(V):
    """dict as (present: Array K Bool, value: Array K T) with K, T in {Int, Val}; heap content."""

    def __init__(self, present, value, ksort="val", vsort="val", size=None):
        self.present = present
        self.value = value
        self.ksort = ksort
        self.vsort = vsort
        self.size = size

    def truthy(self):
        return fresh_bool("dicttruth")

    def pytype(self):
        return "dict"

"""Native (CPython) evaluation of sidecar contracts on the real functions: used by replays and by
the bounded stand-ins.  Pure Python, no z3; runs under /venv/bin/python with the repository on
sys.path and the Rust extension modules blocked (the repository's own ImportError fallback), so that
the pure-Python twins are the code that runs.
"""
from __future__ import annotations

import ast
import copy
import glob
import importlib
import os
import sys
import types

HERE = os.path.dirname(os.path.dirname(os.path.abspath(__file__)))


def setup(repo, block_rust=True):
    if block_rust:
        for ext in ("dulwich._pack", "dulwich._objects", "dulwich._diff_tree"):
            sys.modules[ext] = None
    if repo not in sys.path:
        sys.path.insert(0, repo)
    if HERE not in sys.path:
        sys.path.insert(0, HERE)


def load_contracts():
    from pyvc import contract as C
    if not C.REGISTRY:
        for f in sorted(glob.glob(os.path.join(HERE, "contracts", "c*.py"))):
            importlib.import_module("contracts." + os.path.basename(f)[:-3])
    return C


def spec_env():
    env = {}
    import contracts.specs_py as sp
    for k, v in vars(sp).items():
        if callable(v) and not k.startswith("_"):
            env[k] = v
    from pyvc import specs_conc
    env.update(specs_conc.CONC)
    env["chunks_length"] = lambda c: len(c) if isinstance(c, (bytes, bytearray, memoryview)) else sum(map(len, c))
    return env


def find_code(code, name):
    for c in code.co_consts:
        if isinstance(c, types.CodeType) and c.co_name == name:
            return c
    return None


def build_callable(mod, qual, free_vals):
    """The real function object; nested closures are rebuilt from the enclosing code object's
    constants (the compiled real code) with fresh cells for their free variables."""
    parts = qual.split(".")
    obj = getattr(mod, parts[0])
    if len(parts) == 1:
        return obj, None
    if isinstance(obj, type):
        meth = obj.__dict__[parts[1]]
        if isinstance(meth, (staticmethod, classmethod)):
            meth = meth.__func__
        if isinstance(meth, property):
            meth = meth.fget
        if len(parts) == 2:
            return meth, obj
        code = meth.__code__
        rest = parts[2:]
    else:
        code = obj.__code__
        rest = parts[1:]
    for p in rest:
        code = find_code(code, p)
        if code is None:
            raise RuntimeError(f"closure {qual} not found")
    cells = tuple(types.CellType(free_vals.get(n)) for n in code.co_freevars)
    fn = types.FunctionType(code, mod.__dict__, parts[-1], None, cells)
    fn.__cells__ = dict(zip(code.co_freevars, cells))
    return fn, None


def rewrite_old(expr):
    """old(e) -> __old__(lambda: e) cannot capture entry values; instead split into (expr', olds)."""
    olds = []
    out = ""
    i = 0
    while True:
        j = expr.find("old(", i)
        if j < 0 or (j > 0 and (expr[j - 1].isalnum() or expr[j - 1] == "_")):
            if j < 0:
                out += expr[i:]
                break
            out += expr[i:j + 4]
            i = j + 4
            continue
        depth = 0
        k = j + 3
        while True:
            if expr[k] == "(":
                depth += 1
            elif expr[k] == ")":
                depth -= 1
                if depth == 0:
                    break
            k += 1
        inner = expr[j + 4:k]
        name = f"__old{len(olds)}__"
        olds.append((name, inner))
        out += expr[i:j] + name
        i = k + 1
    return out, olds


class Clause:
    def __init__(self, oid, kind, expr, lines=None, exc=None):
        self.oid = oid
        self.kind = kind
        self.expr = expr
        self.code, self.olds = rewrite_old(expr) if expr else ("True", [])
        self.compiled = compile(self.code.strip(), f"<{oid}>", "eval")
        self.old_compiled = [(n, compile(e.strip(), f"<old:{oid}>", "eval")) for n, e in self.olds]
        self.lines = lines or []
        self.exc = exc


class NativeContract:
    """All clauses of one contract, prepared for evaluation on the real function."""

    def __init__(self, con, repo):
        from pyvc.astutil import ModuleInfo, loops_of
        self.con = con
        self.repo = repo
        self.modinfo = ModuleInfo.get(repo, con.file)
        self.fn_node, self.chain = self.modinfo.find_function(con.func)
        if self.fn_node is None:
            raise RuntimeError(f"{con.func} not found in {con.file}")
        self.env = spec_env()
        self.mod = importlib.import_module(con.file[:-3].replace("/", "."))
        a = self.fn_node.args
        self.params = [p.arg for p in a.posonlyargs + a.args + a.kwonlyargs]
        pfx = con.oid_prefix
        self.requires = [Clause(f"{pfx}:requires#{j + 1}", "requires", r) for j, r in enumerate(con.requires)]
        self.posts = [Clause(f"{pfx}:post#{j + 1}", "post", p) for j, p in enumerate(con.ensures)]
        self.exc_posts = {}
        for exc, posts in con.raises.items():
            self.exc_posts[exc] = [Clause(f"{pfx}:raises:{exc}#{j + 1}", "raises-post", p) for j, p in enumerate(posts or [])]
        self.point_clauses = {}     # line -> [Clause]
        loops = loops_of(self.fn_node)
        self.loop_info = {}
        for k, spec in con.loops.items():
            if k > len(loops):
                continue
            lp = loops[k - 1]
            lines = sorted({lp.lineno, lp.body[0].lineno}) if isinstance(lp, ast.While) else [lp.body[0].lineno]
            self.loop_info[k] = (lp, lines)
            for j, inv in enumerate(spec.invariant):
                cl = Clause(f"{pfx}:inv@loop{k}#{j + 1}", "inv", inv, lines)
                cl.loop = k
                for ln in lines:
                    self.point_clauses.setdefault(ln, []).append(cl)
        for label, pat, exprs in con.options.get("asserts", []):
            lines = [n.lineno for n in ast.walk(self.fn_node)
                     if isinstance(n, ast.stmt) and not isinstance(n, (ast.While, ast.For, ast.Try, ast.With, ast.FunctionDef))
                     and " ".join(pat.split()) in (("if " + " ".join(self.modinfo.segment(n.test).split()) + ":") if isinstance(n, ast.If)
                                                   else " ".join(self.modinfo.segment(n).split()))]
            for j, ex in enumerate(exprs):
                cl = Clause(f"{pfx}:assert@{label}#{j + 1}", "assert", ex, lines)
                for ln in lines:
                    self.point_clauses.setdefault(ln, []).append(cl)

    def run(self, args: dict, free: dict | None = None, only=None, max_events=2_000_000):
        """Call the real function on `args`; returns dict(skipped, raised, result, failures)."""
        free = dict(free or {})
        env = self.env
        out = {"skipped": None, "raised": None, "result": None, "failures": []}
        entry = copy.deepcopy({**args, **free})
        scope0 = dict(env)
        scope0.update(entry)
        for cl in self.requires:
            try:
                if not eval(cl.compiled, dict(scope0)):
                    out["skipped"] = f"precondition false: {cl.expr}"
                    return out
            except Exception as e:
                out["skipped"] = f"precondition error {e!r}: {cl.expr}"
                return out
        try:
            fn, cls = build_callable(self.mod, self.con.func, free)
        except Exception as e:
            out["skipped"] = f"cannot build callable: {e!r}"
            return out
        code = fn.__code__
        failures = out["failures"]
        events = [0]
        iters = {}

        def oldvals(cl):
            d = {}
            for n, c in cl.old_compiled:
                d[n] = eval(c, dict(scope0))
            return d

        def local_trace(frame, event, arg):
            if event != "line":
                return local_trace
            cls_ = self.point_clauses.get(frame.f_lineno)
            if not cls_:
                return local_trace
            events[0] += 1
            if events[0] > max_events:
                return None
            scope = dict(env)
            scope.update(frame.f_locals)
            if hasattr(fn, "__cells__"):
                for n, c in fn.__cells__.items():
                    try:
                        scope[n] = c.cell_contents
                    except ValueError:
                        pass
            for cl in cls_:
                if only and cl.oid not in only and cl.oid.replace(":inv@", ":inv-preserved@") not in only and cl.oid.replace(":inv@", ":inv-entry@") not in only:
                    continue
                if cl.kind == "inv" and isinstance(self.loop_info[cl.loop][0], ast.While) and len(cl.lines) == 2 and frame.f_lineno == cl.lines[1]:
                    # body-first-line visit: only meaningful when the header line gets no events
                    # (constant-true loops); otherwise the header visit already checked it
                    if iters.get(("hdr", cl.loop)):
                        continue
                if cl.kind == "inv" and frame.f_lineno == cl.lines[0] and isinstance(self.loop_info[cl.loop][0], ast.While) and len(cl.lines) == 2:
                    iters[("hdr", cl.loop)] = True
                sc = dict(scope)
                try:
                    sc.update(oldvals(cl))
                    ok = eval(cl.compiled, sc)
                except (NameError, UnboundLocalError):
                    continue     # a name of the clause is not bound yet: not at the program point proper
                except Exception as e:
                    ok = True
                if not ok and len(failures) < 5:
                    failures.append({"obligation": cl.oid, "clause": cl.expr, "line": frame.f_lineno,
                                     "locals": {k: _brief(v) for k, v in frame.f_locals.items()}})
            return local_trace

        def tracer(frame, event, arg):
            if frame.f_code is code:
                return local_trace
            return None

        raised = None
        result = None
        use_trace = bool(self.point_clauses)
        if use_trace:
            sys.settrace(tracer)
        try:
            result = fn(**{p: args[p] for p in self.params if p in args}) if cls is None or "self" not in self.params else fn(*[args[p] for p in self.params])
            if isinstance(result, types.GeneratorType):
                result = list(result)
        except BaseException as e:  # noqa: BLE001
            if isinstance(e, (KeyboardInterrupt, SystemExit, MemoryError)) and not isinstance(e, MemoryError):
                raise
            raised = e
        finally:
            if use_trace:
                sys.settrace(None)
        out["raised"] = type(raised).__name__ if raised is not None else None
        out["result"] = result
        final = {}
        if hasattr(fn, "__cells__"):
            for n, c in fn.__cells__.items():
                try:
                    final[n] = c.cell_contents
                except ValueError:
                    pass
        scope = dict(env)
        scope.update(entry if False else args)
        scope.update(final)
        pfx = self.con.oid_prefix
        if raised is None:
            scope["result"] = result
            for cl in self.posts:
                if only and cl.oid not in only:
                    continue
                sc = dict(scope)
                try:
                    sc.update(oldvals(cl))
                    ok = eval(cl.compiled, sc)
                except Exception as e:
                    failures.append({"obligation": cl.oid, "clause": cl.expr, "error": repr(e)})
                    continue
                if not ok:
                    failures.append({"obligation": cl.oid, "clause": cl.expr, "result": _brief(result)})
        else:
            names = [c.__name__ for c in type(raised).__mro__]
            allowed = None
            for a in self.con.raises:
                if a in names or a.split(".")[-1] in names:
                    allowed = a
                    break
            if allowed is None and not self.con.raises_any:
                if not only or f"{pfx}:raises-only" in only:
                    failures.append({"obligation": f"{pfx}:raises-only", "clause": f"raises only {sorted(self.con.raises)}",
                                     "raised": f"{type(raised).__name__}: {str(raised)[:120]}"})
            elif allowed is not None:
                for cl in self.exc_posts.get(allowed, []):
                    if only and cl.oid not in only:
                        continue
                    sc = dict(scope)
                    try:
                        sc.update(oldvals(cl))
                        ok = eval(cl.compiled, sc)
                    except Exception as e:
                        failures.append({"obligation": cl.oid, "clause": cl.expr, "error": repr(e)})
                        continue
                    if not ok:
                        failures.append({"obligation": cl.oid, "clause": cl.expr, "raised": type(raised).__name__})
        return out


def _brief(v):
    if isinstance(v, (int, bool, type(None))):
        return v
    if isinstance(v, (bytes, bytearray)):
        return {"bytes_len": len(v), "hex_prefix": bytes(v[:32]).hex()}
    if isinstance(v, (list, tuple)):
        return {"len": len(v), "type": type(v).__name__}
    return str(type(v).__name__)


def decode_value(v):
    """JSON model value (engine.concretize format) -> Python value."""
    t = v.get("t")
    if t == "int":
        return int(v["v"]) if not isinstance(v["v"], str) else 0
    if t == "bool":
        return bool(v["v"])
    if t == "none":
        return None
    if t == "str":
        return v.get("v") or ""
    if t in ("bytes", "memoryview", "bytearray"):
        b = bytes.fromhex(v["hex"]) if v.get("hex") is not None else bytes(x & 255 for x in (v.get("items") or []))
        return bytearray(b) if t == "bytearray" else b
    if t in ("list", "tuple") and "n" in v:
        items = list(bytes.fromhex(v["hex"])) if v.get("hex") is not None else list(v.get("items") or [])
        return items if t == "list" else tuple(items)
    if t == "chunks":
        j = decode_value(v["join"])
        c = decode_value(v["count"]) if isinstance(v.get("count"), dict) else 1
        if c <= 0:
            return []
        if c == 1 or not j:
            return [j] + [b""] * (c - 1 if c < 64 else 0)
        k = max(1, len(j) // c)
        return [j[i * k:(i + 1) * k] for i in range(c - 1)] + [j[(c - 1) * k:]]
    if t == "tuple":
        return tuple(decode_value(x) for x in v["items"])
    if t == "obj":
        return {"__obj__": v["cls"], "fields": {k: decode_value(x) for k, x in v["fields"].items()}}
    if t == "py":
        return eval(v["repr"], {})
    return None


def encode_value(x):
    if isinstance(x, bool):
        return {"t": "bool", "v": x}
    if isinstance(x, int):
        return {"t": "int", "v": x}
    if x is None:
        return {"t": "none"}
    if isinstance(x, (bytes, bytearray)):
        return {"t": "bytes" if isinstance(x, bytes) else "bytearray", "n": len(x), "hex": bytes(x).hex()}
    return {"t": "py", "repr": repr(x)}

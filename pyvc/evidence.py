"""evidence/<id>.json writer (schema: /root/.vp/EVIDENCE.schema.json)."""
from __future__ import annotations

import json
import os

LEVELS = {}   # property -> level, filled from MANIFEST.json when present


def manifest_level(here, prop):
    try:
        m = json.load(open(os.path.join(here, "MANIFEST.json")))
        for c in m.get("checks", []):
            if c["property_id"] == prop:
                return c["level_claimed"]["category"]
    except Exception:
        pass
    return None


def write_evidence(path, prop, tier, seed, results, lemma_results, bounded, obligations, discharged, violations,
                   undecided, crashes, known_lines, vf, wall, root, known_entries):
    here = os.path.dirname(os.path.dirname(os.path.abspath(__file__)))
    level = manifest_level(here, prop) or "proof"
    n = len(obligations)
    by_backend = {}
    solver_secs = 0.0
    for oid, d in obligations.items():
        solver_secs += d.get("secs", 0.0)
    samples = []
    for oid, d in sorted(obligations.items())[:400]:
        if len(samples) >= 12 and d["status"] == "unsat":
            continue
        samples.append({"obligation": oid, "kind": d["kind"], "clause": d.get("detail", "")[:200], "verdict": d["status"],
                        "path_instances": d.get("instances"), "solver_s": d.get("secs"), "function": d.get("function")})
    functions = []
    trusted = set()
    opaque = set()
    for key, r in sorted(results.items()):
        functions.append({"function": r["function"], "source_sha256_16": r.get("source_hash"), "status": r["status"],
                          "paths": r["paths"], "exits": r["exits"], "obligations": len(r["obligations"]),
                          "discharged": sum(1 for d in r["obligations"].values() if d["status"] == "unsat"),
                          "uncovered_lines_rel": r.get("uncovered_lines", []), "raised_classes": r.get("raised", {}),
                          "canaries_run": r.get("canaries", 0), "canaries_proved(must be 0)": r.get("canary_proved", 0),
                          "feasible_exits(vacuous if 0)": r.get("feasible_exits", 0), "exits_infeasible_under_quantified_facts": r.get("infeasible_full", 0),
                          "solver_s": round(r["secs"], 2),
                          "cross_check": {k: v for k, v in (r.get("cross") or {}).items() if k != "disagree"} or None})
        for c in r.get("callee_contracts_used", []):
            if "[trusted]" in c:
                trusted.add(c)
        opaque |= set(r.get("opaque_calls", []))
    bounded_out = []
    bounded_cases = 0
    for b in bounded:
        bounded_out.append({k: v for k, v in b.items() if k not in ("failures", "stderr")} | {"failures": len(b.get("failures", []))})
        bounded_cases += b.get("cases", 0)
    trusted_base = [
        "pyvc (this repository's VC generator): ast -> symbolic execution -> SMT; its encoding of Python semantics (DESIGN.md 1.3)",
        "z3 5.1.0 (python API), fall-backs z3 4.8.12 and cvc5 on SMT-LIB dumps",
        "CPython ast module (parsing of the repository source)",
    ] + sorted(f"assumed contract: {t}" for t in trusted)
    assumptions = [
        "Python int is a mathematical integer; &,|,>>,<< on non-negative operands encoded by div/mod (exact), "
        "symbolic shifts through pow2() with instantiated exponent laws",
        "bytes/bytearray/list[int] are (index->element, length) pairs; parameters and fresh objects are unaliased",
        "exceptions are outcomes; every modelled operation that can raise forks a raising path",
        "facts assumed by spec functions are one-step unfoldings of their definitions or lemmas proved in this run",
        "untracked (opaque) values: attribute reads, item number i of an unmodified untracked sequence (ghost elem), isinstance() and `<` are "
        "deterministic functions of the value; `<` is a strict total order only where a contract sets total_order (then stated as axioms); "
        "membership in an untracked container is deterministic only for names a contract lists under immutable_sets (syntactic guard: never mutated)",
        "ghost witness functions (LoopSpec.witness) and ghost markers (upred/ufi set only by trusted ghost contracts) are specification devices: "
        "they constrain no executable value",
    ]

    if opaque:
        assumptions.append("callees without contract are over-approximated (unknown result, may raise any Exception, mutable arguments havocked): "
                           + ", ".join(sorted(opaque))[:1500])
    for k in known_entries:
        assumptions.append(f"known finding excluded by relativisation: {k.get('obligation') or k.get('bounded')}: {k['what']}")
    for a in sorted(vf.assumptions):
        assumptions.append(a)
    cov = {
        "obligations": n,
        "discharged": discharged,
        "checker_cmd": f"./check {prop} --tier {tier}",
        "trusted_base": trusted_base,
        "samples": samples,
        "functions_under_contract": functions,
        "lemmas": [{"name": l["name"], "status": l["status"], "obligations": len(l["obligations"]),
                    "discharged": sum(1 for d in l["obligations"].values() if d["status"] == "unsat"), "solver_s": round(l["secs"], 2)} for l in lemma_results],
        "bounded": bounded_out,
        "bounded_cases_total(not counted as discharged)": bounded_cases,
        "solver_seconds": round(solver_secs, 2),
        "back_ends": "z3-5.1 API first (timeout %d ms), then z3-4.8.12 / cvc5 / z3-5.1 CLI on the dump (timeout %d s)" % (vf.timeout_ms, vf.ext_timeout_s),
        "undecided": undecided[:50],
        "crashes": crashes[:20],
        "known_findings_reported": known_lines,
        "relativised_obligations": sorted(vf.known),
        "repo_root": root,
        "explanation": "contract-based deductive verification with pyvc: every listed function is re-read from the working tree, "
                       "executed symbolically against its sidecar contract, and each named obligation is discharged by an SMT solver for all inputs "
                       "and all loop iterations; bounded stand-ins are listed separately and never counted as discharged",
        "evaluations": n + bounded_cases,
        "distinct_nontrivial": n,
        "rule": "one evaluation per named proof obligation (distinct obligation ids; trivial ones are those the simplifier closes) plus bounded stand-in cases",
        "exhaustive": False,
    }
    ev = {"property_id": prop, "tier": tier, "seed": seed, "level": level, "coverage": cov, "assumptions": assumptions,
          "wall_s": round(wall, 2), "violations": violations}
    os.makedirs(os.path.dirname(path), exist_ok=True)
    with open(path, "w") as f:
        json.dump(ev, f, indent=1)

"""Models of Python operators, builtins and standard-library functions used by code under contract.

Every model either is exact for the stated domain or over-approximates (fresh result, may raise).
Each stdlib contract that is *assumed* is recorded via engine.vf.note_assumption().
"""
from __future__ import annotations

import ast

import z3

from . import contract as C
from .engine import EngineError, OutOfSubset, PyExc, Frame, ReturnSig
from .values import (NONE, V, VBool, VChunks, VClass, VDict, VFunc, VInt, VModule, VNone, VObj,
                     VOpaque, VRef, VSeq, VSet, VStr, VTuple, Val, fresh_arr, fresh_bool,
                     fresh_bound, fresh_int, fresh_name, fresh_val, isnone_f, seq_append, seq_concat, seq_const,
                     seq_eq, seq_from_array, seq_of_terms, seq_slice_raw, seq_store, truthy_f,
                     val_of_int)

pow2_f = z3.Function("pow2", z3.IntSort(), z3.IntSort())
pyeq_f = z3.Function("pyeq", Val, Val, z3.BoolSort())
member_f = z3.Function("member", Val, Val, z3.BoolSort())      # x in <untracked, unmutated container>
ordlt_f = z3.Function("ord_lt", Val, Val, z3.BoolSort())      # `<` between untracked values (deterministic)


def total_order_axioms():
    """`<` on untracked values is a strict total order whose equality is `==` (bytes / int keys): contract option
    total_order.  Stated as an assumption of the contracts that use it."""
    a, b, c = z3.Consts("oa!0 ob!0 oc!0", Val)
    lt, eq = ordlt_f, pyeq_f
    return [
        z3.ForAll([a], z3.And(z3.Not(lt(a, a)), eq(a, a)), patterns=[lt(a, a), eq(a, a)]),
        z3.ForAll([a, b, c], z3.Implies(z3.And(lt(a, b), lt(b, c)), lt(a, c)), patterns=[z3.MultiPattern(lt(a, b), lt(b, c))]),
        z3.ForAll([a, b], z3.Or(lt(a, b), lt(b, a), eq(a, b)), patterns=[lt(a, b), eq(a, b)]),
        z3.ForAll([a, b], z3.Implies(eq(a, b), z3.And(z3.Not(lt(a, b)), z3.Not(lt(b, a)), eq(b, a))), patterns=[eq(a, b)]),
        z3.ForAll([a, b, c], z3.Implies(z3.And(eq(a, b), lt(a, c)), lt(b, c)), patterns=[z3.MultiPattern(eq(a, b), lt(a, c))]),
        z3.ForAll([a, b, c], z3.Implies(z3.And(eq(a, b), lt(c, a)), lt(c, b)), patterns=[z3.MultiPattern(eq(a, b), lt(c, a))]),
        z3.ForAll([a, b, c], z3.Implies(z3.And(eq(a, b), eq(b, c)), eq(a, c)), patterns=[z3.MultiPattern(eq(a, b), eq(b, c))]),
    ]
none_val = z3.Const("None!val", Val)
bor_f = z3.Function("bor", z3.IntSort(), z3.IntSort(), z3.IntSort())
band_f = z3.Function("band", z3.IntSort(), z3.IntSort(), z3.IntSort())
bxor_f = z3.Function("bxor", z3.IntSort(), z3.IntSort(), z3.IntSort())

BIT_POSITIONS = [1, 2, 3, 4, 5, 6, 7, 8, 12, 14, 16, 21, 24, 28, 31, 32, 35, 40, 42, 48, 49, 56, 63, 64]


len_of_f = z3.Function("len_of", Val, z3.IntSort())
elem_f = z3.Function("elem", Val, z3.IntSort(), Val)


def field_f(i, n):
    return z3.Function(f"unpack_{i}_of_{n}", Val, Val)


def as_int(eng, v, node=None):
    v = eng.deref(v)
    if isinstance(v, VInt):
        return v.t
    if isinstance(v, VBool):
        return z3.If(v.t, 1, 0)
    return None


def const_of(t):
    t = z3.simplify(t)
    if z3.is_int_value(t):
        return t.as_long()
    return None


def to_val(eng, v):
    """Inject a value into the opaque sort (for containers of arbitrary objects)."""
    if isinstance(v, VOpaque):
        return v.t
    if isinstance(v, VInt):
        return val_of_int(v.t)
    if isinstance(v, VNone):
        return none_val
    if isinstance(v, VRef):
        c = eng.heap[v.addr]
        if isinstance(c, VObj):
            return c.ident
    if isinstance(v, VObj):
        return v.ident
    if isinstance(v, VSeq):
        return eng.vf.seq_to_val(eng, v)
    if isinstance(v, VStr):
        return z3.Function("val_of_str", z3.IntSort(), Val)(v.t)
    if isinstance(v, VBool):
        return val_of_int(z3.If(v.t, 1, 0))
    if isinstance(v, VTuple):
        n = len(v.items)
        f = z3.Function(f"val_of_tuple{n}", *([Val] * n + [Val]))
        items = [to_val(eng, x) for x in v.items]
        t = f(*items)
        # projections of the injected tuple (ghost `field`) are its components; a tuple is not None
        for i, it in enumerate(items):
            eng.assume(field_f(i, n)(t) == it)
        eng.assume(z3.Not(isnone_f(t)))
        return t
    return fresh_val("inj")


# ----------------------------------------------------------------------------------------------
# arithmetic
# ----------------------------------------------------------------------------------------------
def pow2(eng, s):
    """2**s for a symbolic non-negative s, as an uninterpreted function with on-demand facts."""
    c = const_of(s)
    if c is not None:
        return z3.IntVal(2 ** c) if c >= 0 else None
    t = pow2_f(s)
    eng.assume(t >= 1)
    # relate to neighbours of the form s = u + c
    ss = z3.simplify(s)
    for u, cst in _split_sum(ss):
        if cst > 0:
            pu = pow2_f(u)
            eng.assume(z3.Implies(u >= 0, t == (2 ** cst) * pu))
            eng.assume(z3.Implies(u >= 0, pu >= 1))
    eng.assume(z3.Implies(s == 0, t == 1))
    # exponent laws against the other pow2 terms of this path (axioms of 2**n, n >= 0)
    key = ss.get_id()
    if key not in eng.pow2_seen:
        for s0 in eng.pow2_terms[-12:]:
            t0 = pow2_f(s0)
            for cst in (1, 4, 7, 8):
                eng.assume(z3.Implies(z3.And(s0 >= 0, s == s0 + cst), t == (2 ** cst) * t0))
                eng.assume(z3.Implies(z3.And(s >= 0, s0 == s + cst), t0 == (2 ** cst) * t))
            eng.assume(z3.Implies(z3.And(0 <= s, s <= s0), t <= t0))
            eng.assume(z3.Implies(z3.And(0 <= s0, s0 <= s), t0 <= t))
            eng.assume(z3.Implies(s == s0, t == t0))
        eng.pow2_seen.add(key)
        eng.pow2_terms.append(ss)
    return t


def _split_sum(t):
    """Decompose t as u + c for integer constant c (yield candidates)."""
    if z3.is_add(t):
        consts = [ch for ch in t.children() if z3.is_int_value(ch)]
        rest = [ch for ch in t.children() if not z3.is_int_value(ch)]
        if consts and rest:
            c = sum(x.as_long() for x in consts)
            u = rest[0] if len(rest) == 1 else z3.Sum(rest)
            yield u, c


def and_const(a, m):
    """a & m for constant m >= 0 and a >= 0 (exact): sum over maximal runs of set bits."""
    if m == 0:
        return z3.IntVal(0)
    terms = []
    bit = 0
    while (1 << bit) <= m:
        if m >> bit & 1:
            lo = bit
            while m >> bit & 1:
                bit += 1
            width = bit - lo
            terms.append(((a / (2 ** lo)) % (2 ** width)) * (2 ** lo) if lo else (a % (2 ** width)))
        else:
            bit += 1
    return z3.Sum(terms) if len(terms) > 1 else terms[0]


def bit_and(eng, a, b):
    ca, cb = const_of(a), const_of(b)
    if ca is not None and cb is not None:
        return z3.IntVal(ca & cb)
    if ca is not None:
        a, b, ca, cb = b, a, cb, ca
    if cb is not None:
        if cb >= 0:
            # exact for every integer a (two's complement): low bits of a are a mod 2^k
            return and_const(a, cb)
        m = ~cb
        return a - and_const(a, m)
    r = band_f(a, b)
    nn = z3.And(a >= 0, b >= 0)
    eng.assume(z3.Implies(nn, z3.And(r >= 0, r <= a, r <= b)))
    return r


def bit_or(eng, a, b, shift_hint=None):
    ca, cb = const_of(a), const_of(b)
    if ca is not None and cb is not None:
        return z3.IntVal(ca | cb)
    if ca is not None:
        a, b, ca, cb = b, a, cb, ca
    if cb is not None and cb >= 0:
        if cb == 0:
            return a
        return a + cb - and_const(a, cb)
    # disjoint bit ranges established by the path condition: a | b == a + b exactly
    if shift_hint is not None:
        if not eng.feasible(z3.Not(z3.And(a >= 0, b >= 0, a < shift_hint))):
            return a + b
    if ca is None and cb is None:
        for k in BIT_POSITIONS:
            p = 2 ** k
            if not eng.feasible(z3.Not(z3.And(a >= 0, b >= 0, z3.Or(z3.And(a < p, b % p == 0), z3.And(b < p, a % p == 0))))):
                return a + b
    r = bor_f(a, b)
    nn = z3.And(a >= 0, b >= 0)
    facts = [r >= a, r >= b, r <= a + b]
    for k in BIT_POSITIONS:
        p = 2 ** k
        facts.append(z3.Implies(z3.And(a < p, b % p == 0), r == a + b))
        facts.append(z3.Implies(z3.And(b < p, a % p == 0), r == a + b))
    eng.assume(z3.Implies(nn, z3.And(facts)))
    if shift_hint is not None:
        # b == t * pow2(s) syntactically: a < pow2(s) -> a | b == a + b
        eng.assume(z3.Implies(z3.And(nn, a < shift_hint), r == a + b))
    return r


def bit_xor(eng, a, b):
    ca, cb = const_of(a), const_of(b)
    if ca is not None and cb is not None:
        return z3.IntVal(ca ^ cb)
    r = bxor_f(a, b)
    eng.assume(z3.Implies(z3.And(a >= 0, b >= 0), z3.And(r >= 0, r <= a + b)))
    return r


def binop(eng, op, a, b, node):
    a0, b0 = a, b
    a, b = eng.deref(a), eng.deref(b)
    if isinstance(op, ast.BitOr) and all(isinstance(x, VClass) or (isinstance(x, VTuple) and getattr(x, "class_union", False)) for x in (a, b)):
        # PEP 604 union of classes (isinstance(x, A | B)): the tuple of its members
        items = []
        for x in (a, b):
            items += x.items if isinstance(x, VTuple) else [x]
        u = VTuple(items)
        u.class_union = True
        return u
    ia, ib = as_int(eng, a), as_int(eng, b)
    if ia is not None and ib is not None:
        if isinstance(op, ast.Add):
            return VInt(ia + ib)
        if isinstance(op, ast.Sub):
            return VInt(ia - ib)
        if isinstance(op, ast.Mult):
            return VInt(ia * ib)
        if isinstance(op, (ast.FloorDiv, ast.Mod)):
            cb = const_of(ib)
            if cb is None or cb == 0:
                if eng.spec:
                    pass
                elif eng.branch(ib == 0):
                    eng.raise_exc("ZeroDivisionError", node)
            if cb is not None and cb > 0:
                return VInt(ia / ib) if isinstance(op, ast.FloorDiv) else VInt(ia % ib)
            if isinstance(op, ast.FloorDiv):
                return VInt(z3.If(ib > 0, ia / ib, (-ia) / (-ib)))
            return VInt(z3.If(ib > 0, ia % ib, -((-ia) % (-ib))))
        if isinstance(op, ast.Div):
            return VOpaque(tag="float")
        if isinstance(op, ast.LShift):
            cb = const_of(ib)
            if cb is not None:
                if cb < 0:
                    eng.raise_exc("ValueError", node)
                r = VInt(ia * (2 ** cb))
                r.shift_pow = z3.IntVal(2 ** cb)
                return r
            if not eng.spec and eng.branch(ib < 0):
                eng.raise_exc("ValueError", node)
            p = pow2(eng, ib)
            r = VInt(ia * p)
            r.shift_pow = p
            return r
        if isinstance(op, ast.RShift):
            cb = const_of(ib)
            if cb is not None:
                if cb < 0:
                    eng.raise_exc("ValueError", node)
                return VInt(ia / (2 ** cb))
            if not eng.spec and eng.branch(ib < 0):
                eng.raise_exc("ValueError", node)
            p = pow2(eng, ib)
            q = fresh_int("shr")
            # q == floor(ia / p) stated without symbolic division
            eng.assume(z3.And(q * p <= ia, ia < (q + 1) * p))
            return VInt(q)
        if isinstance(op, ast.BitAnd):
            if isinstance(a, VBool) and isinstance(b, VBool):
                return VBool(z3.And(a.t, b.t))
            return VInt(bit_and(eng, ia, ib))
        if isinstance(op, ast.BitOr):
            if isinstance(a, VBool) and isinstance(b, VBool):
                return VBool(z3.Or(a.t, b.t))
            return VInt(bit_or(eng, ia, ib, getattr(b, "shift_pow", None)))
        if isinstance(op, ast.BitXor):
            return VInt(bit_xor(eng, ia, ib))
        if isinstance(op, ast.Pow):
            ca, cb = const_of(ia), const_of(ib)
            if ca is not None and cb is not None and cb >= 0:
                return VInt(ca ** cb)
            if ca == 2:
                return VInt(pow2(eng, ib))
            raise OutOfSubset(node, "symbolic power")
        raise OutOfSubset(node, f"int operator {type(op).__name__}")
    if isinstance(a, VSeq) and isinstance(b, VSeq):
        if isinstance(op, ast.Add):
            if a.esort != b.esort:
                raise OutOfSubset(node, "concat of different element sorts")
            r = seq_concat(a, b, a.kind)
            return eng.alloc(r) if a.kind in ("bytearray", "list") else r
    if isinstance(a, VSeq) and ib is not None and isinstance(op, ast.Mult):
        ln = a.const_len()
        cnt = z3.If(ib > 0, ib, 0)
        if ln == 1:
            x = a.at(z3.IntVal(0))
            r = VSeq(lambda k: x, cnt, a.kind, esort=a.esort)
        elif ln is not None and ln > 0:
            r = VSeq(lambda k: a.at(k % ln), cnt * ln, a.kind, esort=a.esort)
        else:
            raise OutOfSubset(node, "sequence repetition of symbolic-length operand")
        return eng.alloc(r) if a.kind in ("bytearray", "list") else r
    if isinstance(a, VChunks) and isinstance(b, VChunks) and isinstance(op, ast.Add):
        return eng.alloc(VChunks(seq_concat(a.join, b.join, "bytes"), a.count + b.count))
    if isinstance(a, VTuple) and isinstance(b, VTuple) and isinstance(op, ast.Add):
        return VTuple(a.items + b.items)
    if isinstance(a, VStr) or isinstance(b, VStr):
        if isinstance(op, (ast.Add, ast.Mod)):
            return VStr()
    if isinstance(a, VOpaque) or isinstance(b, VOpaque):
        if eng.spec:
            return VOpaque(tag="binop")
        return eng.opaque_call(f"<operator {type(op).__name__}>", [], node, havoc_args=False)
    raise OutOfSubset(node, f"operator {type(op).__name__} on {a!r}, {b!r}")


# ----------------------------------------------------------------------------------------------
# comparison
# ----------------------------------------------------------------------------------------------
def seq_lt(a: VSeq, b: VSeq, strict=True):
    """Lexicographic a < b (or <=) on integer sequences."""
    k = fresh_bound("lex")
    j = fresh_bound("lexj")
    m = z3.If(a.n < b.n, a.n, b.n)
    pref = z3.ForAll([j], z3.Implies(z3.And(0 <= j, j < k), a.at(j) == b.at(j)))
    body = z3.And(0 <= k, k <= m, pref,
                  z3.Or(z3.And(k == a.n, k < b.n), z3.And(k < a.n, k < b.n, a.at(k) < b.at(k))))
    lt = z3.Exists([k], body)
    if strict:
        return lt
    return z3.Or(lt, seq_eq(a, b))


def contains_seq(eng, needle: VSeq, hay: VSeq):
    ln = needle.const_len()
    k = fresh_bound("pos")
    if ln is not None and ln <= 8:
        return z3.Exists([k], z3.And([0 <= k, k + ln <= hay.n] + [hay.at(k + i) == needle.at(z3.IntVal(i)) for i in range(ln)]))
    j = fresh_bound("j")
    return z3.Exists([k], z3.And(0 <= k, k + needle.n <= hay.n,
                                 z3.ForAll([j], z3.Implies(z3.And(0 <= j, j < needle.n), hay.at(k + j) == needle.at(j)))))


def py_eq(eng, a, b, node):
    """z3 Bool for Python `a == b`."""
    a, b = eng.deref(a), eng.deref(b)
    ia, ib = as_int(eng, a), as_int(eng, b)
    if ia is not None and ib is not None:
        return ia == ib
    if isinstance(a, VSet) and isinstance(b, VSet):
        # set equality is extensional: equal characteristic arrays (same element sort), or equal concrete member sets
        if a.members is not None and b.members is not None:
            return z3.BoolVal(a.members == b.members and getattr(a, "str_members", None) == getattr(b, "str_members", None))
        if a.arr is not None and b.arr is not None and a.arr.sort() == b.arr.sort():
            return a.arr == b.arr
        return fresh_bool("seteq")
    if isinstance(a, VNone) or isinstance(b, VNone):
        if isinstance(a, VNone) and isinstance(b, VNone):
            return z3.BoolVal(True)
        o = b if isinstance(a, VNone) else a
        if isinstance(o, VOpaque):
            return isnone_f(o.t)
        return z3.BoolVal(False)
    if isinstance(a, VSeq) and isinstance(b, VSeq):
        fam = lambda s: "b" if s.kind in ("bytes", "bytearray", "memoryview") else s.kind
        if fam(a) != fam(b):
            return z3.BoolVal(False)
        return seq_eq(a, b)
    if isinstance(a, VStr) and isinstance(b, VStr):
        if a.s is not None and b.s is not None:
            return z3.BoolVal(a.s == b.s)
        return a.t == b.t
    if isinstance(a, VTuple) and isinstance(b, VTuple):
        if len(a.items) != len(b.items):
            return z3.BoolVal(False)
        return z3.And([py_eq(eng, x, y, node) for x, y in zip(a.items, b.items)] or [z3.BoolVal(True)])
    if isinstance(a, VChunks) and isinstance(b, VChunks):
        # list[bytes] equality is not determined by the concatenation; unknown unless identical
        return fresh_bool("chunks_eq")
    if isinstance(a, VOpaque) and isinstance(b, VOpaque):
        if z3.eq(a.t, b.t):
            return z3.BoolVal(True)
        return pyeq_f(a.t, b.t)
    if isinstance(a, VOpaque) or isinstance(b, VOpaque):
        o, x = (a, b) if isinstance(a, VOpaque) else (b, a)
        return pyeq_f(o.t, to_val(eng, x))
    if isinstance(a, VClass) and isinstance(b, VClass):
        return z3.BoolVal(a.name == b.name)
    if isinstance(a, VSet) and isinstance(b, VSet) and a.members is not None and b.members is not None:
        return z3.BoolVal(a.members == b.members)
    if type(a) is not type(b):
        return z3.BoolVal(False)
    if isinstance(a, VObj) and isinstance(b, VObj):
        if z3.eq(a.ident, b.ident):
            return z3.BoolVal(True)
        return pyeq_f(a.ident, b.ident)
    raise OutOfSubset(node, f"== on {a!r}, {b!r}")


def compare(eng, op, a, b, node):
    a0, b0 = a, b
    a, b = eng.deref(a), eng.deref(b)
    if isinstance(op, (ast.Is, ast.IsNot)):
        neg = isinstance(op, ast.IsNot)
        if isinstance(a, VNone) or isinstance(b, VNone):
            o = b if isinstance(a, VNone) else a
            if isinstance(o, VNone):
                t = z3.BoolVal(True)
            elif isinstance(o, VOpaque):
                t = isnone_f(o.t)
            else:
                t = z3.BoolVal(False)
        elif isinstance(a, VBool) and isinstance(b, VBool):
            t = a.t == b.t
        elif isinstance(a0, VRef) and isinstance(b0, VRef):
            t = z3.BoolVal(a0.addr == b0.addr)
        elif isinstance(a, VOpaque) and isinstance(b, VOpaque):
            t = a.t == b.t
        elif isinstance(a, VClass) and isinstance(b, VClass):
            t = z3.BoolVal(a.name == b.name)
        elif isinstance(a, VInt) and isinstance(b, VInt):
            t = a.t == b.t
        elif type(a) is not type(b):
            t = z3.BoolVal(False)
        else:
            t = fresh_bool("is")
        return z3.Not(t) if neg else t
    if isinstance(op, ast.Eq):
        return py_eq(eng, a0, b0, node)
    if isinstance(op, ast.NotEq):
        return z3.Not(py_eq(eng, a0, b0, node))
    if isinstance(op, (ast.In, ast.NotIn)):
        t = contains(eng, a0, b0, node)
        return z3.Not(t) if isinstance(op, ast.NotIn) else t
    ia, ib = as_int(eng, a), as_int(eng, b)
    if ia is not None and ib is not None:
        return {ast.Lt: ia < ib, ast.LtE: ia <= ib, ast.Gt: ia > ib, ast.GtE: ia >= ib}[type(op)]
    if isinstance(a, VSeq) and isinstance(b, VSeq):
        if isinstance(op, ast.Lt):
            return seq_lt(a, b)
        if isinstance(op, ast.LtE):
            return seq_lt(a, b, strict=False)
        if isinstance(op, ast.Gt):
            return seq_lt(b, a)
        if isinstance(op, ast.GtE):
            return seq_lt(b, a, strict=False)
    if isinstance(a, VOpaque) or isinstance(b, VOpaque):
        # ordering of untracked values: an uninterpreted, deterministic relation (a TypeError is not modelled);
        # a strict total order only under the contract option total_order
        ta, tb = to_val(eng, a), to_val(eng, b)
        return {ast.Lt: ordlt_f(ta, tb), ast.Gt: ordlt_f(tb, ta), ast.LtE: z3.Not(ordlt_f(tb, ta)), ast.GtE: z3.Not(ordlt_f(ta, tb))}[type(op)]
    raise OutOfSubset(node, f"comparison {type(op).__name__} on {a!r}, {b!r}")


def contains(eng, x, container, node):
    c = eng.deref(container)
    xv = eng.deref(x)
    if isinstance(c, VSet):
        ix = as_int(eng, xv)
        if ix is not None and not (c.arr is not None and c.arr.sort().domain() == Val):
            return c.contains_term(ix)
        if c.arr is not None and c.arr.sort().domain() == Val:
            return c.arr[to_val(eng, xv)]
        if c.members is not None and isinstance(xv, VStr):
            return z3.BoolVal(xv.s in getattr(c, "str_members", ()))
        return fresh_bool("in_set")
    if isinstance(c, VTuple):
        return z3.Or([py_eq(eng, x, y, node) for y in c.items] or [z3.BoolVal(False)])
    if isinstance(c, VSeq):
        ix = as_int(eng, xv)
        if ix is not None and c.esort == "int":
            k = fresh_bound("k")
            cl = c.const_len()
            if cl is not None and cl <= 64:
                return z3.Or([c.at(z3.IntVal(i)) == ix for i in range(cl)] or [z3.BoolVal(False)])
            return z3.Exists([k], z3.And(0 <= k, k < c.n, c.at(k) == ix))
        if isinstance(xv, VSeq):
            return contains_seq(eng, xv, c)
        if c.esort == "val":
            k = fresh_bound("k")
            return z3.Exists([k], z3.And(0 <= k, k < c.n, c.at(k) == to_val(eng, xv)))
    if isinstance(c, VDict):
        key = dict_key(eng, c, xv, node)
        return c.present[key]
    if isinstance(c, VStr) and isinstance(xv, VStr) and c.s is not None and xv.s is not None:
        return z3.BoolVal(xv.s in c.s)
    if isinstance(c, VObj):
        con = C.find_method(c.cls, "__contains__")
        if con is not None:
            r = eng.call_contract(con, [container, x], {}, node, eng.cur_frame)
            return eng.truth(r)
        return fresh_bool("in_obj")
    if isinstance(c, (VOpaque, VChunks, VStr)):
        return fresh_bool("in")
    raise OutOfSubset(node, f"`in` on {c!r}")


def dict_key(eng, d: VDict, k, node):
    k = eng.deref(k)
    if d.ksort == "int":
        i = as_int(eng, k)
        if i is None:
            raise OutOfSubset(node, "non-int key for int-keyed dict")
        return i
    return to_val(eng, k)


def from_sort(eng, d_sort, t):
    if d_sort == "int":
        return VInt(t)
    return VOpaque(t, "dictval")


# ----------------------------------------------------------------------------------------------
# subscripts
# ----------------------------------------------------------------------------------------------
def norm_slice(eng, s: VSeq, lo, hi):
    n = s.n

    def clamp(v, default):
        if v is None or isinstance(eng.deref(v), VNone):
            return default
        t = as_int(eng, v)
        if t is None:
            raise OutOfSubset(None, "non-int slice bound")
        c = const_of(t)
        if c is not None:
            if c >= 0:
                return z3.If(n < c, n, z3.IntVal(c)) if c > 0 else z3.IntVal(0)
            return z3.If(n + c < 0, 0, n + c)
        return z3.If(t < 0, z3.If(t + n < 0, 0, t + n), z3.If(t > n, n, t))

    L = clamp(lo, z3.IntVal(0))
    H = clamp(hi, n)
    ln = z3.If(H > L, H - L, 0)
    return L, ln


def subscript(eng, base, idx, node):
    b = eng.deref(base)
    if isinstance(idx, tuple) and idx and idx[0] == "slice":
        _, lo, hi, st = idx
        if st is not None and not isinstance(st, VNone):
            c = const_of(as_int(eng, st)) if as_int(eng, st) is not None else None
            if c != 1:
                raise OutOfSubset(node, "slice step")
        if isinstance(b, VSeq):
            L, ln = norm_slice(eng, b, lo, hi)
            r = seq_slice_raw(b, L, z3.simplify(ln))
            if getattr(b, "bytelike", False):
                r.bytelike = True
            if isinstance(base, VRef) or b.kind in ("bytearray", "list"):
                return eng.alloc(r)
            return r
        if isinstance(b, VTuple):
            lo_c = None if lo is None or isinstance(lo, VNone) else const_of(as_int(eng, lo))
            hi_c = None if hi is None or isinstance(hi, VNone) else const_of(as_int(eng, hi))
            if (lo is not None and not isinstance(lo, VNone) and lo_c is None) or (hi is not None and not isinstance(hi, VNone) and hi_c is None):
                raise OutOfSubset(node, "symbolic tuple slice")
            return VTuple(b.items[lo_c:hi_c])
        if isinstance(b, VChunks):
            raise OutOfSubset(node, "slice of chunk list")
        if isinstance(b, VOpaque):
            return eng.opaque_call("<slice of opaque>", [], node, havoc_args=False)
        raise OutOfSubset(node, f"slice of {b!r}")
    i = as_int(eng, idx)
    if isinstance(b, VSeq):
        if i is None:
            if eng.spec or not involves_opaque(eng, [idx]):
                raise OutOfSubset(node, "non-int index")
            r = eng.opaque_call("<getitem with untracked index>", [], node, havoc_args=False)
            return VInt(fresh_int("elem")) if b.esort == "int" else r
        c = const_of(i)
        if c is not None and c < 0:
            j = b.n + c
        elif c is not None:
            j = z3.IntVal(c)
        else:
            j = z3.If(i < 0, i + b.n, i)
        if eng.spec:
            # indexing in specifications is mathematical (total, no wrap-around) except for
            # negative literals
            return eng.wrap_elem(b, b.at(j if (c is not None and c < 0) else i))
        if not eng.branch(z3.And(0 <= j, j < b.n)):
            eng.raise_exc("IndexError", node)
        return eng.wrap_elem(b, b.at(j))
    if isinstance(b, VTuple):
        c = const_of(i) if i is not None else None
        if c is None:
            raise OutOfSubset(node, "symbolic tuple index")
        if not (-len(b.items) <= c < len(b.items)):
            eng.raise_exc("IndexError", node)
        return b.items[c]
    if isinstance(b, VDict):
        key = dict_key(eng, b, idx, node)
        if not eng.spec and not eng.branch(b.present[key]):
            eng.raise_exc("KeyError", node)
        return from_sort(eng, b.vsort, b.value[key])
    if isinstance(b, VChunks):
        raise OutOfSubset(node, "index into chunk list")
    if isinstance(b, VOpaque):
        # item number i of an untracked (unmodified) sequence is the ghost elem(seq, i): the same item every time it is
        # read, in code and in specifications; the read itself may still raise
        it = as_int(eng, idx)
        if it is not None:
            if not eng.spec:
                eng.opaque_call("<getitem of opaque>", [], node, havoc_args=False)
            return VOpaque(elem_f(b.t, it), tag="item")
        if eng.spec:
            return VOpaque(tag="item")
        return eng.opaque_call("<getitem of opaque>", [], node, havoc_args=False)
    if isinstance(b, VObj):
        return eng.call_method(base, "__getitem__", [idx], {}, node, eng.cur_frame)
    raise OutOfSubset(node, f"subscript of {b!r}")


def store_subscript(eng, base, idx, v, node):
    if not isinstance(base, VRef):
        if isinstance(base, VOpaque):
            eng.opaque_call("<setitem of opaque>", [v], node)
            return
        raise OutOfSubset(node, f"item assignment on {base!r}")
    b = eng.heap[base.addr]
    if isinstance(idx, tuple) and idx and idx[0] == "slice":
        raise OutOfSubset(node, "slice assignment")
    if isinstance(b, VSeq):
        i = as_int(eng, idx)
        x = as_int(eng, v) if b.esort == "int" else to_val(eng, v)
        if i is None or x is None:
            if not involves_opaque(eng, [idx, v]):
                raise OutOfSubset(node, "sequence item assignment with non-int")
            eng.opaque_call("<setitem with untracked index/value>", [], node, havoc_args=False)
            nb = eng.havoc_like(b, "after_setitem")
            if isinstance(nb, VSeq):
                nb = VSeq(nb.at, b.n, nb.kind, nb.arr, nb.esort, nb.off)     # length is unchanged
            eng.heap[base.addr] = nb
            return
        c = const_of(i)
        j = b.n + c if (c is not None and c < 0) else (z3.IntVal(c) if c is not None else z3.If(i < 0, i + b.n, i))
        if not eng.branch(z3.And(0 <= j, j < b.n)):
            eng.raise_exc("IndexError", node)
        if b.kind == "bytearray":
            if not eng.branch(z3.And(0 <= x, x <= 255)):
                eng.raise_exc("ValueError", node)
        nb = seq_store(b, j, x)
        if getattr(b, "bytelike", False):
            nb.bytelike = True
        eng.heap[base.addr] = nb
        return
    if isinstance(b, VDict):
        key = dict_key(eng, b, idx, node)
        val = as_int(eng, v) if b.vsort == "int" else to_val(eng, v)
        eng.heap[base.addr] = VDict(z3.Store(b.present, key, True), z3.Store(b.value, key, val), b.ksort, b.vsort)
        return
    if isinstance(b, VChunks):
        # comp_chunks[-1] = x : the abstraction cannot express replacing one chunk; havoc
        eng.heap[base.addr] = eng.havoc_like(b, "chunks_setitem")
        return
    if isinstance(b, VObj):
        eng.call_method(base, "__setitem__", [idx, v], {}, node, None)
        return
    raise OutOfSubset(node, f"item assignment on {b!r}")


def del_subscript(eng, base, idx, node):
    if isinstance(base, VRef):
        b = eng.heap[base.addr]
        if isinstance(b, VDict):
            key = dict_key(eng, b, idx, node)
            if not eng.branch(b.present[key]):
                eng.raise_exc("KeyError", node)
            eng.heap[base.addr] = VDict(z3.Store(b.present, key, False), b.value, b.ksort, b.vsort)
            return
        if isinstance(b, VObj):
            eng.call_method(base, "__delitem__", [idx], {}, node, eng.cur_frame)
            return
    if isinstance(base, VOpaque):
        eng.opaque_call("<delitem of opaque>", [], node)
        return
    raise OutOfSubset(node, f"del item on {base!r}")


# ----------------------------------------------------------------------------------------------
# literals, comprehensions
# ----------------------------------------------------------------------------------------------
def make_list(eng, items, node):
    ds = [eng.deref(x) for x in items]
    if ds and all(isinstance(x, (VInt, VBool)) for x in ds):
        r = seq_of_terms([as_int(eng, x) for x in ds], "list")
        return eng.alloc(r)
    if ds and all(isinstance(x, VSeq) and x.kind in ("bytes", "bytearray", "memoryview") for x in ds):
        j = seq_const(b"")
        for x in ds:
            j = seq_concat(j, x, "bytes")
        return eng.alloc(VChunks(j, len(ds)))
    if not ds:
        r = seq_of_terms([], "list")
        r.untyped_empty = True
        return eng.alloc(r)
    r = seq_of_terms([to_val(eng, x) for x in items], "list", esort="val")
    r.pyitems = list(items)
    return eng.alloc(r)


def make_set(eng, items, node):
    ds = [eng.deref(x) for x in items]
    if all(isinstance(x, VInt) and const_of(x.t) is not None for x in ds):
        return VSet(members=frozenset(const_of(x.t) for x in ds))
    # a set of arbitrary values: characteristic array over Val (heap-allocated like set())
    arr = z3.K(Val, z3.BoolVal(False))
    for x in items:
        arr = z3.Store(arr, to_val(eng, x), z3.BoolVal(True))
    return eng.alloc(VSet(arr=arr))


def make_dict(eng, pairs, node):
    if not pairs:
        d = VDict(z3.K(Val, z3.BoolVal(False)), fresh_arr("dv", Val).__class__ and z3.Array(fresh_name("dv"), Val, Val), "val", "val")
        return eng.alloc(d)
    if all(k is not None and as_int(eng, k) is not None and as_int(eng, v) is not None for k, v in pairs):
        # int -> int table (e.g. escape tables): exact
        present = z3.K(z3.IntSort(), z3.BoolVal(False))
        value = z3.Array(fresh_name("dv"), z3.IntSort(), z3.IntSort())
        for k, v in pairs:
            present = z3.Store(present, as_int(eng, k), True)
            value = z3.Store(value, as_int(eng, k), as_int(eng, v))
        return eng.alloc(VDict(present, value, "int", "int"))
    present = z3.K(Val, z3.BoolVal(False))
    value = z3.Array(fresh_name("dv"), Val, Val)
    for k, v in pairs:
        if k is None:
            raise OutOfSubset(node, "dict unpacking")
        kk = to_val(eng, k)
        present = z3.Store(present, kk, True)
        value = z3.Store(value, kk, to_val(eng, v))
    return eng.alloc(VDict(present, value, "val", "val"))


def comprehension(eng, e, frame, kind):
    if len(e.generators) != 1:
        raise OutOfSubset(e, "nested comprehension")
    g = e.generators[0]
    it = eng.deref(eng.eval(g.iter, frame))
    # concrete iteration
    items = None
    if isinstance(it, VTuple):
        items = it.items
    elif isinstance(it, VSeq) and it.const_len() is not None and it.const_len() <= eng.vf.unroll_limit:
        items = [eng.wrap_elem(it, it.at(z3.IntVal(i))) for i in range(it.const_len())]
    if items is not None and kind in ("list", "gen", "set"):
        out = []
        fr = Frame(frame.module, frame.qualname + ".<comp>", parent=frame)
        for x in items:
            eng.assign(g.target, x, fr)
            ok = True
            for c in g.ifs:
                if not eng.branch(eng.truth(eng.eval(c, fr))):
                    ok = False
                    break
            if ok:
                out.append(eng.eval(e.elt, fr))
        if kind == "set":
            return make_set(eng, out, e)
        lst = make_list(eng, out, e)
        return lst
    if eng.spec:
        raise OutOfSubset(e, "comprehension in spec")
    # unknown-length comprehension: evaluate the element once on an arbitrary item for effects
    return eng.opaque_call("<comprehension>", [], e)


def fstring(eng, e, frame):
    for v in e.values:
        if isinstance(v, ast.FormattedValue):
            # formatting calls repr/str/format of the value: no effect on modelled state
            try:
                eng.eval(v.value, frame)
            except OutOfSubset:
                pass
    s = VStr()
    s.fnode = e
    s.fframe = frame
    return s


# ----------------------------------------------------------------------------------------------
# attribute access on non-object values
# ----------------------------------------------------------------------------------------------
def get_attr(eng, base, b, attr, node):
    if isinstance(b, VOpaque):
        if attr in ("__class__",):
            return VOpaque(tag="class")
        v = VOpaque(tag=f"{b.tag}.{attr}", t=z3.Function(f"attr_{attr}", Val, Val)(b.t))
        v.maybe_method = (base, attr)
        return v
    return None


def on_set_attr(eng, base, attr, v, node):
    pass


# ----------------------------------------------------------------------------------------------
# list / bytearray mutation helpers
# ----------------------------------------------------------------------------------------------
def list_append(eng, ref, v, node):
    if not isinstance(ref, VRef):
        if isinstance(ref, VOpaque):
            eng.opaque_call("<append on opaque>", [v], node)
            return NONE
        raise OutOfSubset(node, f"append on {ref!r}")
    cur = eng.heap[ref.addr]
    vd = eng.deref(v)
    chunk_origin_check(eng, cur, vd, node)
    if isinstance(cur, VChunks):
        if isinstance(vd, VSeq):
            eng.heap[ref.addr] = VChunks(seq_concat(cur.join, vd, "bytes"), cur.count + 1)
            return NONE
        if isinstance(vd, VOpaque):
            eng.heap[ref.addr] = eng.havoc_like(cur, "chunks")
            return NONE
        raise OutOfSubset(node, f"append {vd!r} to chunk list")
    if isinstance(cur, VSeq):
        if getattr(cur, "untyped_empty", False) and isinstance(vd, VSeq) and vd.kind in ("bytes", "bytearray", "memoryview"):
            eng.heap[ref.addr] = VChunks(seq_concat(seq_const(b""), vd, "bytes"), 1)
            return NONE
        if getattr(cur, "untyped_empty", False) and not isinstance(vd, (VInt, VBool)):
            r = seq_of_terms([to_val(eng, v)], "list", esort="val")
            eng.heap[ref.addr] = r
            return NONE
        if cur.esort == "int":
            x = as_int(eng, vd)
            if x is None:
                raise OutOfSubset(node, f"append {vd!r} to int sequence")
            if cur.kind == "bytearray":
                if not eng.branch(z3.And(0 <= x, x <= 255)):
                    eng.raise_exc("ValueError", node)
            nb = seq_append(cur, x)
            if getattr(cur, "bytelike", False):
                nb.bytelike = True
            eng.heap[ref.addr] = nb
            return NONE
        eng.heap[ref.addr] = seq_append(cur, to_val(eng, v))
        return NONE
    raise OutOfSubset(node, f"append on {cur!r}")


def chunk_origin_check(eng, cur, vd, node):
    """Provenance obligation (contract option `chunk_origins`): every byte string appended to a
    list of chunks in this function is a slice of one of the named parameters."""
    con = getattr(eng.vf, "current", None)
    if con is None or "chunk_origins" not in con.options or eng.call_depth > 0:
        return
    if not (isinstance(cur, VChunks) or (isinstance(cur, VSeq) and getattr(cur, "untyped_empty", False))):
        return
    if not isinstance(vd, VSeq):
        return
    allowed = set()
    for pname in con.options["chunk_origins"]:
        pv = eng.inputs.get(pname)
        pv = eng.heap_at_entry.get(pv.addr) if isinstance(pv, VRef) else pv
        if isinstance(pv, VChunks):
            pv = pv.join
        if isinstance(pv, VSeq) and pv.origin is not None:
            allowed.add(pv.origin)
    ok = vd.origin is not None and vd.origin in allowed
    rel = getattr(node, "lineno", 0)
    eng.prove(f"{con.oid_prefix}:chunk-origin", ok, "provenance", node,
              detail=f"appended chunk is a slice of one of {con.options['chunk_origins']}")


def seq_extend(eng, ref, v, node):
    cur = eng.heap[ref.addr]
    vd = eng.deref(v)
    if isinstance(cur, VSeq) and isinstance(vd, VSeq) and cur.esort == vd.esort:
        if getattr(cur, "untyped_empty", False) and False:
            pass
        nb = seq_concat(cur, vd, cur.kind)
        if getattr(cur, "bytelike", False):
            nb.bytelike = True
        eng.heap[ref.addr] = nb
        return NONE
    if isinstance(cur, VSeq) and getattr(cur, "untyped_empty", False) and isinstance(vd, VChunks):
        eng.heap[ref.addr] = VChunks(vd.join, vd.count)
        return NONE
    if isinstance(cur, VChunks) and isinstance(vd, VChunks):
        eng.heap[ref.addr] = VChunks(seq_concat(cur.join, vd.join, "bytes"), cur.count + vd.count)
        return NONE
    if isinstance(vd, VOpaque):
        eng.heap[ref.addr] = eng.havoc_like(cur, "extended")
        return NONE
    raise OutOfSubset(node, f"extend {cur!r} with {vd!r}")


def opaque_iter_item(eng, it, node):
    itd = eng.deref(it)
    if getattr(itd, "item_type", None):
        item = eng.make(itd.item_type, "item")
        env = dict(itd.item_env)
        env["item"] = item
        for ex in itd.item_ensures:
            eng.assume(eng.eval_spec_bool(ex, itd.item_frame, extra=env))
        return item
    if isinstance(itd, VChunks):
        arr = fresh_arr("chunk")
        n = fresh_int("chunk_len")
        eng.assume(z3.And(n >= 0, n <= itd.join.n))
        eng.byte_facts(arr)
        return seq_from_array(arr, n, "bytes")
    if isinstance(itd, VSet) and itd.arr is not None and itd.arr.sort().domain() == Val:
        # an element yielded by iterating a set is a member of that set at that moment
        item = VOpaque(tag="item")
        eng.assume(itd.arr[item.t])
        return item
    return VOpaque(tag="item")


# ----------------------------------------------------------------------------------------------
# context managers
# ----------------------------------------------------------------------------------------------
def ctx_enter(eng, mgr, node, frame):
    m = eng.deref(mgr)
    if isinstance(m, VSeq):          # memoryview(...)
        return mgr
    if isinstance(m, VObj):
        con = C.find_method(m.cls, "__enter__")
        if con is not None:
            return eng.call_contract(con, [mgr], {}, node, frame)
        return mgr
    if isinstance(m, VOpaque):
        return eng.opaque_call("<__enter__>", [], node, havoc_args=False)
    raise OutOfSubset(node, f"with over {m!r}")


def ctx_exit(eng, mgr, exc, node, frame):
    """Returns True when the exception is suppressed."""
    m = eng.deref(mgr)
    if isinstance(m, VSeq):
        return False
    if isinstance(m, VObj) and m.cls == "suppress":
        if exc is None:
            return False
        if exc.cls is not None:
            return any(eng.exc_is_subclass(exc.cls, c) for c in m.classes)
        ub = exc.any_of or "BaseException"
        if any(eng.exc_is_subclass(ub, c) for c in m.classes):
            return True
        if not any(eng.exc_is_subclass(c, ub) for c in m.classes):
            return False
        return eng.branch(fresh_bool("suppressed"), free=True)
    if isinstance(m, VObj):
        con = C.find_method(m.cls, "__exit__")
        if con is not None:
            if exc is None:
                args = [mgr, NONE, NONE, NONE]
            else:
                args = [mgr, VOpaque(tag="exc_type"), VOpaque(tag="exc_val"), VOpaque(tag="tb")]
                for a in args[1:]:
                    eng.assume(z3.Not(isnone_f(a.t)))
            r = eng.call_contract(con, args, {}, node, frame)
            return False
        return False
    if isinstance(m, VOpaque):
        eng.opaque_call("<__exit__>", [], node, havoc_args=False)
        return False
    return False


# ----------------------------------------------------------------------------------------------
# builtins and stdlib
# ----------------------------------------------------------------------------------------------
MODELS = {}


def model(*names):
    def deco(fn):
        for n in names:
            MODELS[n] = fn
        return fn
    return deco


def has_model(name):
    return name in MODELS


def call_model(eng, f, args, kwargs, node, frame):
    fn = MODELS.get(f.name)
    if fn is None:
        # spec functions are callable from code position too when contracts inline ghost calls
        if f.name in eng.vf.specs:
            return eng.vf.specs[f.name].sym(eng, *args, **kwargs)
        tcon = stdlib_contract(eng, f.name)
        if tcon is not None:
            return eng.call_contract(tcon, args, kwargs, node, frame)
        if eng.spec:
            raise OutOfSubset(node, f"unknown function {f.name} in spec")
        return eng.opaque_call(f.name, args + list(kwargs.values()), node)
    try:
        return fn(eng, args, kwargs, node, frame)
    except (OutOfSubset, TypeError, AttributeError, z3.Z3Exception) as ex:
        if eng.spec or not involves_opaque(eng, args + list(kwargs.values())):
            raise
        # a modelled builtin applied to values the engine does not track: over-approximate
        return eng.opaque_call(f"{f.name}(untracked)", args + list(kwargs.values()), node)


def involves_opaque(eng, vals, depth=0):
    for v in vals:
        d = eng.deref(v) if isinstance(v, VRef) else v
        if isinstance(d, VOpaque) or (isinstance(d, VSeq) and d.esort == "val") or isinstance(d, (VStr, VObj, VDict, VFunc, VClass)):
            return True
        if isinstance(d, VTuple) and depth < 3 and involves_opaque(eng, d.items, depth + 1):
            return True
    return False


def stdlib_contract(eng, name):
    """Trusted contract of a stdlib primitive; the function under verification may select a
    discipline-specific variant through options["primitives"] = {name: variant}."""
    cur = getattr(eng.vf, "current", None)
    if cur is not None:
        var = cur.options.get("primitives", {}).get(name)
        if var is not None:
            return C.lookup("<stdlib>", var)
    return C.lookup("<stdlib>", name)


def call_abstract(eng, f, args, kwargs, node, frame):
    con = C.lookup("<abstract>", f.name)
    if con is None:
        return eng.opaque_call(f"abstract:{f.name}", args, node)
    return eng.call_contract(con, args, kwargs, node, frame)


@model("len")
def m_len(eng, args, kwargs, node, frame):
    v = eng.deref(args[0])
    if isinstance(v, VSeq):
        return VInt(v.n)
    if isinstance(v, VTuple):
        return VInt(len(v.items))
    if isinstance(v, VChunks):
        return VInt(v.count)
    if isinstance(v, VStr) and v.s is not None:
        return VInt(len(v.s))
    if isinstance(v, VSet) and v.members is not None:
        return VInt(len(v.members))
    if isinstance(v, VObj):
        con = C.find_method(v.cls, "__len__")
        if con is not None:
            return eng.call_contract(con, [args[0]], {}, node, frame)
    if isinstance(v, (VOpaque, VStr, VDict, VSet, VObj)):
        r = fresh_int("len")
        eng.assume(r >= 0)
        if isinstance(v, VOpaque):
            r2 = len_of_f(v.t)
            eng.assume(r2 >= 0)
            return VInt(r2)
        return VInt(r)
    raise OutOfSubset(node, f"len of {v!r}")


@model("ord")
def m_ord(eng, args, kwargs, node, frame):
    v = eng.deref(args[0])
    if isinstance(v, VSeq):
        if not eng.spec and not eng.branch(v.n == 1):
            eng.raise_exc("TypeError", node)
        return VInt(v.at(z3.IntVal(0)))
    if isinstance(v, VStr) and v.s is not None and len(v.s) == 1:
        return VInt(ord(v.s))
    raise OutOfSubset(node, f"ord of {v!r}")


@model("chr")
def m_chr(eng, args, kwargs, node, frame):
    return VStr()


@model("abs")
def m_abs(eng, args, kwargs, node, frame):
    t = as_int(eng, args[0])
    if t is None:
        raise OutOfSubset(node, "abs of non-int")
    return VInt(z3.If(t >= 0, t, -t))


@model("min", "max")
def m_minmax(eng, args, kwargs, node, frame):
    is_min = node.func.id == "min" if isinstance(node.func, ast.Name) else True
    if len(args) == 1:
        v = eng.deref(args[0])
        if isinstance(v, VTuple):
            args = v.items
        else:
            raise OutOfSubset(node, "min/max of iterable")
    ts = [as_int(eng, a) for a in args]
    if any(t is None for t in ts) or kwargs:
        raise OutOfSubset(node, "min/max of non-ints")
    r = ts[0]
    for t in ts[1:]:
        r = z3.If(t < r, t, r) if is_min else z3.If(t > r, t, r)
    return VInt(r)


@model("bool")
def m_bool(eng, args, kwargs, node, frame):
    if not args:
        return VBool(False)
    return VBool(eng.truth(args[0]))


@model("int")
def m_int(eng, args, kwargs, node, frame):
    if not args:
        return VInt(0)
    v = eng.deref(args[0])
    if len(args) == 1 and not kwargs:
        if isinstance(v, (VInt, VBool)):
            return VInt(as_int(eng, v))
        if isinstance(v, VOpaque):
            if eng.spec:
                return VInt(fresh_int("int"))
            if eng.branch(fresh_bool("int_raises")):
                raise PyExc(None, site=node.lineno, any_of="Exception")
            return VInt(fresh_int("int"))
    base = args[1] if len(args) > 1 else kwargs.get("base")
    if isinstance(v, VSeq):
        b = const_of(as_int(eng, base)) if base is not None else 10
        if b == 16:
            return int_base16(eng, v, node)
        name = f"int_base{b}"
        if name in eng.vf.specs:
            return eng.vf.specs[name].sym(eng, v, node=node)
    raise OutOfSubset(node, f"int() of {v!r}")


@model("bytes")
def m_bytes(eng, args, kwargs, node, frame):
    if not args:
        return seq_const(b"")
    v = eng.deref(args[0])
    if isinstance(v, VTuple) and all(as_int(eng, x) is not None for x in v.items):
        v = seq_of_terms([as_int(eng, x) for x in v.items], "tuple")
    if isinstance(v, VSeq):
        if v.kind in ("list", "tuple") and not eng.spec:
            # bytes([..]) raises ValueError for elements outside 0..255
            cl = v.const_len()
            if cl is not None and cl <= 16:
                ok = z3.And([z3.And(0 <= v.at(z3.IntVal(i)), v.at(z3.IntVal(i)) <= 255) for i in range(cl)] or [z3.BoolVal(True)])
            elif getattr(v, "bytelike", False):
                ok = z3.BoolVal(True)
            else:
                k = fresh_bound("k")
                ok = z3.ForAll([k], z3.Implies(z3.And(0 <= k, k < v.n), z3.And(0 <= v.at(k), v.at(k) <= 255)))
            if not eng.branch(ok):
                eng.raise_exc("ValueError", node)
        r = VSeq(v.at, v.n, "bytes", v.arr, v.esort, v.off)
        r.origin = v.origin
        if getattr(v, "parts", None):
            r.parts = v.parts
        return r
    if isinstance(v, VInt):
        n = z3.If(v.t > 0, v.t, 0)
        if not eng.spec and eng.branch(v.t < 0):
            eng.raise_exc("ValueError", node)
        return VSeq(lambda k: z3.IntVal(0), v.t, "bytes")
    if isinstance(v, VChunks):
        raise OutOfSubset(node, "bytes(list of bytes)")
    if isinstance(v, VOpaque):
        return eng.opaque_call("bytes()", [], node, havoc_args=False)
    raise OutOfSubset(node, f"bytes({v!r})")


@model("bytearray")
def m_bytearray(eng, args, kwargs, node, frame):
    r = m_bytes(eng, args, kwargs, node, frame)
    r = eng.deref(r)
    if isinstance(r, VSeq):
        nr = VSeq(r.at, r.n, "bytearray", r.arr, r.esort, r.off)
        if getattr(r, "parts", None):
            nr.parts = r.parts          # a copy of a concatenation still agrees with the pieces (shift/extensionality lemmas)
        return eng.alloc(nr)
    return r


@model("memoryview")
def m_memoryview(eng, args, kwargs, node, frame):
    v = eng.deref(args[0])
    if isinstance(v, VSeq):
        r = VSeq(v.at, v.n, "memoryview", v.arr, v.esort, v.off)
        r.origin = v.origin
        return r
    if isinstance(v, VOpaque):
        return eng.opaque_call("memoryview()", [], node, havoc_args=False)
    raise OutOfSubset(node, f"memoryview({v!r})")


@model("list")
def m_list(eng, args, kwargs, node, frame):
    if not args:
        return make_list(eng, [], node)
    v = eng.deref(args[0])
    if isinstance(v, VSeq):
        r = VSeq(v.at, v.n, "list", v.arr, v.esort, v.off)
        if v.kind in ("bytes", "bytearray", "memoryview") or getattr(v, "bytelike", False):
            r.bytelike = True
        return eng.alloc(r)
    if isinstance(v, VChunks):
        return eng.alloc(VChunks(v.join, v.count))
    if isinstance(v, VTuple):
        return make_list(eng, v.items, node)
    if isinstance(v, (VOpaque, VDict, VSet)):
        r = eng.opaque_call("list()", [], node, havoc_args=False)
        return r
    raise OutOfSubset(node, f"list({v!r})")


@model("tuple")
def m_tuple(eng, args, kwargs, node, frame):
    if not args:
        return VTuple([])
    v = eng.deref(args[0])
    if isinstance(v, VTuple):
        return v
    if isinstance(v, VSeq):
        cl = v.const_len()
        if cl is not None and cl <= 32:
            return VTuple([eng.wrap_elem(v, v.at(z3.IntVal(i))) for i in range(cl)])
        return VSeq(v.at, v.n, "tuple", v.arr, v.esort, v.off)
    if isinstance(v, VOpaque):
        return eng.opaque_call("tuple()", [], node, havoc_args=False)
    raise OutOfSubset(node, f"tuple({v!r})")


@model("frozenset", "set")
def m_frozenset(eng, args, kwargs, node, frame):
    if not args:
        fname = node.func.id if isinstance(getattr(node, "func", None), ast.Name) else ""
        if fname == "set" and not eng.spec:
            # a fresh mutable set of arbitrary values: characteristic array over Val, on the heap
            return eng.alloc(VSet(arr=z3.K(Val, z3.BoolVal(False))))
        return VSet(members=frozenset())
    v = eng.deref(args[0])
    if isinstance(v, VSeq) and hasattr(v, "items"):
        return VSet(members=frozenset(v.items))
    if isinstance(v, VSet):
        return v
    if isinstance(v, VTuple) and all(isinstance(x, VInt) and const_of(x.t) is not None for x in v.items):
        return VSet(members=frozenset(const_of(x.t) for x in v.items))
    if isinstance(v, VTuple) and all(isinstance(x, VStr) and x.s is not None for x in v.items):
        s = VSet(members=frozenset())
        s.str_members = frozenset(x.s for x in v.items)
        return s
    if isinstance(v, VSeq) and v.esort == "int":
        # set of the elements of a symbolic sequence
        arr = z3.Array(fresh_name("setof"), z3.IntSort(), z3.BoolSort())
        x = fresh_bound("x")
        k = fresh_bound("k")
        eng.assume(z3.ForAll([x], arr[x] == z3.Exists([k], z3.And(0 <= k, k < v.n, v.at(k) == x))))
        return VSet(arr=arr)
    fname = node.func.id if isinstance(getattr(node, "func", None), ast.Name) else ""
    if fname == "set" and not eng.spec and isinstance(v, VOpaque):
        # set(<untracked iterable>): a fresh mutable set with unknown members (may raise like any call on an untracked value)
        eng.opaque_call("set()", [], node, havoc_args=False)
        return eng.alloc(VSet(arr=z3.Array(fresh_name("setof"), Val, z3.BoolSort())))
    return eng.opaque_call("set()", [], node, havoc_args=False)


@model("dict")
def m_dict(eng, args, kwargs, node, frame):
    if not args and not kwargs:
        return make_dict(eng, [], node)
    return eng.opaque_call("dict()", [], node, havoc_args=False)


@model("range")
def m_range(eng, args, kwargs, node, frame):
    ts = [as_int(eng, a) for a in args]
    if any(t is None for t in ts):
        raise OutOfSubset(node, "range of non-int")
    if len(ts) == 1:
        lo, hi, st = z3.IntVal(0), ts[0], z3.IntVal(1)
    elif len(ts) == 2:
        lo, hi, st = ts[0], ts[1], z3.IntVal(1)
    else:
        lo, hi, st = ts
    r = VOpaque(tag="range")
    r.range = (lo, hi, st)
    return r


@model("isinstance")
def m_isinstance(eng, args, kwargs, node, frame):
    v = eng.deref(args[0])
    cls = args[1]
    names = [c.name for c in (cls.items if isinstance(cls, VTuple) else [cls]) if isinstance(c, VClass)]
    if isinstance(cls, VTuple) and len(names) != len(cls.items) or (not isinstance(cls, VTuple) and not names):
        return VBool(fresh_bool("isinstance"))
    pt = v.pytype()
    if isinstance(v, VOpaque):
        f = z3.Function("isinstance_" + "_".join(sorted(names)), Val, z3.BoolSort())
        return VBool(f(v.t))
    if isinstance(v, VObj):
        return VBool(any(eng.vf.hierarchy.is_subclass(v.cls, n) for n in names))
    table = {
        "int": {"int", "object"}, "bool": {"bool", "int", "object"}, "bytes": {"bytes", "object", "Sequence"},
        "bytearray": {"bytearray", "object"}, "list": {"list", "object", "Sequence"}, "tuple": {"tuple", "object", "Sequence"},
        "NoneType": {"NoneType", "object"}, "str": {"str", "object"}, "memoryview": {"memoryview", "object"},
        "dict": {"dict", "object"}, "set": {"set", "frozenset", "object"},
    }
    return VBool(bool(table.get(pt, {"object"}) & set(names)))


@model("callable")
def m_callable(eng, args, kwargs, node, frame):
    v = eng.deref(args[0])
    if isinstance(v, (VFunc, VClass)):
        return VBool(True)
    if isinstance(v, VOpaque):
        return VBool(fresh_bool("callable"))
    return VBool(False)


@model("getattr")
def m_getattr(eng, args, kwargs, node, frame):
    if isinstance(args[1], VStr) and args[1].s is not None:
        base = args[0]
        if isinstance(base, VModule):
            from .engine import STDLIB_CONSTS
            dotted = f"{base.name}.{args[1].s}"
            if dotted in STDLIB_CONSTS:
                return VInt(STDLIB_CONSTS[dotted])
            import importlib
            try:
                real = importlib.import_module(base.name)
                if hasattr(real, args[1].s):
                    return VFunc("model", name=dotted)
                if len(args) > 2:
                    return args[2]        # attribute absent on this platform (e.g. os.O_BINARY)
            except Exception:
                pass
        b = eng.deref(base)
        if isinstance(b, VObj):
            if args[1].s in b.fields:
                return b.fields[args[1].s]
            if len(args) > 2:
                cs = C.CLASS_SPECS.get(b.cls)
                if cs and args[1].s in cs.fields:
                    return eng.get_attr(base, args[1].s, node, frame)
                # attribute may be missing
                if eng.branch(fresh_bool("hasattr")):
                    return eng.get_attr(base, args[1].s, node, frame)
                return args[2]
        if len(args) == 2:
            return eng.get_attr(base, args[1].s, node, frame)
        if isinstance(b, VOpaque):
            if eng.branch(fresh_bool("hasattr")):
                return eng.get_attr(base, args[1].s, node, frame)
            return args[2]
    return eng.opaque_call("getattr", [], node, havoc_args=False)


@model("hasattr")
def m_hasattr(eng, args, kwargs, node, frame):
    return VBool(fresh_bool("hasattr"))


@model("repr", "str", "format", "hex", "oct")
def m_str(eng, args, kwargs, node, frame):
    if args and isinstance(args[0], VStr):
        return args[0]
    return VStr()


@model("print", "id", "hash")
def m_noop(eng, args, kwargs, node, frame):
    return VOpaque(tag="noop")


@model("sum")
def m_sum(eng, args, kwargs, node, frame):
    v = eng.deref(args[0])
    if isinstance(v, VSeq) and v.const_len() is not None and v.esort == "int":
        return VInt(z3.Sum([v.at(z3.IntVal(i)) for i in range(v.const_len())] or [z3.IntVal(0)]))
    if isinstance(v, VSeq) and getattr(v, "lens_of", None) is not None:
        return VInt(v.lens_of.join.n)
    r = eng.opaque_call("sum()", [], node, havoc_args=False)
    return VInt(fresh_int("sum"))


@model("map")
def m_map(eng, args, kwargs, node, frame):
    f = args[0]
    v = eng.deref(args[1]) if len(args) > 1 else None
    if isinstance(f, VFunc) and f.kind == "model" and f.name == "len" and isinstance(v, VChunks):
        r = VSeq(lambda k: fresh_int("chunklen"), v.count, "list")
        r.lens_of = v
        return r
    return eng.opaque_call("map()", [], node, havoc_args=False)


@model("enumerate", "zip", "reversed", "iter", "sorted", "filter")
def m_iterators(eng, args, kwargs, node, frame):
    name = node.func.id if isinstance(node.func, ast.Name) else "iter"
    if name == "enumerate" and len(args) == 1 and not kwargs:
        v = eng.deref(args[0])
        if isinstance(v, VSeq):
            r = VOpaque(tag="enumerate")
            r.enum_of = v
            return r
    sp = eng.vf.specs.get(f"py_{name}")
    if sp is not None:
        return sp.sym(eng, *args, node=node, **kwargs)
    r = eng.opaque_call(f"{name}()", [], node, havoc_args=False)
    return r


@model("next")
def m_next(eng, args, kwargs, node, frame):
    if eng.branch(fresh_bool("next_stop")):
        if len(args) > 1:
            return args[1]
        eng.raise_exc("StopIteration", node)
    return VOpaque(tag="next")


@model("divmod")
def m_divmod(eng, args, kwargs, node, frame):
    q = binop(eng, ast.FloorDiv(), args[0], args[1], node)
    r = binop(eng, ast.Mod(), args[0], args[1], node)
    return VTuple([q, r])


@model("type")
def m_type(eng, args, kwargs, node, frame):
    v = eng.deref(args[0])
    if isinstance(v, VObj):
        return VClass(v.cls)
    return VOpaque(tag="type")


@model("super")
def m_super(eng, args, kwargs, node, frame):
    cur = getattr(eng.vf, "current", None)
    cls = cur.options.get("super_obj") if cur is not None else None
    if cls and not args:
        # contract option super_obj: super() is an abstract object whose methods carry contracts (the parent class's view)
        return eng.make(f"obj:{cls}", "super")
    return VOpaque(tag="super")


@model("any", "all")
def m_anyall(eng, args, kwargs, node, frame):
    v = eng.deref(args[0])
    name = node.func.id
    if isinstance(v, VRef):
        v = eng.deref(v)
    if isinstance(v, VSeq) and hasattr(v, "pyitems"):
        ts = [eng.truth(x) for x in v.pyitems]
        return VBool(z3.Or(ts) if name == "any" else z3.And(ts))
    if isinstance(v, VSeq) and v.const_len() is not None and v.esort == "int":
        ts = [v.at(z3.IntVal(i)) != 0 for i in range(v.const_len())]
        return VBool((z3.Or(ts) if name == "any" else z3.And(ts)) if ts else z3.BoolVal(name == "all"))
    return VBool(fresh_bool(name))


# ---- chunks helpers from dulwich
@model("dulwich.pack.chunks_length", "chunks_length")
def m_chunks_length(eng, args, kwargs, node, frame):
    v = eng.deref(args[0])
    if isinstance(v, VChunks):
        return VInt(v.join.n)
    if isinstance(v, VSeq) and v.kind in ("bytes", "bytearray"):
        return VInt(v.n)
    if isinstance(v, VSeq) and getattr(v, "untyped_empty", False):
        return VInt(0)
    raise OutOfSubset(node, f"chunks_length of {v!r}")


# ----------------------------------------------------------------------------------------------
# construction of class instances
# ----------------------------------------------------------------------------------------------
def construct(eng, cls: VClass, args, kwargs, node, frame):
    cur0 = getattr(eng.vf, "current", None)
    if cur0 is not None and eng.call_depth == 0 and not eng.spec:
        ov = cur0.options.get("callee_contracts", {}).get(cls.name)
        if ov is not None:
            # construction replaced by an (abstract, trusted) contract: arguments are not bound to parameters
            return eng.call_contract(C.lookup(*ov), [], {}, node, frame)
    if cls.name in MODELS:
        return call_model(eng, VFunc("model", name=cls.name), args, kwargs, node, frame)
    if eng.vf.hierarchy.is_subclass(cls.name, "BaseException"):
        v = VOpaque(tag=f"exc:{cls.name}")
        v.exc = PyExc(cls.name, site=getattr(node, "lineno", None))
        return v
    con = C.lookup(cls.module, f"{cls.name}.__init__") if cls.module else None
    if con is None:
        con = C.find_method(cls.name, "__init__")
    if con is not None:
        o = VObj(cls.name)
        cs = C.CLASS_SPECS.get(cls.name)
        if cs:
            for f, ex in cs.init.items():
                o.fields[f] = eng.eval_spec(ex, frame)
        obj = eng.alloc(o)
        eng.call_contract(con, [obj] + args, kwargs, node, frame)
        return obj
    cs0 = C.CLASS_SPECS.get(cls.name)
    if cs0 is not None and getattr(cs0, "constructible", False):
        # tracked record class whose constructor is not under contract: fields start as declared
        o = VObj(cls.name)
        for f, ex in cs0.init.items():
            o.fields[f] = eng.eval_spec(ex, frame)
        obj = eng.alloc(o)
        if not eng.spec and eng.branch(fresh_bool("ctor_raises"), free=True):
            raise PyExc(None, site=getattr(node, "lineno", None), any_of=eng.fault_bound())
        return obj
    dotted = f"{cls.module}.{cls.name}" if cls.module and not str(cls.module).endswith(".py") else cls.name
    tcon = C.lookup("<stdlib>", dotted)
    if tcon is not None:
        return eng.call_contract(tcon, args, kwargs, node, frame)
    if dotted in MODELS:
        return MODELS[dotted](eng, args, kwargs, node, frame)
    if eng.spec:
        raise OutOfSubset(node, f"construction of {cls.name} in spec")
    return eng.opaque_call(f"{cls.name}()", args + list(kwargs.values()), node)


# ----------------------------------------------------------------------------------------------
# methods
# ----------------------------------------------------------------------------------------------
def opaque_method(eng, recv, r, name, args, kwargs, node):
    """Method of a tracked object without contract: havoc the object, may raise."""
    what = f"{r.cls}.{name}"
    eng.opaque_calls.add(what)
    cs = C.CLASS_SPECS.get(r.cls)
    if cs and cs.stable and isinstance(recv, VRef):
        # typestate class: a method without contract keeps the stable fields, provided its
        # definition (if the class has one) neither assigns them nor calls a mutator
        loc = eng.vf.find_method_def(r.cls, name)
        if loc is not None:
            mod, fn, owner = loc
            for n in ast.walk(fn):
                bad = None
                if isinstance(n, ast.Attribute) and isinstance(n.ctx, ast.Store) and isinstance(n.value, ast.Name) and n.value.id == "self" and n.attr in cs.stable:
                    bad = f"assigns self.{n.attr}"
                if isinstance(n, ast.Call) and isinstance(n.func, ast.Attribute) and n.func.attr in cs.mutators:
                    bad = f"calls .{n.func.attr}()"
                if bad:
                    raise OutOfSubset(node, f"uncontracted-mutator: {r.cls}.{name} {bad}; it needs a contract")
        nf = {f: (x if (f in cs.stable or isinstance(x, VRef)) else eng.havoc_like(x, f"{name}.{f}")) for f, x in r.fields.items()}
        eng.heap[recv.addr] = VObj(r.cls, nf, r.ident)
    elif isinstance(recv, VRef):
        eng.heap[recv.addr] = eng.havoc_like(r, f"self_after_{name}")
    for a in args:
        eng.havoc_reachable(a)
    if not eng.faults_pruned() and eng.branch(fresh_bool("opaque_raises"), free=True):
        raise PyExc(None, site=getattr(node, "lineno", None), any_of=eng.fault_bound())
    return VOpaque(tag=f"ret:{what}")


def call_method(eng, recv, r, name, args, kwargs, node, frame):
    key = (type(r).__name__, name)
    if isinstance(r, VSeq):
        fn = SEQ_METHODS.get(name)
        if fn is not None:
            try:
                return fn(eng, recv, r, args, kwargs, node)
            except (OutOfSubset, TypeError, AttributeError, z3.Z3Exception):
                if eng.spec or not (involves_opaque(eng, args + list(kwargs.values())) or r.esort == "val"):
                    raise
                if isinstance(recv, VRef):
                    eng.heap[recv.addr] = eng.havoc_like(r, "after_" + name)
                return eng.opaque_call(f"{r.kind}.{name}(untracked)", args, node)
        if r.esort == "val" or involves_opaque(eng, args):
            if isinstance(recv, VRef):
                eng.heap[recv.addr] = eng.havoc_like(r, "after_" + name)
            return eng.opaque_call(f"{r.kind}.{name}(untracked)", args, node)
        raise OutOfSubset(node, f"method {r.kind}.{name}")
    if isinstance(r, VChunks):
        if name == "append":
            return list_append(eng, recv, args[0], node)
        if name == "extend":
            return seq_extend(eng, recv, args[0], node)
        raise OutOfSubset(node, f"method list[bytes].{name}")
    if isinstance(r, VSet):
        if name == "issuperset":
            o = eng.deref(args[0])
            if isinstance(o, VSeq) and o.esort == "int":
                cl = o.const_len()
                if cl is not None and cl <= 16:
                    return VBool(z3.And([r.contains_term(o.at(z3.IntVal(i))) for i in range(cl)] or [z3.BoolVal(True)]))
                k = fresh_bound("k")
                return VBool(z3.ForAll([k], z3.Implies(z3.And(0 <= k, k < o.n), r.contains_term(o.at(k)))))
        if name in ("add", "discard") and isinstance(recv, VRef) and r.arr is not None and r.arr.sort().domain() == Val:
            eng.heap[recv.addr] = VSet(arr=z3.Store(r.arr, to_val(eng, args[0]), z3.BoolVal(name == "add")))
            return NONE
        if r.arr is not None and r.arr.sort().domain() == Val:
            # a set of untracked values: the remaining methods are not modelled precisely
            if name in ("issubset", "issuperset", "isdisjoint"):
                o = eng.deref(args[0])
                if isinstance(o, VSet) and o.arr is not None and o.arr.sort() == r.arr.sort():
                    x = fresh_bound("x")
                    xv = z3.Const(str(x), Val)
                    if name == "issubset":
                        return VBool(z3.ForAll([xv], z3.Implies(r.arr[xv], o.arr[xv])))
                    if name == "issuperset":
                        return VBool(z3.ForAll([xv], z3.Implies(o.arr[xv], r.arr[xv])))
                    return VBool(z3.ForAll([xv], z3.Not(z3.And(o.arr[xv], r.arr[xv]))))
                return VBool(fresh_bool("set_" + name))
            if name in ("remove", "pop", "clear", "update", "difference_update", "intersection_update", "symmetric_difference_update") and isinstance(recv, VRef):
                # mutators: membership afterwards unknown (remove / pop may raise KeyError)
                eng.heap[recv.addr] = VSet(arr=z3.Array(fresh_name("setof"), Val, z3.BoolSort()))
                return eng.opaque_call(f"set.{name}(untracked)", [], node, havoc_args=False)
            if name in ("union", "intersection", "difference", "symmetric_difference", "copy"):
                if name == "copy":
                    return eng.alloc(VSet(arr=r.arr))
                eng.opaque_call(f"set.{name}(untracked)", [], node, havoc_args=False)
                return eng.alloc(VSet(arr=z3.Array(fresh_name("setof"), Val, z3.BoolSort())))
        raise OutOfSubset(node, f"method set.{name}")
    if isinstance(r, VDict):
        fn = DICT_METHODS.get(name)
        if fn is not None:
            return fn(eng, recv, r, args, kwargs, node)
        raise OutOfSubset(node, f"method dict.{name}")
    if isinstance(r, VStr):
        if name in ("encode",):
            if getattr(r, "hexfmt", None) is not None:
                return fmt_hex_bytes(eng, *r.hexfmt)
            if r.s is not None:
                return seq_const(r.s.encode("utf-8"))
            arr = fresh_arr("enc")
            n = fresh_int("enc_len")
            eng.assume(n >= 0)
            eng.byte_facts(arr)
            return seq_from_array(arr, n, "bytes")
        if name in ("format", "join", "lower", "upper", "strip", "replace", "lstrip", "rstrip"):
            return VStr()
        if name in ("startswith", "endswith"):
            return VBool(fresh_bool("str_" + name))
        return eng.opaque_call(f"str.{name}", [], node, havoc_args=False)
    if isinstance(r, VOpaque):
        rng = getattr(r, "range", None)
        if name in ("debug", "info", "warning", "error", "exception", "critical", "log") and "logger" in (r.tag or "").lower():
            return NONE      # logging: arguments were evaluated; the call itself has no modelled effect
        if name == "get" and len(args) == 2 and not kwargs and not eng.spec:
            # mapping.get(key, default): a stored value (assumed never None) or the default
            res = eng.opaque_call(f"<method get of {r.tag or 'opaque'}>", [], node, havoc_args=False)
            dflt = eng.deref(args[1])
            if isinstance(res, VOpaque):
                if isinstance(dflt, VNone):
                    pass
                elif isinstance(dflt, VOpaque):
                    eng.assume(z3.Implies(isnone_f(res.t), isnone_f(dflt.t)))
                else:
                    eng.assume(z3.Not(isnone_f(res.t)))
                eng.vf.note_assumption("values stored in mappings read with .get(key, default) are never None")
            cur = getattr(eng.vf, "current", None)
            posts = cur.options.get("opaque_posts", {}).get(name) if cur is not None else None
            if posts and eng.call_depth == 0:
                env = {f"arg{i}": a for i, a in enumerate(args)}
                env["result"] = res
                for p in posts:
                    eng.assume(eng.eval_spec_bool(p, frame or eng.cur_frame, extra=env))
                eng.vf.note_assumption(f"on normal return of any .{name}(...): {posts}")
            return res
        con = C.lookup("<opaque>", f"{r.tag}.{name}")
        if con is not None:
            return eng.call_contract(con, [recv] + args, kwargs, node, frame)
        res = eng.opaque_call(f"<method {name} of {r.tag or 'opaque'}>", args + list(kwargs.values()), node)
        cur = getattr(eng.vf, "current", None)
        posts = cur.options.get("opaque_posts", {}).get(name) if cur is not None else None
        if posts and eng.call_depth == 0:
            # assumed effect of an untracked callee, by method name (listed in the evidence)
            env = {f"arg{i}": a for i, a in enumerate(args)}
            env["result"] = res
            for p in posts:
                eng.assume(eng.eval_spec_bool(p, frame or eng.cur_frame, extra=env))
            eng.vf.note_assumption(f"on normal return of any .{name}(...): {posts}")
        return res
    if isinstance(r, VModule):
        return eng.call(eng.get_attr(r, name, node, frame), args, kwargs, node, frame)
    if isinstance(r, VTuple):
        if name == "index" or name == "count":
            return VInt(fresh_int("tuple_" + name))
    if isinstance(r, VFunc):
        # os.path.<pure string function>: no effects, and no exception on str/bytes arguments (assumption, listed)
        pure = name in ("basename", "dirname", "join", "splitext", "normpath", "isdir", "isfile", "exists", "islink", "lexists", "isabs") and getattr(r, "name", "") in ("os.path", "path", "posixpath")
        return eng.opaque_call(f"<method {name} of function>", args, node, may_raise=not pure, havoc_args=not pure)
    raise OutOfSubset(node, f"method {name} on {r!r}")


# ---- bytes / bytearray / list methods
SEQ_METHODS = {}


def seqm(*names):
    def deco(fn):
        for n in names:
            SEQ_METHODS[n] = fn
        return fn
    return deco


@seqm("append")
def sm_append(eng, recv, r, args, kwargs, node):
    return list_append(eng, recv, args[0], node)


@seqm("insert")
def sm_insert(eng, recv, r, args, kwargs, node):
    from .values import seq_prepend
    if not isinstance(recv, VRef):
        raise OutOfSubset(node, "insert on immutable")
    pos = const_of(as_int(eng, args[0])) if as_int(eng, args[0]) is not None else None
    x = as_int(eng, args[1]) if r.esort == "int" else to_val(eng, args[1])
    if pos != 0 or x is None:
        raise OutOfSubset(node, "list.insert supported at position 0 only")
    if r.kind == "bytearray" and not eng.branch(z3.And(0 <= x, x <= 255)):
        eng.raise_exc("ValueError", node)
    nb = seq_prepend(r, x)
    if getattr(r, "bytelike", False):
        nb.bytelike = True
    eng.heap[recv.addr] = nb
    return NONE


@seqm("extend")
def sm_extend(eng, recv, r, args, kwargs, node):
    if not isinstance(recv, VRef):
        raise OutOfSubset(node, "extend on immutable")
    return seq_extend(eng, recv, args[0], node)


@seqm("startswith", "endswith")
def sm_startswith(eng, recv, r, args, kwargs, node):
    name = node.func.attr
    p = eng.deref(args[0])
    alts = p.items if isinstance(p, VTuple) else [p]
    ts = []
    for a in alts:
        a = eng.deref(a)
        if not isinstance(a, VSeq):
            raise OutOfSubset(node, f"{name} with {a!r}")
        off = z3.IntVal(0) if name == "startswith" else r.n - a.n
        cl = a.const_len()
        if cl is not None and cl <= 64:
            ts.append(z3.And([a.n <= r.n] + [r.at(off + i) == a.at(z3.IntVal(i)) for i in range(cl)]))
        else:
            k = fresh_bound("k")
            ts.append(z3.And(a.n <= r.n, z3.ForAll([k], z3.Implies(z3.And(0 <= k, k < a.n), r.at(off + k) == a.at(k)))))
    return VBool(z3.Or(ts))


@seqm("find", "index", "rfind", "rindex")
def sm_find(eng, recv, r, args, kwargs, node):
    name = node.func.attr
    needle = eng.deref(args[0])
    if isinstance(needle, VInt):
        needle = seq_of_terms([needle.t], "bytes")
    if not isinstance(needle, VSeq) or needle.const_len() is None or needle.const_len() == 0:
        raise OutOfSubset(node, f"{name} with non-constant-length needle")
    ln = needle.const_len()
    start = z3.IntVal(0)
    end = r.n
    if len(args) > 1:
        s = as_int(eng, args[1])
        start = z3.If(s < 0, z3.If(s + r.n < 0, 0, s + r.n), z3.If(s > r.n, r.n, s))
    if len(args) > 2:
        s = as_int(eng, args[2])
        end = z3.If(s < 0, z3.If(s + r.n < 0, 0, s + r.n), z3.If(s > r.n, r.n, s))

    def match(p):
        return z3.And([r.at(p + i) == needle.at(z3.IntVal(i)) for i in range(ln)])

    res = fresh_int(name)
    j = fresh_bound("j")
    inrange = lambda p: z3.And(start <= p, p + ln <= end)
    found = z3.And(inrange(res), match(res))
    if name in ("find", "index"):
        first = z3.ForAll([j], z3.Implies(z3.And(inrange(j), j < res), z3.Not(match(j))))
    else:
        first = z3.ForAll([j], z3.Implies(z3.And(inrange(j), j > res), z3.Not(match(j))))
    none = z3.ForAll([j], z3.Implies(inrange(j), z3.Not(match(j))))
    eng.assume(z3.Or(z3.And(res == -1, none), z3.And(found, first)))
    if name in ("index", "rindex"):
        if not eng.spec and eng.branch(res == -1):
            eng.raise_exc("ValueError", node)
    return VInt(res)


@seqm("join")
def sm_join(eng, recv, r, args, kwargs, node):
    v = eng.deref(args[0])
    if r.const_len() == 0:
        if isinstance(v, VChunks):
            r2 = VSeq(v.join.at, v.join.n, "bytes", v.join.arr, "int", v.join.off)
            r2.origin = v.join.origin
            return r2
        if isinstance(v, VSeq) and getattr(v, "untyped_empty", False):
            return seq_const(b"")
        if isinstance(v, VTuple) and all(isinstance(eng.deref(x), VSeq) for x in v.items):
            j = seq_const(b"")
            for x in v.items:
                j = seq_concat(j, eng.deref(x), "bytes")
            return j
    if isinstance(v, VOpaque):
        return eng.opaque_call("bytes.join", [], node, havoc_args=False)
    raise OutOfSubset(node, f"join of {v!r} with separator length {r.const_len()}")


@seqm("split")
def sm_split(eng, recv, r, args, kwargs, node):
    sep = eng.deref(args[0]) if args else None
    if isinstance(sep, VSeq) and sep.const_len() == 1 and len(args) == 1 and not kwargs:
        v = VOpaque(tag="split")
        v.split_of = (r, z3.simplify(sep.at(z3.IntVal(0))))
        v.iter_opaque = True
        return v
    if len(args) == 2 and not kwargs:
        # split with maxsplit: an untracked list of byte strings (sound over-approximation: nothing known about it)
        return eng.opaque_call("bytes.split(sep, maxsplit)", [], node, havoc_args=False)
    raise OutOfSubset(node, "bytes.split supported for a one-byte separator without maxsplit (iteration only)")


@seqm("decode")
def sm_decode(eng, recv, r, args, kwargs, node):
    enc = args[0].s if args and isinstance(args[0], VStr) else (kwargs["encoding"].s if "encoding" in kwargs and isinstance(kwargs["encoding"], VStr) else "utf-8")
    errors = args[1].s if len(args) > 1 and isinstance(args[1], VStr) else (kwargs["errors"].s if "errors" in kwargs and isinstance(kwargs["errors"], VStr) else "strict")
    if eng.spec or errors in ("replace", "ignore", "surrogateescape", "backslashreplace"):
        pass
    elif enc == "ascii":
        cl = r.const_len()
        if cl is not None and cl <= 16:
            ok = z3.And([r.at(z3.IntVal(i)) < 128 for i in range(cl)] or [z3.BoolVal(True)])
        else:
            k = fresh_bound("k")
            ok = z3.ForAll([k], z3.Implies(z3.And(0 <= k, k < r.n), r.at(k) < 128))
        if not eng.branch(ok):
            eng.raise_exc("UnicodeDecodeError", node)
    elif enc in ("latin-1", "latin1", "iso-8859-1"):
        pass
    elif eng.branch(fresh_bool("decode_fails"), free=True):
        eng.raise_exc("UnicodeDecodeError", node)
    s = VStr()
    s.decoded_from = r
    return s


@seqm("hex")
def sm_hex(eng, recv, r, args, kwargs, node):
    return VStr()


@seqm("tobytes")
def sm_tobytes(eng, recv, r, args, kwargs, node):
    return VSeq(r.at, r.n, "bytes", r.arr, r.esort, r.off)


@seqm("release")
def sm_release(eng, recv, r, args, kwargs, node):
    return NONE


@seqm("copy")
def sm_copy(eng, recv, r, args, kwargs, node):
    return eng.alloc(VSeq(r.at, r.n, r.kind, r.arr, r.esort, r.off))


@seqm("pop")
def sm_pop(eng, recv, r, args, kwargs, node):
    if not isinstance(recv, VRef):
        raise OutOfSubset(node, "pop on immutable")
    if args:
        c = const_of(as_int(eng, args[0]))
        if c == 0:
            if not eng.branch(r.n > 0):
                eng.raise_exc("IndexError", node)
            x = r.at(z3.IntVal(0))
            eng.heap[recv.addr] = VSeq(lambda k: r.at(k + 1), r.n - 1, r.kind, esort=r.esort)
            return eng.wrap_elem(r, x)
        raise OutOfSubset(node, "pop(i)")
    if not eng.branch(r.n > 0):
        eng.raise_exc("IndexError", node)
    x = r.at(r.n - 1)
    eng.heap[recv.addr] = VSeq(r.at, r.n - 1, r.kind, r.arr, r.esort, r.off)
    return eng.wrap_elem(r, x)


@seqm("count")
def sm_count(eng, recv, r, args, kwargs, node):
    c = fresh_int("count")
    eng.assume(z3.And(c >= 0, c <= r.n))
    return VInt(c)


@seqm("lower")
def sm_lower(eng, recv, r, args, kwargs, node):
    def at(k):
        x = r.at(k)
        return z3.If(z3.And(x >= 65, x <= 90), x + 32, x)
    return VSeq(at, r.n, "bytes")


@seqm("upper")
def sm_upper(eng, recv, r, args, kwargs, node):
    def at(k):
        x = r.at(k)
        return z3.If(z3.And(x >= 97, x <= 122), x - 32, x)
    return VSeq(at, r.n, "bytes")


@seqm("rstrip", "lstrip", "strip")
def sm_strip(eng, recv, r, args, kwargs, node):
    name = node.func.attr
    if args and not isinstance(eng.deref(args[0]), VNone):
        chars = eng.deref(args[0])
        if not hasattr(chars, "items"):
            raise OutOfSubset(node, "strip with symbolic character set")
        cs = frozenset(chars.items)
    else:
        cs = frozenset(b" \t\n\r\x0b\x0c")
    inset = lambda x: z3.Or([x == c for c in sorted(cs)])
    lo = z3.IntVal(0)
    hi = r.n
    k = fresh_bound("k")
    if name in ("lstrip", "strip"):
        lo = fresh_int("strip_lo")
        eng.assume(z3.And(0 <= lo, lo <= r.n,
                          z3.ForAll([k], z3.Implies(z3.And(0 <= k, k < lo), inset(r.at(k)))),
                          z3.Or(lo == r.n, z3.Not(inset(r.at(lo))))))
    if name in ("rstrip", "strip"):
        hi = fresh_int("strip_hi")
        eng.assume(z3.And(lo <= hi, hi <= r.n,
                          z3.ForAll([k], z3.Implies(z3.And(hi <= k, k < r.n), inset(r.at(k)))),
                          z3.Or(hi == lo, z3.Not(inset(r.at(hi - 1))))))
    return seq_slice_raw(r, lo, hi - lo, "bytes")


@seqm("isdigit")
def sm_isdigit(eng, recv, r, args, kwargs, node):
    k = fresh_bound("k")
    return VBool(z3.And(r.n > 0, z3.ForAll([k], z3.Implies(z3.And(0 <= k, k < r.n), z3.And(r.at(k) >= 48, r.at(k) <= 57)))))


DICT_METHODS = {}


def dictm(*names):
    def deco(fn):
        for n in names:
            DICT_METHODS[n] = fn
        return fn
    return deco


@dictm("get")
def dm_get(eng, recv, r, args, kwargs, node):
    key = dict_key(eng, r, args[0], node)
    default = args[1] if len(args) > 1 else NONE
    if eng.branch(r.present[key]):
        return from_sort(eng, r.vsort, r.value[key])
    return default


@dictm("pop")
def dm_pop(eng, recv, r, args, kwargs, node):
    key = dict_key(eng, r, args[0], node)
    if eng.branch(r.present[key]):
        if isinstance(recv, VRef):
            eng.heap[recv.addr] = VDict(z3.Store(r.present, key, False), r.value, r.ksort, r.vsort)
        return from_sort(eng, r.vsort, r.value[key])
    if len(args) > 1:
        return args[1]
    eng.raise_exc("KeyError", node)


@dictm("keys", "values", "items")
def dm_iter(eng, recv, r, args, kwargs, node):
    v = VOpaque(tag="dictview")
    v.iter_opaque = True
    return v


@dictm("clear")
def dm_clear(eng, recv, r, args, kwargs, node):
    if isinstance(recv, VRef):
        ks = z3.IntSort() if r.ksort == "int" else Val
        eng.heap[recv.addr] = VDict(z3.K(ks, z3.BoolVal(False)), r.value, r.ksort, r.vsort)
    return NONE


# ----------------------------------------------------------------------------------------------
# io.BytesIO: exact model as (content, pos); validated against CPython by the concrete cross-check
# ----------------------------------------------------------------------------------------------
OBJ_MODELS = {}


def objm(cls, *names):
    def deco(fn):
        for n in names:
            OBJ_MODELS[(cls, n)] = fn
        return fn
    return deco


@model("io.BytesIO", "BytesIO")
def m_bytesio(eng, args, kwargs, node, frame):
    init = eng.deref(args[0]) if args else seq_const(b"")
    if not isinstance(init, VSeq):
        return eng.opaque_call("BytesIO(opaque)", [], node, havoc_args=False)
    content = VSeq(init.at, init.n, "bytes", init.arr, "int", init.off)
    content.origin = init.origin
    return eng.alloc(VObj("BytesIO", {"content": content, "pos": VInt(0)}))


def _bio(eng, recv):
    o = eng.heap[recv.addr]
    return o, o.fields["content"], o.fields["pos"].t


def _bio_set(eng, recv, content=None, pos=None):
    o = eng.heap[recv.addr]
    nf = dict(o.fields)
    if content is not None:
        nf["content"] = content
    if pos is not None:
        nf["pos"] = VInt(pos)
    eng.heap[recv.addr] = VObj(o.cls, nf, o.ident)


@objm("BytesIO", "tell")
def bio_tell(eng, recv, args, kwargs, node):
    o, c, p = _bio(eng, recv)
    return VInt(p)


@objm("BytesIO", "getvalue")
def bio_getvalue(eng, recv, args, kwargs, node):
    o, c, p = _bio(eng, recv)
    return c


@objm("BytesIO", "seek")
def bio_seek(eng, recv, args, kwargs, node):
    o, c, p = _bio(eng, recv)
    off = as_int(eng, args[0])
    wh = const_of(as_int(eng, args[1])) if len(args) > 1 else 0
    if wh is None:
        raise OutOfSubset(node, "symbolic whence")
    if wh == 0:
        if not eng.spec and eng.branch(off < 0):
            eng.raise_exc("ValueError", node)
        np_ = off
    elif wh == 1:
        np_ = z3.If(p + off < 0, 0, p + off)
    elif wh == 2:
        np_ = z3.If(c.n + off < 0, 0, c.n + off)
    else:
        eng.raise_exc("ValueError", node)
    _bio_set(eng, recv, pos=np_)
    return VInt(np_)


@objm("BytesIO", "read", "read1")
def bio_read(eng, recv, args, kwargs, node):
    o, c, p = _bio(eng, recv)
    n = None
    if args and not isinstance(eng.deref(args[0]), VNone):
        n = as_int(eng, args[0])
    avail = z3.If(c.n > p, c.n - p, 0)
    if n is None:
        k = avail
    else:
        k = z3.If(n < 0, avail, z3.If(n < avail, n, avail))
    k = z3.simplify(k)
    r = seq_slice_raw(c, p, k, "bytes")
    _bio_set(eng, recv, pos=p + k)
    return r


@objm("BytesIO", "write")
def bio_write(eng, recv, args, kwargs, node):
    o, c, p = _bio(eng, recv)
    d = eng.deref(args[0])
    if not isinstance(d, VSeq):
        raise OutOfSubset(node, f"BytesIO.write({d!r})")
    n = d.n
    newlen = z3.If(p + n > c.n, p + n, c.n)
    nc = VSeq(lambda k: z3.If(z3.And(p <= k, k < p + n), d.at(k - p), z3.If(k < c.n, c.at(k), 0)), z3.simplify(z3.If(n == 0, c.n, newlen)), "bytes")
    _bio_set(eng, recv, content=nc, pos=p + n)
    return VInt(n)


@objm("BytesIO", "close")
def bio_close(eng, recv, args, kwargs, node):
    return NONE


@objm("BytesIO", "truncate")
def bio_truncate(eng, recv, args, kwargs, node):
    o, c, p = _bio(eng, recv)
    sz = as_int(eng, args[0]) if args else p
    nl = z3.If(sz < c.n, sz, c.n)
    _bio_set(eng, recv, content=VSeq(c.at, nl, "bytes", c.arr, "int", c.off))
    return VInt(sz)


# ----------------------------------------------------------------------------------------------
# hexadecimal text: f"{n:04x}".encode("ascii") and int(b, 16)
# ----------------------------------------------------------------------------------------------
def hexdigit(d):
    return z3.If(d < 10, 48 + d, 87 + d)


def hexval(c):
    return z3.If(c <= 57, c - 48, z3.If(c <= 70, c - 55, c - 87))


def is_hex(c):
    return z3.Or(z3.And(c >= 48, c <= 57), z3.And(c >= 65, c <= 70), z3.And(c >= 97, c <= 102))


def fmt_hex_bytes(eng, n, width):
    """bytes of ('%0{width}x' % n) for n >= 0: exact when n < 16**width, longer otherwise."""
    arr = fresh_arr("hex")
    ln = fresh_int("hex_len")
    fits = z3.And(n >= 0, n < 16 ** width)
    digs = [arr[i] == hexdigit((n / (16 ** (width - 1 - i))) % 16) for i in range(width)]
    eng.assume(z3.Implies(fits, z3.And([ln == width] + digs)))
    eng.assume(z3.Implies(z3.And(n >= 0, z3.Not(fits)), ln > width))
    eng.assume(ln >= 1)
    eng.byte_facts(arr)
    eng.vf.note_assumption(f"'%0{width}x' formatting: exactly {width} lower-case hex digits for 0 <= n < 16**{width}, more digits above (validated exhaustively against CPython in the stdlib-axiom guard)")
    return seq_from_array(arr, ln, "bytes")


_old_fstring = fstring


def fstring(eng, e, frame):  # noqa: F811
    s = _old_fstring(eng, e, frame)
    vals = e.values
    if len(vals) == 1 and isinstance(vals[0], ast.FormattedValue) and vals[0].format_spec is not None:
        fs = vals[0].format_spec
        if isinstance(fs, ast.JoinedStr) and len(fs.values) == 1 and isinstance(fs.values[0], ast.Constant):
            spec = fs.values[0].value
            import re as _re
            m = _re.fullmatch(r"0(\d)x", spec)
            if m:
                v = eng.eval(vals[0].value, frame)
                t = as_int(eng, v)
                if t is not None:
                    s.hexfmt = (t, int(m.group(1)))
    return s


def int_base16(eng, v, node=None):
    """int(b, 16) for a byte string: exact on exactly-4-hex-digit input (the only form accepted
    after _parse_pkt_line_length's guard); otherwise unknown value or ValueError."""
    cl = v.const_len()
    def exact(width):
        return z3.Sum([hexval(v.at(z3.IntVal(i))) * (16 ** (width - 1 - i)) for i in range(width)])
    allhex4 = z3.And([v.n == 4] + [is_hex(v.at(z3.IntVal(i))) for i in range(4)])
    if eng.spec:
        return VInt(exact(4))
    if eng.branch(allhex4):
        return VInt(exact(4))
    if eng.branch(fresh_bool("int16_raises"), free=True):
        eng.raise_exc("ValueError", node)
    return VInt(fresh_int("int16"))


@model("contextlib.suppress", "suppress")
def m_suppress(eng, args, kwargs, node, frame):
    o = VObj("suppress", {})
    o.classes = [a.name for a in args if isinstance(a, VClass)]
    if len(o.classes) != len(args):
        return eng.opaque_call("suppress(untracked)", [], node, havoc_args=False)
    return eng.alloc(o)




@model("os.fspath")
def m_fspath(eng, args, kwargs, node, frame):
    """os.fspath(p) denotes the same path as p (identity for str/bytes); TypeError for non-paths."""
    if not eng.spec and eng.branch(fresh_bool("fspath_typeerror"), free=True):
        eng.raise_exc("TypeError", node)
    eng.vf.note_assumption("os.fspath(p) is treated as the identity on paths")
    return args[0]


# ----------------------------------------------------------------------------------------------
# hashlib: a hash object is the byte string fed to it so far; digests are uninterpreted functions of it
# ----------------------------------------------------------------------------------------------
@model("hashlib.sha1", "hashlib.sha256", "sha1", "sha256")
def m_newhash(eng, args, kwargs, node, frame):
    init = eng.deref(args[0]) if args else seq_const(b"")
    if not isinstance(init, VSeq):
        return eng.opaque_call("hashlib(untracked)", [], node, havoc_args=False)
    return eng.alloc(VObj("HashObj", {"data": VSeq(init.at, init.n, "bytes", init.arr, "int", init.off)}))


@objm("HashObj", "update")
def hash_update(eng, recv, args, kwargs, node):
    o = eng.heap[recv.addr]
    d = eng.deref(args[0])
    if not isinstance(d, VSeq):
        raise OutOfSubset(node, f"hash.update({d!r})")
    nf = dict(o.fields)
    nf["data"] = seq_concat(o.fields["data"], d, "bytes")
    eng.heap[recv.addr] = VObj(o.cls, nf, o.ident)
    return NONE


@objm("HashObj", "digest", "hexdigest")
def hash_digest(eng, recv, args, kwargs, node):
    return VOpaque(tag="digest")


@objm("HashObj", "copy")
def hash_copy(eng, recv, args, kwargs, node):
    o = eng.heap[recv.addr]
    return eng.alloc(VObj(o.cls, dict(o.fields)))


@model("stat.S_ISDIR", "stat.S_ISREG", "stat.S_ISLNK")
def m_stat_is(eng, args, kwargs, node, frame):
    name = node.func.attr if isinstance(node.func, ast.Attribute) else node.func.id
    want = {"S_ISDIR": 0o040000, "S_ISREG": 0o100000, "S_ISLNK": 0o120000}[name]
    t = as_int(eng, args[0])
    if t is None:
        return VBool(fresh_bool(name))
    return VBool(and_const(t, 0o170000) == want)


@model("stat.S_IMODE")
def m_stat_imode(eng, args, kwargs, node, frame):
    t = as_int(eng, args[0])
    if t is None:
        return eng.opaque_call("stat.S_IMODE(opaque)", [], node, may_raise=False, havoc_args=False)
    return VInt(t % 4096)


@model("stat.S_IFMT")
def m_stat_ifmt(eng, args, kwargs, node, frame):
    t = as_int(eng, args[0])
    if t is None:
        return eng.opaque_call("stat.S_IFMT(opaque)", [], node, may_raise=False, havoc_args=False)
    return VInt(and_const(t, 0o170000))


@model("setattr")
def m_setattr(eng, args, kwargs, node, frame):
    obj, name, value = args[0], args[1], args[2]
    if isinstance(name, VStr) and name.s is not None:
        eng.set_attr(obj, name.s, value, node)
        return NONE
    o = eng.deref(obj)
    if isinstance(o, VObj) and C.CLASS_SPECS.get(o.cls) is not None:
        # attribute name computed at run time: a write to some attribute that is NOT one of the fields the class
        # spec declares (made checkable by a syntactic guard in the contract file)
        eng.vf.note_assumption(f"setattr() with a computed name on {o.cls} does not write a field declared in its class spec (guarded syntactically)")
        return NONE
    return eng.opaque_call("setattr", [obj], node)


@model("typing.NewType", "NewType")
def m_newtype(eng, args, kwargs, node, frame):
    """typing.NewType(name, tp) is the identity function at run time."""
    return VFunc("native", fn=lambda eng2, a, kw, nd, fr: a[0], name="NewType-identity")


@model("typing.cast", "cast")
def m_cast(eng, args, kwargs, node, frame):
    return args[1]
